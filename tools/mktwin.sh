#!/bin/bash
# mktwin.sh R07 1 -> /tmp/tw/R07-1 (scratch tree with the twin applied)
src=${3:-/tmp/twins}; d=/tmp/tw/$1-$2; rm -rf $d; mkdir -p $d; git -C /repo archive HEAD | tar -x -C $d; (cd $d && git apply $src/$1/$2/patch.diff) && echo $d
