#!/usr/bin/env python3
"""For every 'fix:' commit of /repo: re-introduce the defect (reverse-apply that commit alone on a scratch copy of HEAD)
and run the check of the property it was recorded under; the check must report a VIOLATION."""
import json, os, re, shutil, subprocess, sys, tempfile
V = os.path.dirname(os.path.dirname(os.path.abspath(__file__)))
kf = json.load(open(os.path.join(V, "known_findings.json")))
fixed = []
for line in kf["fixed"]:
    m = re.match(r"fixed: property=(C\d+) ([0-9a-f]{7,}) (.*)", line)
    if m:
        fixed.append(m.groups())
bad = 0
for pid, commit, what in fixed:
    tmp = tempfile.mkdtemp(prefix="revert-")
    os.rmdir(tmp)
    try:
        subprocess.check_call(["git", "-C", "/repo", "worktree", "add", "-q", "--detach", tmp, "HEAD"])
        r = subprocess.run(["git", "-C", tmp, "revert", "--no-commit", commit], capture_output=True, text=True)
        if r.returncode:
            print("%s %s: revert does not apply cleanly (%s)" % (pid, commit, (r.stderr or r.stdout)[:100]))
            bad += 1
            continue
        env = dict(os.environ, VERIF_REPO=tmp, VERIF_OUT=os.path.join(tmp, "_out"))
        r = subprocess.run(["/venv/bin/python", os.path.join(V, "sa", "check.py"), pid], env=env, capture_output=True, text=True)
        tag = {0: "MISSED", 1: "caught", 2: "ERR"}.get(r.returncode, str(r.returncode))
        first = [l.strip() for l in r.stdout.splitlines() if l.strip().startswith("[")][:1]
        print("%s %s %-6s %s" % (pid, commit, tag, (first[0][:170] if first else what[:100])))
        if r.returncode != 1:
            bad += 1
    finally:
        subprocess.run(["git", "-C", "/repo", "worktree", "remove", "--force", tmp], capture_output=True)
        shutil.rmtree(tmp, ignore_errors=True)
sys.exit(1 if bad else 0)
