#!/bin/bash
# run all quick checks in parallel against $VERIF_REPO (default /repo); print non-zero exits
out=${1:-/tmp/allchecks}
mkdir -p $out
for c in C01 C02 C03 C04 C05 C06 C07 C08 C09 C10 C11 C12 C14 C15 C16 C17 C18 C19 C20; do
  ( VERIF_NO_SELFTEST=1 timeout 600 /venv/bin/python /verif/sa/check.py $c > $out/$c.txt 2>&1; echo "$c $?" > $out/$c.rc ) &
done
wait
cat $out/*.rc | tr '\n' ';'; echo
for c in $out/*.rc; do rc=$(cut -d' ' -f2 $c); if [ "$rc" != "0" ]; then n=$(basename $c .rc); echo "== $n"; grep -E "VIOLATION|ANALYSIS-ERROR|FAIL|Error" $out/$n.txt | head -8 | cut -c1-400; fi; done
