#!/usr/bin/env python3
"""Run every built check against behaviour-preserving refactorings ("twins").  usage: twintest.py <dir-with-Rxx/k/patch.diff> | --committed
A twin must leave every check silent (exit 0).  Twins whose patch applies and whose tests pass are copied to /verif/twins/."""
import json, os, shutil, subprocess, sys, tempfile
from concurrent.futures import ThreadPoolExecutor
V = os.path.dirname(os.path.dirname(os.path.abspath(__file__)))
src = sys.argv[1] if len(sys.argv) > 1 else "--committed"
only = sys.argv[2:] 
built = sorted(f[:-3].upper() for f in os.listdir(os.path.join(V, "sa", "props")) if f.startswith("c") and f.endswith(".py"))
jobs = []
if src == "--committed":
    for d in sorted(os.listdir(os.path.join(V, "twins"))):
        if os.path.exists(os.path.join(V, "twins", d, "patch.diff")):
            jobs.append((d, os.path.join(V, "twins", d)))
else:
    for r in sorted(os.listdir(src)):
        for k in sorted(os.listdir(os.path.join(src, r))):
            d = os.path.join(src, r, k)
            if os.path.exists(os.path.join(d, "patch.diff")):
                jobs.append(("%s-%s" % (r, k), d))
if only:
    jobs = [j for j in jobs if j[0] in only]


def one(job):
    name, d = job
    tmp = tempfile.mkdtemp(prefix="twin-")
    try:
        subprocess.check_call("git -C /repo archive HEAD | tar -x -C %s" % tmp, shell=True)
        r = subprocess.run(["git", "apply", os.path.join(d, "patch.diff")], cwd=tmp, capture_output=True, text=True)
        if r.returncode:
            return name, "patch does not apply", {}
        env = dict(os.environ, PYTHONPATH=os.path.join(tmp, "modules"))
        t = subprocess.run(["/venv/bin/python", "-m", "pytest", "-q", "-p", "no:cacheprovider", "test"], cwd=tmp, env=env, capture_output=True, text=True)
        if t.returncode:
            return name, "tests fail", {}
        res = {}
        for p in built:
            e2 = dict(os.environ, VERIF_REPO=tmp, VERIF_OUT=os.path.join(tmp, "_out"))
            r = subprocess.run(["/venv/bin/python", os.path.join(V, "sa", "check.py"), p], env=e2, capture_output=True, text=True, timeout=900)
            if r.returncode != 0:
                det = [l.strip() for l in r.stdout.splitlines() if l.strip().startswith("[") or "ANALYSIS-ERROR" in l]
                res[p] = (r.returncode, det[:3])
        return name, "ok", res
    finally:
        shutil.rmtree(tmp, ignore_errors=True)


with ThreadPoolExecutor(5) as ex:
    for name, status, res in ex.map(one, jobs):
        print(name, status, "ALL SILENT" if status == "ok" and not res else "")
        for p, (rc, det) in res.items():
            print("    %s rc=%d" % (p, rc))
            for l in det:
                print("        " + l[:300])
