#!/usr/bin/env python3
"""Run every built check against behaviour-preserving refactorings ("twins").  usage: twintest.py <dir-with-Rxx/k/patch.diff> | --committed
A twin must leave every check silent (exit 0).  Twins whose patch applies and whose tests pass are copied to /verif/twins/."""
import json, os, shutil, subprocess, sys, tempfile
from concurrent.futures import ThreadPoolExecutor
V = os.path.dirname(os.path.dirname(os.path.abspath(__file__)))
src = sys.argv[1] if len(sys.argv) > 1 else "--committed"
only = sys.argv[2:] 
built = sorted(f[:-3].upper() for f in os.listdir(os.path.join(V, "sa", "props")) if f.startswith("c") and f.endswith(".py"))
jobs = []
if src == "--committed":
    for d in sorted(os.listdir(os.path.join(V, "twins"))):
        if os.path.exists(os.path.join(V, "twins", d, "patch.diff")):
            jobs.append((d, os.path.join(V, "twins", d)))
else:
    for r in sorted(os.listdir(src)):
        for k in sorted(os.listdir(os.path.join(src, r))):
            d = os.path.join(src, r, k)
            if os.path.exists(os.path.join(d, "patch.diff")):
                jobs.append(("%s-%s" % (r, k), d))
if only:
    jobs = [j for j in jobs if j[0] in only]


def prep(job):
    name, d = job
    tmp = tempfile.mkdtemp(prefix="twin-")
    subprocess.check_call("git -C /repo archive HEAD | tar -x -C %s" % tmp, shell=True)
    r = subprocess.run(["git", "apply", os.path.join(d, "patch.diff")], cwd=tmp, capture_output=True, text=True)
    if r.returncode:
        return name, tmp, "patch does not apply"
    env = dict(os.environ, PYTHONPATH=os.path.join(tmp, "modules"))
    t = subprocess.run(["/venv/bin/python", "-m", "pytest", "-q", "-p", "no:cacheprovider", "test"], cwd=tmp, env=env, capture_output=True, text=True)
    if t.returncode:
        return name, tmp, "tests fail"
    return name, tmp, "ok"


def chk(task):
    name, tmp, p = task
    e2 = dict(os.environ, VERIF_REPO=tmp, VERIF_OUT=os.path.join(tmp, "_out_" + p), VERIF_NO_SELFTEST="1")
    try:
        r = subprocess.run(["/venv/bin/python", os.path.join(V, "sa", "check.py"), p], env=e2, capture_output=True, text=True, timeout=900)
    except subprocess.TimeoutExpired:
        return name, p, 124, ["timeout"]
    det = [l.strip() for l in r.stdout.splitlines() if l.strip().startswith("[") or "ANALYSIS-ERROR" in l]
    return name, p, r.returncode, det[:3]


props = [p for p in built if not os.environ.get("TWIN_PROPS") or p in os.environ["TWIN_PROPS"].split(",")]
with ThreadPoolExecutor(16) as ex:
    trees = list(ex.map(prep, jobs))
    try:
        tasks = [(n, t, p) for n, t, st in trees if st == "ok" for p in props]
        res = {}
        for name, p, rc, det in ex.map(chk, tasks):
            if rc != 0:
                res.setdefault(name, {})[p] = (rc, det)
    finally:
        for _, t, _ in trees:
            shutil.rmtree(t, ignore_errors=True)
nsil = 0
for name, t, st in trees:
    r = res.get(name, {})
    silent = st == "ok" and not r
    nsil += silent
    print(name, st, "ALL SILENT" if silent else "")
    for p, (rc, det) in r.items():
        print("    %s rc=%d" % (p, rc))
        for l in det:
            print("        " + l[:300])
print("%d/%d twins silent" % (nsil, len(trees)))
