#!/usr/bin/env python3
"""Regenerate MANIFEST.json from the set of built checkers (sa/props/cNN.py) and the
per-property texts below."""
import json, os
V = os.path.dirname(os.path.dirname(os.path.abspath(__file__)))
props = [json.loads(l) for l in open(os.path.join(V, "properties.jsonl"))]
built = sorted(f[:-3].upper() for f in os.listdir(os.path.join(V, "sa", "props")) if f.startswith("c") and f.endswith(".py"))
TEXT = json.load(open(os.path.join(V, "tools", "manifest_text.json")))
NA = {"C13": "value-level round trip parse(hexdump(d)) == d of two string algorithms over all byte strings and 256x256 layouts: "
             "no dataflow/typestate/effect rule bounds it and the visible structural part (template/constant agreement) is untouched "
             "by the realistic regressions the property names, so a static claim would be a proxy (DESIGN.md C13)"}
m = {"version": 1, "setup_cmd": "true",
     "hooks": {"guard": "OPENPOWER_PEL_PARSERS_VERIF", "enable": "none needed: the checks read /repo's source only (no hooks, no instrumentation)",
               "baseline_off_cmd": "cd /repo && /venv/bin/python -m pytest -ra -q -p no:cacheprovider --timeout=900 --continue-on-collection-errors",
               "source_commits": [], "add_only": True},
     "engines": [
         {"name": "abstract-interpreter", "path": "sa/interp.py", "serves_properties": [b for b in built],
          "kind_free_text": "predicated abstract interpretation of the repository's functions over a hash-consed term domain (stream layout, "
                            "value provenance, path conditions, loop summaries, effect/event order); no repository code is executed"},
         {"name": "effect-scan", "path": "sa/effects.py", "serves_properties": ["C05", "C09", "C11"],
          "kind_free_text": "syntactic who-may-call scan of every call site with import-alias resolution"},
         {"name": "cli-model", "path": "sa/cli.py", "serves_properties": ["C07", "C08", "C09", "C10", "C11", "C12"],
          "kind_free_text": "interpretation of peltool.main(): option table, option->Config mapping, mode dispatch with path conditions"}],
     "checks": [], "not_applicable": [],
     "notes": "Technique family: static analysis only. Exit 0 = all obligations discharged; 1 + VIOLATION line = a construct breaks a rule; "
              "2 + ANALYSIS-ERROR = code shape not understood (no verdict). See DESIGN.md."}
for p in props:
    pid = p["id"]
    if pid in built and pid in TEXT:
        t = TEXT[pid]
        m["checks"].append({
            "property_id": pid,
            "quick_cmd": "/venv/bin/python /verif/sa/check.py %s" % pid,
            "thorough_cmd": "/venv/bin/python /verif/sa/check.py %s --thorough" % pid,
            "evidence_file": "/verif/evidence/%s.json" % pid,
            "replay_cmd_template": "/venv/bin/python /verif/sa/check.py %s --replay {path}" % pid,
            "engine": "abstract-interpreter",
            "level_claimed": {"category": "other", "text": t["text"], "design_ref": "DESIGN.md section 3, %s" % pid},
            "level_note": t["note"],
            "technique": t["technique"]})
    else:
        m["not_applicable"].append({"property_id": pid, "reason": NA.get(pid, "checker not built yet in this session (work in progress)")})
json.dump(m, open(os.path.join(V, "MANIFEST.json"), "w"), indent=1)
print("claimed:", [c["property_id"] for c in m["checks"]])
print("n/a:", [c["property_id"] for c in m["not_applicable"]])
