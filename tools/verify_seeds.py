#!/usr/bin/env python3
"""Confirm seeded changes produced by independent sub-agents and store them under
/verif/seeded/<prop>-<k>/.  For each candidate directory (patch.diff, demo.py,
meta.json): in a scratch worktree of /repo HEAD, (1) demo passes on the pristine
tree, (2) patch applies, (3) the 55 tests pass with it, (4) demo fails with it."""
import json, os, shutil, subprocess, sys, tempfile
from concurrent.futures import ThreadPoolExecutor

SRC = sys.argv[1] if len(sys.argv) > 1 else "/tmp/seeds"
OFFSET = int(sys.argv[2]) if len(sys.argv) > 2 else 0        # round 2: stored as <prop>-(k+3)
ONLY = sys.argv[3:]                                            # optional property ids
DST = "/verif/seeded"
PY = "/venv/bin/python"


def sh(cmd, cwd=None, env=None, timeout=600):
    p = subprocess.run(cmd, cwd=cwd, env=env, capture_output=True, text=True, timeout=timeout)
    return p.returncode, (p.stdout + p.stderr)[-1500:]


def one(pid, k):
    d = os.path.join(SRC, pid, k)
    if not os.path.exists(os.path.join(d, "patch.diff")):
        return pid, k, "no patch", {}
    wt = tempfile.mkdtemp(prefix="seedwt-", dir="/tmp")
    os.rmdir(wt)
    res = {}
    try:
        rc, out = sh(["git", "-C", "/repo", "worktree", "add", "-q", "--detach", wt, "HEAD"])
        if rc:
            return pid, k, "worktree failed " + out, {}
        env = dict(os.environ, PYTHONPATH=os.path.join(wt, "modules"), REPO_ROOT=wt)
        env.pop("PYTHONUNBUFFERED", None)
        rc0, out0 = sh([PY, os.path.join(d, "demo.py"), wt], cwd=d, env=env)
        res["demo_pristine_rc"] = rc0
        rc, out = sh(["git", "apply", os.path.join(d, "patch.diff")], cwd=wt)
        res["apply_rc"] = rc
        if rc:
            return pid, k, "patch does not apply: " + out, res
        rct, outt = sh([PY, "-m", "pytest", "-q", "-p", "no:cacheprovider", "test"], cwd=wt, env=env)
        res["tests_rc"] = rct
        res["tests_tail"] = outt.strip().splitlines()[-1] if outt.strip() else ""
        rc1, out1 = sh([PY, os.path.join(d, "demo.py"), wt], cwd=d, env=env)
        res["demo_patched_rc"] = rc1
        res["demo_patched_out"] = out1.strip()[-300:]
        ok = rc0 == 0 and rct == 0 and rc1 != 0
        return pid, k, "OK" if ok else "REJECT", res
    finally:
        sh(["git", "-C", "/repo", "worktree", "remove", "--force", wt])
        shutil.rmtree(wt, ignore_errors=True)


jobs = []
for pid in sorted(os.listdir(SRC)):
    if ONLY and pid not in ONLY:
        continue
    pd = os.path.join(SRC, pid)
    if not os.path.isdir(pd):
        continue
    for k in sorted(os.listdir(pd)):
        if os.path.isdir(os.path.join(pd, k)) and k.isdigit():
            jobs.append((pid, k))
with ThreadPoolExecutor(8) as ex:
    results = list(ex.map(lambda a: one(*a), jobs))
for pid, k, status, res in results:
    print(pid, k, status, res.get("tests_tail", ""), res.get("demo_patched_out", "")[:100].replace("\n", " "))
    if status == "OK":
        out = os.path.join(DST, "%s-%d" % (pid, int(k) + OFFSET))
        os.makedirs(out, exist_ok=True)
        for f in ("patch.diff", "demo.py"):
            shutil.copy(os.path.join(SRC, pid, k, f), os.path.join(out, f))
        meta = {}
        try:
            meta = json.load(open(os.path.join(SRC, pid, k, "meta.json")))
        except Exception:
            pass
        meta["property"] = pid
        meta["confirmed_by_main"] = {
            "base_commit": subprocess.check_output(["git", "-C", "/repo", "rev-parse", "--short", "HEAD"], text=True).strip(),
            "ran": ["demo.py on pristine scratch worktree -> exit %s" % res["demo_pristine_rc"],
                    "git apply patch.diff -> exit %s" % res["apply_rc"],
                    "pytest test (55 tests) with patch -> %s" % res["tests_tail"],
                    "demo.py with patch -> exit %s" % res["demo_patched_rc"]]}
        json.dump(meta, open(os.path.join(out, "meta.json"), "w"), indent=1)
