#!/usr/bin/env python3
"""Run checks against the seeded breaking changes on scratch copies of /repo.
usage: seedtest.py [--props C02,C05] [--all-checks] [seed-name ...]
For each seeded/<P>-<k>: copy /repo's tracked sources to a temp dir, apply the
patch, run check <P> (or every built check with --all-checks) with VERIF_REPO
pointing at the copy. Prints a detection matrix. The scratch copy is removed."""
import json, os, shutil, subprocess, sys, tempfile
from concurrent.futures import ThreadPoolExecutor

VERIF = os.path.dirname(os.path.dirname(os.path.abspath(__file__)))
args = sys.argv[1:]
props = None
allchecks = False
names = []
i = 0
while i < len(args):
    if args[i] == "--props":
        props = args[i + 1].split(","); i += 2
    elif args[i] == "--all-checks":
        allchecks = True; i += 1
    else:
        names.append(args[i]); i += 1
built = sorted(f[:-3].upper() for f in os.listdir(os.path.join(VERIF, "sa", "props")) if f.startswith("c") and f.endswith(".py"))
seeds = sorted(d for d in os.listdir(os.path.join(VERIF, "seeded")) if os.path.isdir(os.path.join(VERIF, "seeded", d)))
if names:
    seeds = [s for s in seeds if s in names]
if props:
    seeds = [s for s in seeds if s.split("-")[0] in props]


def one(seed):
    pid = seed.split("-")[0]
    tmp = tempfile.mkdtemp(prefix="seedtest-")
    try:
        subprocess.check_call("git -C /repo archive HEAD | tar -x -C %s" % tmp, shell=True)
        r = subprocess.run(["git", "apply", os.path.join(VERIF, "seeded", seed, "patch.diff")], cwd=tmp, capture_output=True, text=True)
        if r.returncode:
            return seed, {"apply": "FAILED " + r.stderr[:200]}
        res = {}
        for p in (built if allchecks else [pid]):
            if p not in built:
                res[p] = "-"
                continue
            env = dict(os.environ, VERIF_REPO=tmp, VERIF_OUT=os.path.join(tmp, "_out"))
            r = subprocess.run(["/venv/bin/python", os.path.join(VERIF, "sa", "check.py"), p], env=env, capture_output=True, text=True, timeout=900)
            tag = {0: "pass", 1: "VIOL", 2: "ERR"}.get(r.returncode, "rc%d" % r.returncode)
            detail = [l.strip() for l in r.stdout.splitlines() if l.strip().startswith("[") or "ANALYSIS-ERROR" in l]
            res[p] = (tag, detail[:3])
        return seed, res
    finally:
        shutil.rmtree(tmp, ignore_errors=True)


with ThreadPoolExecutor(12) as ex:
    for seed, res in ex.map(one, seeds):
        pid = seed.split("-")[0]
        own = res.get(pid)
        line = "%-7s own=%s" % (seed, own[0] if isinstance(own, tuple) else own)
        if allchecks:
            line += "  others: " + " ".join("%s=%s" % (p, v[0]) for p, v in res.items() if p != pid and isinstance(v, tuple) and v[0] != "pass")
        print(line)
        if isinstance(own, tuple):
            for d in own[1]:
                print("        " + d[:260])
        if "apply" in res:
            print("        ", res["apply"])
