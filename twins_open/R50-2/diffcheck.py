#!/usr/bin/env python
"""
Differential check for the hwdiags / oe500 / osrc / src.py refactorings.

usage: diffcheck.py <pristine_root> <patched_root>

Both trees are copied into scratch directories, identical synthetic fixtures
(hwdiags JSON data files, fake SRC / callout plugin modules) are dropped into
both copies and the same set of cases is run against each copy in separate
subprocesses (PYTHONPATH points at the copy).  Every case records its return
value / exception type+text / captured stdout / captured stderr; the CLI cases
record stdout, stderr, exit status and the directory listing + file contents.

Prints "IDENTICAL (<n> cases)" and exits 0 when everything matches.
"""
import json
import os
import shutil
import struct
import subprocess
import sys
import tempfile
import random

PY = sys.executable

# --------------------------------------------------------------------------
# fixtures
# --------------------------------------------------------------------------

DATA_MAIN = {
    "p10_20.json": {
        "model_ec": {"id": "20da0020", "type": "proc", "desc": "P10 2.0"},
        "attn_types": {"1": "CHECKSTOP", "2": "UNIT_CS", "3": "RECOVERABLE",
                       "4": "HOST_ATTN", "68": "weird", "5": None},
        "signatures": {
            "1234": ["EQ_CORE_FIR", {"0": "first bit", "5": "parity error",
                                     "119": "bit 0x77"}],
            "abcd": ["LOWER_FIR", {"1": "one"}],
            "5555": ["FIVES", {}],
            "aaaa": {"x": 1},
            "bbbb": [],
            "cccc": ["ONLY_NAME"],
            "dddd": ["BAD_BITS", ["notdict"]],
            "eeee": [None, {"0": None}],
            "ffff": [["l"], {"0": {"k": 1}}],
        },
        "registers": {
            "abcdef": ["A_VERY_LONG_REGISTER_NAME_WHICH_EXCEEDS_25",
                       {"0": "0x20010A40", "1": "20010a41", "255": "ffffffff"}],
            "000001": ["SHORT", {"0": "0x1"}],
            "000002": ["BADADDR", {"0": "zz"}],
            "000003": ["INTADDR", {"0": 5}],
            "000004": {"x": "y"},
            "000005": [],
            "000006": ["NEG", {"0": "-5"}],
            "000007": ["ONLYNAME"],
            "000008": [12345, {"0": "0x123456789A"}],
            "000009": ["NULLADDR", {"0": None, "1": ""}],
            "00000a": [["listname"], {"0": "1"}],
            "00000b": ["", {"0": "0X7fFFffFF", "1": " 12 ", "2": "1_0"}],
        },
    },
    "explorer.json": {
        "model_ec": {"id": "160d2000"},
    },
    "odd_types.json": {
        "model_ec": {"id": "0badc0de", "type": 5, "desc": None},
        "attn_types": [],
        "signatures": {"1234": "str"},
        "registers": "str",
    },
    "odd_types2.json": {
        "model_ec": {"id": "11111111", "type": ["t"], "desc": {"d": 1}},
        "attn_types": {"51": {"nested": True}, "68": 7},
        "signatures": {},
        "registers": {},
    },
    "upper_id.json": {
        "model_ec": {"id": "ABCDEF01", "type": "never", "desc": "matched"},
    },
    "explicit_unknown.json": {
        "model_ec": {"id": "22222222", "desc": "only desc"},
        "attn_types": {"0": "zero"},
    },
}

DATA_BROKEN = {
    "zz_broken.json": {"no_model_ec": True},
}

PLUGINS = {
    # --- SRC parsers reached through osrc (creator 'O') -----------------
    "srcparsers/bsrc/bsrc.py": '''
import json, sys
print("IMPORT bsrc", file=sys.stderr)
def parseSRCToJson(refcode, word2, word3, word4, word5, word6, word7, word8, word9):
    if refcode[2:4] == 'EX':
        raise ValueError("bsrc boom " + refcode.strip())
    if refcode[2:4] == 'MN':
        raise ModuleNotFoundError("bsrc mnf")
    if refcode[2:4] == 'KI':
        raise KeyboardInterrupt("bsrc ki")
    if refcode[2:4] == 'NJ':
        return 'this is not json'
    if refcode[2:4] == 'NU':
        return json.dumps(None)
    if refcode[2:4] == 'EM':
        return ''
    return json.dumps({"bsrc": [refcode, word2, word3, word4, word5, word6, word7, word8, word9]})
''',
    "srcparsers/oaa00/oaa00.py": '''
import sys
print("IMPORT oaa00", file=sys.stderr)
def parseSRCToJson(*args):
    raise RuntimeError("oaa00 failed %d" % len(args))
''',
    "srcparsers/obb00/obb00.py": '''
import sys
print("IMPORT obb00", file=sys.stderr)
raise ImportError("obb00 import boom")
''',
    "srcparsers/occ00/occ00.py": '''
import sys
print("IMPORT occ00", file=sys.stderr)
import this_module_does_not_exist_xyz
''',
    "srcparsers/odd00/odd00.py": '''
def parseSRCToJson(*args):
    return '{"truncated": '
''',
    "srcparsers/oee00/oee00.py": '''
def parseSRCToJson(*args):
    return 'null'
''',
    "srcparsers/off00/off00.py": '''
def parseSRCToJson(*args):
    return ''
''',
    "srcparsers/o1100/o1100.py": '''
import json
CALLS = [0]
def parseSRCToJson(*args, **kwargs):
    CALLS[0] += 1
    return json.dumps({"calls": CALLS[0], "args": list(args), "kw": kwargs})
''',
    "srcparsers/o2200/o2200.py": '''
# module without parseSRCToJson
x = 1
''',
    # --- SRC parsers reached directly from src.py (other creator IDs) ---
    "srcparsers/hsrc/hsrc.py": '''
import sys
print("IMPORT hsrc", file=sys.stderr)
raise ImportError("hsrc import boom")
''',
    "srcparsers/xsrc/xsrc.py": '''
import sys
print("IMPORT xsrc", file=sys.stderr)
raise SystemExit(7)
''',
    "srcparsers/ysrc/ysrc.py": '''
def parseSRCToJson(refcode, *words):
    if refcode[2:4] == 'KI':
        raise KeyboardInterrupt("ysrc ki")
    if refcode[2:4] == 'SE':
        raise SystemExit(9)
    raise KeyError("ysrc " + refcode.strip())
''',
    "srcparsers/wsrc/wsrc.py": '''
import json
def parseSRCToJson(refcode, *words):
    return json.dumps({"wsrc": refcode.strip(), "words": list(words)})
''',
    "srcparsers/vsrc/vsrc.py": '''
y = 2
''',
    # --- callout parsers -------------------------------------------------
    "calloutparsers/bcallouts/bcallouts.py": '''
def getMaintProcDesc(procedure):
    raise RuntimeError("bcallouts " + procedure)
''',
    "calloutparsers/hcallouts/hcallouts.py": '''
def getMaintProcDesc(procedure):
    return "not json " + procedure
''',
    "calloutparsers/xcallouts/xcallouts.py": '''
import sys
print("IMPORT xcallouts", file=sys.stderr)
raise ImportError("xcallouts import boom")
''',
    "calloutparsers/ycallouts/ycallouts.py": '''
z = 3
''',
    "calloutparsers/zcallouts/zcallouts.py": '''
import sys
print("IMPORT zcallouts", file=sys.stderr)
raise SystemExit(5)
''',
    "calloutparsers/wcallouts/wcallouts.py": '''
import json
def getMaintProcDesc(procedure):
    if procedure == 'KI':
        raise KeyboardInterrupt("wcallouts ki")
    if procedure == 'NULL':
        return 'null'
    if procedure == 'NONE':
        return None
    return json.dumps({"proc": procedure})
''',
}


def make_tree(root, dest, profile):
    shutil.copytree(os.path.join(root, 'modules'), os.path.join(dest, 'modules'))
    mods = os.path.join(dest, 'modules')
    data_dir = os.path.join(mods, 'pel', 'hwdiags', 'data')
    files = {}
    if profile in ('main', 'broken'):
        files.update(DATA_MAIN)
    if profile == 'broken':
        files.update(DATA_BROKEN)
    for name in sorted(files):
        with open(os.path.join(data_dir, name), 'w') as fp:
            json.dump(files[name], fp)
    for rel in sorted(PLUGINS):
        path = os.path.join(mods, rel)
        os.makedirs(os.path.dirname(path), exist_ok=True)
        init = os.path.join(os.path.dirname(path), '__init__.py')
        if not os.path.exists(init):
            open(init, 'w').close()
        with open(path, 'w') as fp:
            fp.write(PLUGINS[rel].lstrip('\n'))


# --------------------------------------------------------------------------
# binary builders (shared by the API driver and the CLI cases)
# --------------------------------------------------------------------------

BUILDERS = r'''
import struct, random

def sig_list(sigs, count=None):
    out = struct.pack('>I', len(sigs) if count is None else count)
    for a, b, c in sigs:
        out += bytes.fromhex(a) + bytes.fromhex(b) + bytes.fromhex(c)
    return out

def reg_dump(chips, count=None):
    out = struct.pack('>I', len(chips) if count is None else count)
    for model, chip_pos, node_pos, regs, nregs in chips:
        out += bytes.fromhex(model) + struct.pack('>HBI', chip_pos, node_pos,
                                                  len(regs) if nregs is None else nregs)
        for rid, inst, buf, size in regs:
            out += bytes.fromhex(rid) + struct.pack('>BB', inst,
                                                    len(buf) if size is None else size) + buf
    return out

def fru(flags, pn=b'PN123456', ccin=b'CCIN', sn=b'SN1234567890', size=None):
    body = b''
    if flags & 0x08 or flags & 0x02:
        body += pn.ljust(8, b'\0')[:8]
    if flags & 0x04:
        body += ccin.ljust(4, b'\0')[:4]
    if flags & 0x01:
        body += sn.ljust(12, b'\0')[:12]
    return struct.pack('>HBB', 0x4944, (4 + len(body)) if size is None else size, flags) + body

def pce(name=b'PCENAME\0', mtm=b'9105-22A', sn=b'PCESN1234567', size=None):
    body = mtm.ljust(8, b'\0')[:8] + sn.ljust(12, b'\0')[:12] + name
    return struct.pack('>HBB', 0x5045, (4 + len(body)) if size is None else size, 0) + body

def mru(ids, flags=None):
    body = struct.pack('>I', 0)
    for prio, i in ids:
        body += struct.pack('>II', prio, i)
    return struct.pack('>HBB', 0x4D52, 4 + len(body), len(ids) if flags is None else flags) + body

def callout(subs, loc=b'U78DA.ND0.1234567-P0\0\0\0\0', prio=0x48, size=None):
    body = b''.join(subs)
    total = 4 + len(loc) + len(body)
    return struct.pack('>BBBB', total if size is None else size, 0, prio, len(loc)) + loc + body

def callouts(cos, wordlen=None):
    body = b''.join(cos)
    total = 4 + len(body)
    return struct.pack('>BBH', 0xC0, 0, (total // 4) if wordlen is None else wordlen) + body

def src_body(ascii_str, words, flags=0, wordcount=9, cos=b''):
    a = ascii_str.encode() if isinstance(ascii_str, str) else ascii_str
    a = a.ljust(32, b' ')[:32]
    if cos:
        flags |= 0x01
    out = struct.pack('>BBBBHH', 2, flags, 0, wordcount, 0, 72 + len(cos))
    out += b''.join(struct.pack('>I', w) for w in words)
    return out + a + cos

def section(sid, ver, subtype, comp, body):
    return sid + struct.pack('>HBBH', 8 + len(body), ver, subtype, comp) + body

def pel(creator, sections, sev=0x40, action=0xA000, eid=0x50000001, count=None):
    ph = bytes.fromhex('2024010212304500') + bytes.fromhex('2024010212304600')
    ph += creator.encode() + b'\0\0' + bytes([(2 + len(sections)) if count is None else count])
    ph += struct.pack('>IQII', 77, 0x0102030405060708, eid, eid)
    uh = struct.pack('>BBBBIBBHI', 0x10, 0x03, sev, 0x00, 0, 0, 0, action, 0)
    out = section(b'PH', 1, 0, 0x1000, ph) + section(b'UH', 1, 0, 0x1000, uh)
    return out + b''.join(sections)
'''

exec(BUILDERS)

# --------------------------------------------------------------------------
# API driver, run inside each copied tree
# --------------------------------------------------------------------------

DRIVER = BUILDERS + r'''
import sys, io, json, contextlib, importlib, os

RESULTS = []

def run(case_id, fn):
    so, se = io.StringIO(), io.StringIO()
    try:
        with contextlib.redirect_stdout(so), contextlib.redirect_stderr(se):
            r = fn()
        res = ['ok', repr(r)]
    except BaseException as e:
        res = ['exc', type(e).__name__, str(e)]
    RESULTS.append([case_id, res, so.getvalue(), se.getvalue()])

profile = sys.argv[2]
rnd = random.Random(20250)

from pel.hwdiags.parserdata import ParserData

HEX8 = ['20da0020', '20DA0020', '20Da0020', '160d2000', '0badc0de', '0BADC0DE',
        '11111111', 'abcdef01', 'ABCDEF01', '22222222', '23ABcdEf', '00000000',
        'ffffffff', 'some_string', '0123ABcdEf', '', '1234567', '123456789',
        '1234567g', ' 1234567', '12345678\n', '١٢٣٤٥٦٧٨', 'ＡＢＣＤＥＦ０１']
SIG_IDS = ['1234', 'ABCD', 'abcd', 'AbCd', '5555', 'aaaa', 'bbbb', 'cccc', 'dddd',
           'eeee', 'ffff', 'FFFF', '0000', '', '123', '12345', 'wxyz', '12 4']
REG_IDS = ['abcdef', 'ABCDEF', 'AbCdEf', '000001', '000002', '000003', '000004',
           '000005', '000006', '000007', '000008', '000009', '00000a', '00000A', '00000b', '999999', '', '12345', '1234567',
           'ghijkl']
INTS = [0, 1, 5, 68, 119, 255, 256, 65535, 65536, -1, 2**32, True, False, 3.0,
        3.7, 1e3]
ODD = [None, 5, b'20da0020', ['20da0020'], 3.5]

def parserdata_cases():
    try:
        p = ParserData()
    except BaseException as e:
        run('pd/ctor', lambda: ParserData())
        return
    run('pd/ctor', lambda: type(ParserData()).__name__)
    for m in HEX8 + ODD:
        run('pd/query/%r' % (m,), lambda: p.query_model_ec(m))
        for a in INTS + ['1', None, 'x']:
            run('pd/attn/%r/%r' % (m, a), lambda: p.get_attn_desc(m, a))
    for m in HEX8 + ODD[:2]:
        for n in INTS + [None, '1']:
            for c in (0, 0x2222, 65535, 65536, -1, 2.5, None, '7'):
                run('pd/chip/%r/%r/%r' % (m, n, c), lambda: p.get_chip_desc(m, n, c))
    for m in HEX8[:12] + ['zz'] + ODD[:1]:
        for s in SIG_IDS + ODD[:2]:
            for i in (0, 0x66, 255, 256, -1, None, 1.5):
                for b in (0, 1, 5, 119, 255, 256, -3, None, 2.0, '5'):
                    run('pd/sig/%r/%r/%r/%r' % (m, s, i, b), lambda: p.get_sig_desc(m, s, i, b))
    for m in HEX8[:12] + ['zz'] + ODD[:1]:
        for r in REG_IDS + ODD[:2]:
            for i in (0, 1, 2, 255, 256, -1, None, 1.0, '0'):
                run('pd/reg/%r/%r/%r' % (m, r, i), lambda: p.get_reg_data(m, r, i))
    words_b = ['22223344', '00000001', 'ffffff44', '0000', '', 'zzzzzzzz', '2222zz44',
               '222233zz', 'zzzz3344', '+1234567', '1234 5 6', '000_0001', None, '222233445']
    words_c = ['55556677', '12340005', 'ABCD0001', 'abcd0001', 'aaaa0000', 'bbbb0000',
               'cccc0000', 'dddd0000', 'eeee0000', 'ffff0000', '12340077', '', '5555',
               'zzzz6677', '5555zz77', '555566zz', '5555+1-1', None, '555566778']
    for a in HEX8[:14] + ['zz', None]:
        for b in words_b:
            for c in words_c:
                run('pd/signature/%r/%r/%r' % (a, b, c), lambda: p.get_signature(a, b, c))
    for _ in range(300):
        a = rnd.choice(HEX8[:11])
        b = '%08x' % rnd.getrandbits(32)
        c = rnd.choice(SIG_IDS[:11]) + '%04X' % rnd.getrandbits(16)
        run('pd/signature-rnd/%s/%s/%s' % (a, b, c), lambda: p.get_signature(a, b, c))

MODELS = ['20da0020', '160d2000', '0badc0de', '11111111', '22222222', 'deadbeef', '20DA0020']
RIDS = ['abcdef', '000001', '000002', '000003', '000004', '000005', '000006',
        '000007', '000008', '777777', '000009']

def ud_payloads():
    out = []
    good_sigs = [('20da0020', '00010203', '12340005'), ('160d2000', 'ffff0a01', 'abcd0001'),
                 ('deadbeef', '22223344', '55556677'), ('22222222', '00000000', '00000000')]
    out.append((1, sig_list(good_sigs)))
    out.append((1, sig_list([])))
    out.append((1, sig_list(good_sigs, count=2)))
    out.append((1, sig_list(good_sigs, count=9)))
    out.append((1, sig_list(good_sigs, count=0xFFFFFFFF)))
    out.append((1, sig_list(good_sigs) + b'trailing'))
    for bad in ('aaaa0000', 'bbbb0000', 'cccc0000', 'dddd0000', 'eeee0000', 'ffff0000'):
        out.append((1, sig_list(good_sigs[:1] + [('20da0020', '00010203', bad)])))
    out.append((1, sig_list([('0badc0de', '00000044', '12340000')])))
    out.append((1, sig_list([('11111111', '00000033', '12340000')])))
    for _ in range(40):
        n = rnd.randrange(0, 6)
        sigs = [(rnd.choice(MODELS), '%08x' % rnd.getrandbits(32),
                 rnd.choice(['1234', 'abcd', '5555', 'eeee', '%04x' % rnd.getrandbits(16)])
                 + '%04x' % rnd.getrandbits(16)) for _ in range(n)]
        out.append((1, sig_list(sigs)))

    regs = [('abcdef', 0, bytes(range(8)), None), ('abcdef', 1, b'\xde\xad\xbe\xef', None),
            ('000001', 0, b'\x01', None), ('777777', 3, bytes(range(13)), None),
            ('abcdef', 255, b'\xff' * 16, None), ('000006', 0, b'\x00\x01\x02', None),
            ('000007', 9, b'\xaa\xbb', None), ('000008', 0, b'\x12' * 5, None)]
    chips = [('20da0020', 0x0001, 0, regs, None), ('160d2000', 0xffff, 0xff, regs[:2], None),
             ('deadbeef', 7, 1, [], None), ('22222222', 2, 2, regs[2:4], None)]
    out.append((2, reg_dump(chips)))
    out.append((2, reg_dump([])))
    out.append((2, reg_dump(chips, count=1)))
    out.append((2, reg_dump(chips, count=7)))
    out.append((2, reg_dump(chips[:1], count=0xFFFFFFFF)))
    out.append((2, reg_dump(chips) + b'\0\0\0'))
    out.append((2, reg_dump([('20da0020', 1, 1, regs[:3], 2)])))
    out.append((2, reg_dump([('20da0020', 1, 1, regs[:3], 5)])))
    out.append((2, reg_dump([('20da0020', 1, 1, [('abcdef', 0, b'', None)], None)])))
    out.append((2, reg_dump([('20da0020', 1, 1, [('abcdef', 0, b'\x01\x02', 9)], None)])))
    out.append((2, reg_dump([('20da0020', 1, 1, [('abcdef', 0, b'\x01' * 255, None)], None)])))
    for bad in ('000002', '000003', '000004', '000005', '000009', '00000a', '00000b'):
        out.append((2, reg_dump([('20da0020', 1, 1, regs[:1] + [(bad, 0, b'\x01\x02', None)], None)])))
    out.append((2, reg_dump([('0badc0de', 1, 1, regs[:1], None)])))
    out.append((2, reg_dump([('11111111', 1, 1, regs[:1], None)])))
    for _ in range(40):
        cs = []
        for _c in range(rnd.randrange(0, 4)):
            rs = [(rnd.choice(RIDS[:2] + RIDS[5:]), rnd.choice([0, 1, 2, 255]),
                   bytes(rnd.getrandbits(8) for _b in range(rnd.randrange(1, 20))), None)
                  for _r in range(rnd.randrange(0, 5))]
            cs.append((rnd.choice(MODELS[:2] + MODELS[4:]), rnd.getrandbits(16), rnd.getrandbits(8), rs, None))
        out.append((2, reg_dump(cs)))

    for txt in (b'{"Callout List": [{"Priority": "H"}]}\0', b'[1, 2, 3]\0\0\0\0', b'null\0', b'"s"',
                b'{"a": 1', b'', b'\0', b'\0{"a":1}\0', b'{"a": "\xc3\xa9"}\0', b'{"a": "\xff"}\0',
                b'  {"b": [true, false, null]}  \0', b'{"a": 1}\0x', b'12.5e3\0', b'NaN\0',
                b'{"dup": 1, "dup": 2}\0'):
        out.append((3, txt))
    out.append((4, bytes(range(24))))
    out.append((4, bytes(range(24)) + b'extra'))
    out.append((4, b'\xaa' * 24))
    out.append((4, b'\0' * 24))
    out.append((5, bytes.fromhex('20da002012345678')))
    out.append((5, bytes.fromhex('20da002012345678ffff')))
    for _ in range(10):
        out.append((4, bytes(rnd.getrandbits(8) for _b in range(24))))
        out.append((5, bytes(rnd.getrandbits(8) for _b in range(8))))
    return out

def ud_cases():
    from udparsers.oe500 import oe500 as ud
    payloads = ud_payloads()
    n = 0
    for sub, data in payloads:
        n += 1
        for ver in (1, 0):
            run('ud/%d/full/%d/v%d' % (n, sub, ver),
                lambda: ud.parseUDToJson(sub, ver, memoryview(data)))
        # every truncation of the smaller payloads, a sample for the big ones
        if len(data) <= 80:
            cuts = range(0, len(data))
        else:
            cuts = sorted(set(rnd.randrange(0, len(data)) for _ in range(30)) | set(range(0, 24)))
        for cut in cuts:
            run('ud/%d/cut%d' % (n, cut), lambda: ud.parseUDToJson(sub, 1, memoryview(data[:cut])))
        # corruption
        for k in range(6):
            if not data:
                break
            b = bytearray(data)
            for _f in range(rnd.randrange(1, 4)):
                b[rnd.randrange(0, len(b))] = rnd.getrandbits(8)
            run('ud/%d/corrupt%d' % (n, k), lambda: ud.parseUDToJson(sub, 1, memoryview(bytes(b))))
    for sub in (0, 6, 7, 255, -1, 1.0, 2.0, True, None, '1', [1], {}, (1,), 2**70):
        for data in (b'', b'\0\0\0\0', bytes(range(40))):
            run('ud/subtype/%r/%d' % (sub, len(data)), lambda: ud.parseUDToJson(sub, 1, memoryview(data)))
    # bytes / bytearray instead of memoryview for the parsers that accept them
    for sub in (1, 2, 3, 4, 5):
        for data in (sig_list([('20da0020', '00010203', '12340005')]), b'{"a": 1}\0', bytes(range(30))):
            run('ud/bytes/%d/%d' % (sub, len(data)), lambda: ud.parseUDToJson(sub, 1, data))
            run('ud/bytearray/%d/%d' % (sub, len(data)), lambda: ud.parseUDToJson(sub, 1, bytearray(data)))
    for _ in range(150):
        sub = rnd.randrange(1, 6)
        data = bytes(rnd.getrandbits(8) for _b in range(rnd.randrange(0, 64)))
        if rnd.random() < 0.5:
            data = struct.pack('>I', rnd.randrange(0, 4)) + data
        run('ud/rnd/%d/%s' % (sub, data.hex()), lambda: ud.parseUDToJson(sub, 1, memoryview(data)))

def cache_state(d):
    return sorted((k, None if v is None else getattr(v, '__name__', '?')) for k, v in d.items())

REFCODES = ['BD13E510', 'BD13E511', 'BD13e510', 'BD13E5', 'BD13E51', 'BD8DAA00', 'BD8DBB00',
            'BD8DCC00', 'BD8DDD00', 'BD8DEE00', 'BD8DFF00', 'BD8D1100', 'BD8D2200', 'BD8D9900',
            'BC8A1234', 'BCEX1234', 'BCMN1234', 'BCKI1234', 'BCNJ1234', 'BCNU1234', 'BCEM1234',
            'bc8a1234', 'B', '', 'BD', 'BD8D', 'BD8D..00', 'BD8D/x00', '11001100', 'BD8D\x0000',
            'BD13E510                        ', 'BC8A1234                        ',
            'BD8DÉÉ00', 'BD8Daa00', 'BD8DAa00']
WORDSETS = [
    ('00000000',) * 8,
    ('000000E0', '00000000', '00000000', '00000000', '20DA0020', '00010203', '12340005', '00000000'),
    ('000000E0', '00000000', '00000000', '00000000', '160D2000', 'FFFF0A01', 'ABCD0001', '00000000'),
    ('000000E0', '00000000', '00000000', '00000000', 'DEADBEEF', '22223344', '55556677', '00000000'),
    ('000000E0', '00000000', '00000000', '00000000', '20DA0020', '00010203', 'BBBB0005', '00000000'),
    ('000000E0', '00000000', '00000000', '00000000', '0BADC0DE', '00010203', '12340005', '00000000'),
    ('000000E0', '00000000', '00000000', '00000000', 'XYZ', '', '1234', '00000000'),
]

def srcparser_cases():
    from srcparsers.oe500 import oe500 as se
    from srcparsers.osrc import osrc
    run('osrc/cache0', lambda: cache_state(osrc.osrcParsers))
    for rc in REFCODES + [None, 5, b'BD13E510']:
        for wi, w in enumerate(WORDSETS):
            run('srcoe500/%r/%d' % (rc, wi), lambda: se.parseSRCToJson(rc, *w))
    n = 0
    for rounds in range(3):
        for rc in REFCODES:
            for wi, w in enumerate(WORDSETS if rounds == 0 else WORDSETS[1:3]):
                n += 1
                run('osrc/%d/%r/%d' % (n, rc, wi), lambda: osrc.parseSRCToJson(rc, *w))
                run('osrc/%d/cache' % n, lambda: cache_state(osrc.osrcParsers))
    for rc in (None, 5, b'BD13E510', ['BD', '13', 'E5', '10']):
        run('osrc/odd/%r' % (rc,), lambda: osrc.parseSRCToJson(rc, *WORDSETS[1]))
        run('osrc/odd/%r/cache' % (rc,), lambda: cache_state(osrc.osrcParsers))
    # pre-seeded cache entries are honoured
    osrc.osrcParsers['srcparsers.o1100.o1100'] = None
    run('osrc/seeded-none', lambda: osrc.parseSRCToJson('BD8D1100', *WORDSETS[0]))
    osrc.osrcParsers['srcparsers.o9900.o9900'] = se
    run('osrc/seeded-mod', lambda: osrc.parseSRCToJson('BD8D9910', *WORDSETS[1]))
    run('osrc/final-cache', lambda: cache_state(osrc.osrcParsers))
    for rnd_i in range(120):
        rc = ''.join(rnd.choice('BCD1E5A0F92bx. ') for _ in range(rnd.randrange(0, 10)))
        w = tuple('%08X' % rnd.getrandbits(32) for _ in range(8))
        if rnd.random() < 0.5:
            w = w[:4] + (rnd.choice(['20DA0020', '160D2000', '22222222']),) + w[5:]
        run('osrc/rnd%d/%r' % (rnd_i, rc), lambda: osrc.parseSRCToJson(rc, *w))
    run('osrc/rnd-cache', lambda: cache_state(osrc.osrcParsers))

def src_cases():
    from pel.peltool import src as S
    from pel.peltool.config import Config
    from pel.datastream import DataStream
    from collections import OrderedDict

    def mk(creator, body=b''):
        st = DataStream(bytes(body), byte_order='big', is_signed=False)
        return S.SRC(st, 0x5053, 8 + len(body), 1, 1, 0xE500, creator)

    def state():
        return cache_state(S.srcParsers), cache_state(S.calloutParsers)

    cfg_on, cfg_off = Config(), Config()
    cfg_off.allow_plugins = False

    n = 0
    creators = ['O', 'B', 'H', 'X', 'Y', 'W', 'V', 'Q', 'o', 'É', '', 'OO', '.', 'T']
    for rounds in range(2):
        for cr in creators:
            for rc in ('BD13E510', 'BC8A1234', 'BCEX1234', 'BCKI1234', 'BCSE1234', 'BD8DAA00',
                       'BD8DCC00', 'BD8DDD00', 'BD8DBB00', 'BD13E510   \n '):
                n += 1
                def direct():
                    s = mk(cr)
                    s.asciiString = rc
                    return s.parse(list(WORDSETS[1]))
                run('src/parse/%d/%r/%r' % (n, cr, rc), direct)
                run('src/parse/%d/state' % n, state)
    for hw in ([], ['1'] * 7, ['00000000'] * 8, ['00000000'] * 9, list(WORDSETS[2]) + ['x', 'y'],
               tuple(WORDSETS[1]), None, 'ABCDEFGH', [None] * 8, [1, 2, 3, 4, 5, 6, 7, 8]):
        for cr in ('O', 'W', 'Q', 'H'):
            def direct():
                s = mk(cr)
                s.asciiString = 'BD13E510'
                return s.parse(hw)
            run('src/parse-hw/%r/%r' % (cr, hw), direct)
    run('src/state-after-parse', state)

    procs = ['BMC0001', 'BMC0008', 'BMC9999', '', 'KI', 'NULL', 'NONE', 'x' * 40, None, 5]
    for rounds in range(2):
        for cr in ['O', 'B', 'H', 'X', 'Y', 'Z', 'W', 'Q', 'o', '', '..', 'É']:
            for pr in procs:
                n += 1
                def direct():
                    s = mk(cr)
                    out = OrderedDict([('Procedure', pr)])
                    r = s.getProcedureDesc(pr, out)
                    return r, out
                run('src/proc/%d/%r/%r' % (n, cr, pr), direct)
                run('src/proc/%d/state' % n, state)
    # seeded caches
    S.calloutParsers['calloutparsers.scallouts.scallouts'] = None
    S.srcParsers['srcparsers.ssrc.ssrc'] = None
    import calloutparsers.ocallouts.ocallouts as oc
    import srcparsers.wsrc.wsrc as ws
    S.calloutParsers['calloutparsers.tcallouts.tcallouts'] = oc
    S.srcParsers['srcparsers.tsrc.tsrc'] = ws
    for cr in ('S', 'T'):
        def direct():
            s = mk(cr)
            s.asciiString = 'BD13E510'
            out = OrderedDict()
            return s.parse(list(WORDSETS[1])), s.getProcedureDesc('BMC0002', out), out
        run('src/seeded/' + cr, direct)
    run('src/state-seeded', state)

    # full toJSON over section bodies
    cos_variants = [
        b'',
        callouts([callout([fru(0x2A, pn=b'BMC0001')])]),
        callouts([callout([fru(0x2A, pn=b'BMC0003')]), callout([fru(0x1D)], prio=0x4D),
                  callout([fru(0x22, pn=b'BMC9999'), pce(), mru([(0x48, 0x10001), (0x4C, 0x20002)])], prio=0x4C)]),
        callouts([callout([fru(0x22, pn=b'NULL')]), callout([fru(0x22, pn=b'NONE')]),
                  callout([fru(0x22, pn=b'OTHER')], loc=b'')]),
        callouts([callout([fru(0x2A, pn=b'BMC0001')])], wordlen=40),
        callouts([callout([fru(0x2A, pn=b'BMC0001')], size=90)]),
        callouts([callout([pce(size=10)])]),
        callouts([callout([fru(0x22, pn=b'KI')])]),
    ]
    bodies = []
    for cr in ('O', 'B', 'H', 'X', 'Y', 'Z', 'W', 'Q'):
        for rc, w in (('BD13E510', (0xE0, 0, 0, 0, 0x20DA0020, 0x00010203, 0x12340005, 0)),
                      ('BD13E520', (0xE0, 0, 0, 0x23000000, 0x160D2000, 0xFFFF0A01, 0xABCD0001, 0)),
                      ('BD13E510', (0xE0, 0, 0, 0, 0x20DA0020, 0x00010203, 0xBBBB0005, 0)),
                      ('BC8A1234', (1, 2, 3, 4, 5, 6, 7, 8)),
                      ('BCEX1234', (1, 2, 3, 4, 5, 6, 7, 8)),
                      ('BCNJ1234', (1, 2, 3, 4, 5, 6, 7, 8)),
                      ('BD8DDD00', (1, 2, 3, 4, 5, 6, 7, 8)),
                      ('BD8D1100', (1, 2, 3, 4, 5, 6, 7, 8)),
                      ('11002200', (1, 2, 3, 4, 5, 6, 7, 8))):
            for ci, cos in enumerate(cos_variants):
                if ci >= 2 and rc not in ('BD13E510', 'BC8A1234'):
                    continue
                for wc in ((9,) if ci else (9, 5, 1, 0, 12)):
                    bodies.append((cr, rc, ci, wc, src_body(rc, w, wordcount=wc, cos=cos)))
    for cr, rc, ci, wc, body in bodies:
        for cfg_name, cfg in (('on', cfg_on), ('off', cfg_off)):
            n += 1
            run('src/json/%d/%r/%s/co%d/wc%d/%s' % (n, cr, rc, ci, wc, cfg_name),
                lambda: json.dumps(mk(cr, body).toJSON(cfg)))
            run('src/json/%d/state' % n, state)
    # truncations / corruption of one rich body
    rich = src_body('BD13E510', (0xE0, 0, 0, 0, 0x20DA0020, 0x00010203, 0x12340005, 0), cos=cos_variants[2])
    for cut in range(0, len(rich), 3):
        run('src/json/cut%d' % cut, lambda: json.dumps(mk('O', rich[:cut]).toJSON(cfg_on)))
    for k in range(120):
        b = bytearray(rich)
        for _f in range(rnd.randrange(1, 4)):
            b[rnd.randrange(0, len(b))] = rnd.getrandbits(8)
        cr = rnd.choice(['O', 'O', 'B', 'W', 'H'])
        run('src/json/corrupt%d' % k, lambda: json.dumps(mk(cr, bytes(b)).toJSON(cfg_on)))
    run('src/state-final', state)
    # rebinding the module level caches starts from scratch
    S.srcParsers = {}
    S.calloutParsers = {}
    for cr in ('O', 'X', 'W', 'Q'):
        def direct():
            s = mk(cr)
            s.asciiString = 'BD13E510'
            out = OrderedDict()
            return s.parse(list(WORDSETS[1])), s.getProcedureDesc('BMC0002', out), out
        run('src/rebound/' + cr, direct)
        run('src/rebound/' + cr + '/state', state)

groups = sys.argv[3].split(',')
if 'pd' in groups:
    parserdata_cases()
if 'ud' in groups:
    ud_cases()
if 'sp' in groups:
    srcparser_cases()
if 'src' in groups:
    src_cases()

with open(sys.argv[1], 'w') as fp:
    json.dump(RESULTS, fp)
'''


def run_driver(tree, profile, groups, opt):
    out_file = os.path.join(tree, 'driver_out_%s_%s_%d.json' % (profile, groups.replace(',', '_'), opt))
    drv = os.path.join(tree, 'driver.py')
    with open(drv, 'w') as fp:
        fp.write(DRIVER)
    env = dict(os.environ, PYTHONPATH=os.path.join(tree, 'modules'), PYTHONHASHSEED='0',
               PYTHONDONTWRITEBYTECODE='1')
    cmd = [PY] + (['-O'] if opt else []) + [drv, out_file, profile, groups]
    p = subprocess.run(cmd, cwd=tree, env=env, capture_output=True, timeout=3600)
    results = None
    if os.path.exists(out_file):
        with open(out_file) as fp:
            results = json.load(fp)
    return {'rc': p.returncode, 'stdout': p.stdout.decode('utf8', 'replace').replace(tree, '<T>'),
            'stderr': p.stderr.decode('utf8', 'replace').replace(tree, '<T>'), 'results': results}


# --------------------------------------------------------------------------
# CLI cases
# --------------------------------------------------------------------------

def build_pels():
    rnd = random.Random(77)
    good_sigs = [('20da0020', '00010203', '12340005'), ('160d2000', 'ffff0a01', 'abcd0001'),
                 ('deadbeef', '22223344', '55556677')]
    regs = [('abcdef', 0, bytes(range(8)), None), ('000001', 0, b'\x01', None),
            ('777777', 3, bytes(range(13)), None)]
    chips = [('20da0020', 1, 0, regs, None), ('160d2000', 0xffff, 0xff, regs[:2], None)]
    w_e5 = (0xE0, 0, 0, 0, 0x20DA0020, 0x00010203, 0x12340005, 0)
    cos = callouts([callout([fru(0x2A, pn=b'BMC0001')]),
                    callout([fru(0x22, pn=b'BMC0004'), pce(), mru([(0x48, 0x10001)])], prio=0x4C)])

    def uds(comp=0xE500):
        return [section(b'UD', 1, 1, comp, sig_list(good_sigs)),
                section(b'UD', 1, 2, comp, reg_dump(chips)),
                section(b'UD', 1, 3, comp, b'{"Callout List": [{"Priority": "H"}]}\0\0\0'),
                section(b'UD', 1, 4, comp, bytes(range(24))),
                section(b'UD', 1, 5, comp, bytes.fromhex('20da002012345678')),
                section(b'UD', 1, 9, comp, b'unsupported')]

    pels = {}
    pels['good_e5'] = pel('O', [section(b'PS', 1, 1, 0xE500, src_body('BD13E510', w_e5, cos=cos))] + uds())
    pels['second_e5'] = pel('O', [section(b'PS', 1, 1, 0xE500, src_body('BD13E511', w_e5))] + uds()[:2],
                            eid=0x50000002)
    pels['hb_ti'] = pel('O', [section(b'PS', 1, 1, 0x1000, src_body('BC8A1234', (1, 2, 3, 4, 5, 6, 7, 8)))],
                        eid=0x50000003)
    pels['hb_ex'] = pel('O', [section(b'PS', 1, 1, 0x1000, src_body('BCEX1234', (1, 2, 3, 4, 5, 6, 7, 8)))],
                        eid=0x50000004)
    pels['hb_nj'] = pel('O', [section(b'PS', 1, 1, 0x1000, src_body('BCNJ1234', (1, 2, 3, 4, 5, 6, 7, 8)))],
                        eid=0x50000005)
    pels['comp_aa'] = pel('O', [section(b'PS', 1, 1, 0x1000, src_body('BD8DAA00', w_e5, cos=cos))],
                          eid=0x50000006)
    pels['comp_bb'] = pel('O', [section(b'PS', 1, 1, 0x1000, src_body('BD8DBB00', w_e5))], eid=0x50000007)
    pels['comp_cc'] = pel('O', [section(b'PS', 1, 1, 0x1000, src_body('BD8DCC00', w_e5)),
                                section(b'SS', 1, 1, 0x1000, src_body('BD8DCC01', w_e5))], eid=0x50000008)
    pels['creator_b'] = pel('B', [section(b'PS', 1, 1, 0x0100, src_body('BC8A1234', (1, 2, 3, 4, 5, 6, 7, 8), cos=cos))],
                            eid=0x50000009)
    pels['creator_h'] = pel('H', [section(b'PS', 1, 1, 0x0100, src_body('B7001111', (1, 2, 3, 4, 5, 6, 7, 8), cos=cos))],
                            eid=0x5000000A)
    pels['creator_x'] = pel('X', [section(b'PS', 1, 1, 0x0100, src_body('B7001111', (1, 2, 3, 4, 5, 6, 7, 8), cos=cos))],
                            eid=0x5000000B)
    pels['creator_w'] = pel('W', [section(b'PS', 1, 1, 0x0100, src_body('B7001111', (1, 2, 3, 4, 5, 6, 7, 8), cos=cos))],
                            eid=0x5000000C)
    pels['bad_sig'] = pel('O', [section(b'PS', 1, 1, 0xE500, src_body('BD13E510', (0xE0, 0, 0, 0, 0x20DA0020, 0x10203, 0xBBBB0005, 0))),
                                section(b'UD', 1, 1, 0xE500, sig_list(good_sigs, count=7)),
                                section(b'UD', 1, 2, 0xE500, reg_dump(chips, count=3)),
                                section(b'UD', 1, 3, 0xE500, b'{"broken": '),
                                section(b'UD', 1, 4, 0xE500, bytes(range(10))),
                                section(b'UD', 1, 5, 0xE500, b'\x01\x02\x03'),
                                section(b'ED', 1, 1, 0xE500, sig_list(good_sigs))], eid=0x5000000D)
    base = pels['good_e5']
    for cut in (40, 100, 160, 200, 260, len(base) - 30, len(base) - 5):
        pels['trunc_%d' % cut] = base[:cut]
    for k in range(12):
        b = bytearray(base)
        for _ in range(rnd.randrange(1, 5)):
            b[rnd.randrange(72, len(b))] = rnd.getrandbits(8)
        pels['corrupt_%d' % k] = bytes(b)
    pels['random'] = bytes(rnd.getrandbits(8) for _ in range(300))
    pels['empty'] = b''
    return pels


def snapshot_dir(d):
    out = {}
    for root, _dirs, files in os.walk(d):
        for f in sorted(files):
            p = os.path.join(root, f)
            with open(p, 'rb') as fp:
                out[os.path.relpath(p, d)] = fp.read().hex()
    return out


def run_cli(tree, name, args, pel_files, opt=False, use_dir=True):
    work = os.path.join(tree, 'cli_' + name)
    pdir = os.path.join(work, 'pels')
    odir = os.path.join(work, 'out')
    os.makedirs(pdir)
    os.makedirs(odir)
    for fname, data in pel_files:
        with open(os.path.join(pdir, fname), 'wb') as fp:
            fp.write(data)
    env = dict(os.environ, PYTHONPATH=os.path.join(tree, 'modules'), PYTHONHASHSEED='0',
               PYTHONDONTWRITEBYTECODE='1')
    args = [a.replace('@P', pdir).replace('@O', odir) for a in args]
    cmd = [PY] + (['-O'] if opt else []) + [os.path.join(tree, 'modules', 'pel', 'peltool', 'peltool.py')] + args
    p = subprocess.run(cmd, cwd=work, env=env, capture_output=True, timeout=600)
    return {'rc': p.returncode,
            'stdout': p.stdout.decode('utf8', 'replace').replace(tree, '<T>'),
            'stderr': p.stderr.decode('utf8', 'replace').replace(tree, '<T>'),
            'files': snapshot_dir(work)}


def cli_cases(pels):
    cases = []
    singles = sorted(pels)
    for nm in singles:
        cases.append(('f_' + nm, ['-f', '@P/' + nm], [(nm, pels[nm])], False))
    for nm in ('good_e5', 'hb_ti', 'hb_ex', 'comp_aa', 'comp_cc', 'creator_b', 'creator_x', 'bad_sig',
               'trunc_200', 'corrupt_3'):
        cases.append(('fP_' + nm, ['-f', '@P/' + nm, '-P'], [(nm, pels[nm])], False))
        cases.append(('fO_' + nm, ['-f', '@P/' + nm], [(nm, pels[nm])], True))
        cases.append(('fx_' + nm, ['-f', '@P/' + nm, '-x'], [(nm, pels[nm])], False))
    cases.append(('fc_good', ['-f', '@P/good_e5', '-c'], [('good_e5', pels['good_e5'])], False))
    allf = [(nm, pels[nm]) for nm in singles]
    for label, extra in (('a', ['-a']), ('aE', ['-a', '-E']), ('aP', ['-a', '-P']), ('ar', ['-a', '-r']),
                         ('l', ['-l']), ('lE', ['-l', '-E']), ('n', ['-n']), ('nE', ['-n', '-E']),
                         ('j', ['-j', '-o', '@O']), ('jc', ['-j', '-o', '@O', '-c']),
                         ('jP', ['-j', '-P']),
                         ('id', ['-i', '50000001']), ('bmcid', ['--bmc-id', '77']),
                         ('src', ['--src', 'BD13E5']), ('plid', ['--plid', '0x50000003'])):
        cases.append(('dir_' + label, ['-p', '@P'] + extra, allf, False))
    cases.append(('dirO_a', ['-p', '@P', '-a'], allf, True))
    cases.append(('dirO_j', ['-p', '@P', '-j', '-o', '@O'], allf, True))
    return cases


# --------------------------------------------------------------------------

def main():
    if len(sys.argv) != 3:
        print(__doc__)
        return 2
    pristine, patched = os.path.abspath(sys.argv[1]), os.path.abspath(sys.argv[2])
    base = tempfile.mkdtemp(prefix='dc_', dir=os.path.dirname(os.path.abspath(__file__)))
    total = 0
    diffs = []
    try:
        pels = build_pels()
        for profile, groups_list, opts in (
                ('main', ['pd', 'ud', 'sp', 'src'], (0, 1)),
                ('empty', ['pd', 'ud,sp', 'src'], (0, 1)),
                ('broken', ['pd,ud,sp,src'], (0,))):
            trees = {}
            for side, root in (('a', pristine), ('b', patched)):
                t = os.path.join(base, profile + '_' + side)
                os.makedirs(t)
                make_tree(root, t, profile)
                trees[side] = t
            for groups in groups_list:
                for opt in opts:
                    ra = run_driver(trees['a'], profile, groups, opt)
                    rb = run_driver(trees['b'], profile, groups, opt)
                    label = 'driver[%s,%s,O=%d]' % (profile, groups, opt)
                    if ra['results'] is None or rb['results'] is None:
                        diffs.append((label, 'driver crashed', ra['stderr'][-2000:], rb['stderr'][-2000:]))
                        total += 1
                        continue
                    for k in ('rc', 'stdout', 'stderr'):
                        if ra[k] != rb[k]:
                            diffs.append((label + '/' + k, ra[k], rb[k]))
                    if len(ra['results']) != len(rb['results']):
                        diffs.append((label, 'case count', len(ra['results']), len(rb['results'])))
                    for ca, cb in zip(ra['results'], rb['results']):
                        total += 1
                        if ca != cb:
                            diffs.append((label, ca, cb))
            if profile == 'broken':
                cl = [c for c in cli_cases(pels) if c[0] in ('f_good_e5', 'f_bad_sig', 'dir_a', 'dir_j')]
            elif profile == 'empty':
                cl = [c for c in cli_cases(pels) if c[0].startswith('f_') or c[0] in ('dir_a', 'dirO_a')]
            else:
                cl = cli_cases(pels)
            for name, args, files, opt in cl:
                ra = run_cli(trees['a'], name, args, files, opt)
                rb = run_cli(trees['b'], name, args, files, opt)
                total += 1
                if ra != rb:
                    for k in ra:
                        if ra[k] != rb[k]:
                            diffs.append(('cli[%s]/%s/%s' % (profile, name, k), ra[k], rb[k]))
    finally:
        shutil.rmtree(base, ignore_errors=True)

    if diffs:
        print("DIFFERENT: %d differences in %d cases" % (len(diffs), total))
        for d in diffs[:25]:
            print('-' * 70)
            for part in d:
                s = part if isinstance(part, str) else repr(part)
                print(s[:1500])
        return 1
    print("IDENTICAL (%d cases)" % total)
    return 0


if __name__ == '__main__':
    sys.exit(main())
