"""E8 line-language automata: an NFA for the lines json.dumps(indent=N) can emit
(with a marker at the position just after a key's closing '":'), regexes
compiled from re._parser ASTs into position-predicate NFAs, and a product
search for a shortest witness line on which a matcher's split point is not the
key end.  Symbols are representative characters: one for every cell of the
partition induced by the grammar's special characters and the matcher's own
character sets."""
import re._parser as rp
import re._constants as rc
from collections import deque

from .core import AnalysisError


# ---------------------------------------------------------------- regex -> NFA
class Nfa:
    def __init__(self):
        self.n = 0
        self.eps = {}          # state -> set(states)
        self.edges = {}        # state -> [(pred, state)]
        self.start = self.new()
        self.accept = None

    def new(self):
        s = self.n
        self.n += 1
        self.eps[s] = set()
        self.edges[s] = []
        return s

    def closure(self, states):
        out = set(states)
        st = list(states)
        while st:
            x = st.pop()
            for y in self.eps[x]:
                if y not in out:
                    out.add(y)
                    st.append(y)
        return frozenset(out)

    def step(self, states, ch):
        nxt = set()
        for s in states:
            for pred, t in self.edges[s]:
                if pred(ch):
                    nxt.add(t)
        return self.closure(nxt)


def _category(cat):
    name = str(cat)
    base = {
        "CATEGORY_DIGIT": lambda c: c.isdigit(),
        "CATEGORY_SPACE": lambda c: c.isspace(),
        "CATEGORY_WORD": lambda c: c.isalnum() or c == "_",
    }
    for k, f in base.items():
        if name.endswith(k) and "NOT" not in name:
            return f
        if name.endswith(k.replace("CATEGORY_", "CATEGORY_NOT_")):
            return lambda c, f=f: not f(c)
    raise AnalysisError("regex category %s not modelled" % name)


def _in_pred(items, flags):
    neg = False
    preds = []
    for op, av in items:
        if op == rc.NEGATE:
            neg = True
        elif op == rc.LITERAL:
            preds.append(lambda c, v=av: ord(c) == v)
        elif op == rc.RANGE:
            preds.append(lambda c, lo=av[0], hi=av[1]: lo <= ord(c) <= hi)
        elif op == rc.CATEGORY:
            preds.append(_category(av))
        else:
            raise AnalysisError("regex set item %s not modelled" % op)
    if neg:
        return lambda c: not any(p(c) for p in preds)
    return lambda c: any(p(c) for p in preds)


def regex_nfa(pattern, flags=0):
    """NFA accepting exactly the strings the pattern can match from the start of the line (re.match semantics:
    every accepted prefix is a possible match end, whichever one backtracking picks)"""
    if flags & ~0:
        pass
    try:
        tree = rp.parse(pattern, flags)
    except Exception as e:
        raise AnalysisError("cannot parse regex %r: %s" % (pattern, e))
    nfa = Nfa()
    atoms = []

    def build(seq, s):
        for op, av in seq:
            if op == rc.LITERAL:
                t = nfa.new()
                p = lambda c, v=av: ord(c) == v
                nfa.edges[s].append((p, t))
                atoms.append(p)
                s = t
            elif op == rc.NOT_LITERAL:
                t = nfa.new()
                p = lambda c, v=av: ord(c) != v
                nfa.edges[s].append((p, t))
                atoms.append(p)
                s = t
            elif op == rc.ANY:
                t = nfa.new()
                p = lambda c: c != "\n"
                nfa.edges[s].append((p, t))
                atoms.append(p)
                s = t
            elif op == rc.IN:
                t = nfa.new()
                p = _in_pred(av, flags)
                nfa.edges[s].append((p, t))
                atoms.append(p)
                s = t
            elif op == rc.SUBPATTERN:
                s = build(av[3], s)
            elif op == rc.BRANCH:
                end = nfa.new()
                for alt in av[1]:
                    a0 = nfa.new()
                    nfa.eps[s].add(a0)
                    a1 = build(alt, a0)
                    nfa.eps[a1].add(end)
                s = end
            elif op in (rc.MAX_REPEAT, rc.MIN_REPEAT, getattr(rc, "POSSESSIVE_REPEAT", None)):
                lo, hi, body = av
                for _ in range(lo):
                    s = build(body, s)
                if hi == rc.MAXREPEAT:
                    loop = nfa.new()
                    nfa.eps[s].add(loop)
                    e = build(body, loop)
                    nfa.eps[e].add(loop)
                    s = loop
                else:
                    if hi - lo > 16:
                        raise AnalysisError("bounded repeat too large to unroll")
                    end = nfa.new()
                    nfa.eps[s].add(end)
                    for _ in range(hi - lo):
                        s = build(body, s)
                        nfa.eps[s].add(end)
                    s = end
            elif op == rc.AT:
                if av in (rc.AT_BEGINNING, rc.AT_BEGINNING_STRING):
                    continue          # match() is anchored anyway
                raise AnalysisError("regex anchor %s not modelled" % av)
            else:
                raise AnalysisError("regex construct %s not modelled" % op)
        return s
    end = build(tree, nfa.start)
    nfa.accept = end
    nfa.atoms = atoms
    return nfa


def literal_first_nfa(lit):
    """matcher for `lit in line` / line.index(lit): deterministic 'first occurrence' - the split candidate is the end of
    the FIRST occurrence only.  Returned as a KMP automaton."""
    class Kmp:
        pass
    k = Kmp()
    k.lit = lit
    fail = [0] * (len(lit) + 1)
    for i in range(1, len(lit)):
        j = fail[i]
        while j and lit[i] != lit[j]:
            j = fail[j]
        fail[i + 1] = j + 1 if lit[i] == lit[j] else 0
    k.fail = fail

    def step(state, ch):
        while state and (state == len(lit) or lit[state] != ch):
            state = fail[state]
        if state < len(lit) and lit[state] == ch:
            state += 1
        return state
    k.step = step
    k.atoms = [lambda c, x=x: c == x for x in set(lit)]
    return k


# ------------------------------------------------------------- line grammar
SPECIALS = ['"', "\\", ":", "{", "}", "[", "]", ",", " "]


def alphabet(atom_preds, extra=""):
    pool = [chr(c) for c in range(32, 127)] + list("\té 中\x7f ") + list(extra)
    cells = {}
    for ch in pool:
        sig = (ch if ch in SPECIALS else None, tuple(bool(p(ch)) for p in atom_preds),
               ch.isdigit(), ch.isalpha())
        cells.setdefault(sig, ch)
    return sorted(cells.values())


def line_automaton(ascii_only=True):
    """NFA over characters for one line of json.dumps(obj, indent=4) output.
    Transitions: (state, predicate-name) -> state; the marker KEYEND is an epsilon transition flagged in `marks`."""
    # states are small ints; edges: list of (from, kind, to) with kind in {'sp','q','bs','colon','comma','lb','rb','lc','rc','strchar','esc','scalar','eps','KEYEND'}
    E = []
    S = {"start": 0, "key_open": 1, "key_body": 2, "key_esc": 3, "key_close": 4, "key_colon": 5, "after_sp": 6,
         "val_str": 7, "val_str_esc": 8, "val_str_end": 9, "val_scalar": 10, "val_open": 11, "val_empty": 12, "end": 13,
         "el_str": 14, "el_str_esc": 15, "closer": 16, "marked": 17}
    add = lambda a, k, b: E.append((S[a], k, S[b]))
    add("start", "sp", "start")
    # key line
    add("start", "q", "key_body")
    add("key_body", "strchar", "key_body")
    add("key_body", "bs", "key_esc")
    add("key_esc", "esc", "key_body")
    add("key_body", "q", "key_close")
    add("key_close", "colon", "key_colon")
    add("key_colon", "KEYEND", "marked")
    add("marked", "sp", "after_sp")
    # values
    add("after_sp", "q", "val_str")
    add("val_str", "strchar", "val_str")
    add("val_str", "bs", "val_str_esc")
    add("val_str_esc", "esc", "val_str")
    add("val_str", "q", "val_str_end")
    add("val_str_end", "comma", "end")
    add("val_str_end", "eps", "end")
    add("after_sp", "scalar", "val_scalar")
    add("val_scalar", "scalar", "val_scalar")
    add("val_scalar", "comma", "end")
    add("val_scalar", "eps", "end")
    add("after_sp", "lc", "val_open")
    add("after_sp", "lb", "val_open")
    add("val_open", "eps", "end")
    add("val_open", "rc", "val_empty")
    add("val_open", "rb", "val_empty")
    add("val_empty", "comma", "end")
    add("val_empty", "eps", "end")
    # element lines: same value forms directly after the indent
    add("start", "q", "el_str")
    add("el_str", "strchar", "el_str")
    add("el_str", "bs", "el_str_esc")
    add("el_str_esc", "esc", "el_str")
    add("el_str", "q", "val_str_end")
    add("start", "scalar", "val_scalar")
    add("start", "lc", "val_open")
    add("start", "lb", "val_open")
    add("start", "rc", "closer")
    add("start", "rb", "closer")
    add("closer", "comma", "end")
    add("closer", "eps", "end")
    kinds = {
        "sp": lambda c: c == " ",
        "q": lambda c: c == '"',
        "bs": lambda c: c == "\\",
        "colon": lambda c: c == ":",
        "comma": lambda c: c == ",",
        "lb": lambda c: c == "[",
        "rb": lambda c: c == "]",
        "lc": lambda c: c == "{",
        "rc": lambda c: c == "}",
        # inside a JSON string: anything but an unescaped quote / backslash / control character; non-ASCII only when ensure_ascii is off
        "strchar": (lambda c: c not in '"\\' and 32 <= ord(c) < 127) if ascii_only else (lambda c: c not in '"\\' and ord(c) >= 32),
        # after a backslash json.dumps writes one of  " \ / b f n r t u
        "esc": lambda c: c in '"\\/bfnrtu',
        "scalar": lambda c: c.isalnum() or c in "-+.",
    }
    return S, E, kinds


def search_bad_split(matcher, kind, offset, require_no_lbrace=True, ascii_only=True, max_len=40):
    """BFS over (line state, matcher state, flags) for a shortest line on which the split position is wrong.
    kind = 'regex': matcher is an Nfa, every accepted prefix end e gives split = e + offset.
    kind = 'first': matcher is a Kmp automaton, split = end of first occurrence + offset.
    Wrong means: the split position is not the position right after a key's closing '":'.
    Returns (witness line, description) or None."""
    S, E, kinds = line_automaton(ascii_only)
    alpha = alphabet(list(matcher.atoms) + list(kinds.values()))
    out_edges = {}
    for a, k, b in E:
        out_edges.setdefault(a, []).append((k, b))

    def eps_close(ls):
        # returns set of (state, marker_pos_or_None) ; marker set when passing KEYEND
        res = set()
        st = [ls]
        while st:
            s, mk = st.pop()
            if (s, mk) in res:
                continue
            outs = out_edges.get(s, [])
            if any(k == "KEYEND" for k, b in outs):
                # the marker is passed as soon as the key's ':' has been read
                for k, b in outs:
                    if k == "KEYEND":
                        st.append((b, "here"))
                continue
            res.add((s, mk))
            for k, b in outs:
                if k == "eps":
                    st.append((b, mk))
        return res

    # state: (line_state, marker_rel, mstate, cand) where
    #   marker_rel: None (not passed) or number of chars consumed since the marker (capped)
    #   cand: tuple of pending split candidates expressed as 'chars since candidate' offsets still to be validated
    # We validate a candidate split position p (absolute) against marker position m: need p == m.
    # Track everything relative to current position: marker_age = pos - m ; cand_age = pos - p.
    if kind == "regex":
        m0 = matcher.closure({matcher.start})
    else:
        m0 = 0
    start = []
    for (ls, mk) in eps_close((S["start"], None)):
        start.append((ls, None if mk is None else 0))
    CAP = 8
    seen = set()
    q = deque()
    for ls, mage in start:
        st = (ls, mage, m0, (), False, False)
        q.append((st, ""))
        seen.add(st)

    def accepting_line(ls):
        return any(s == S["end"] for s, _ in eps_close((ls, None)))

    while q:
        (ls, mage, ms, cands, has_lbrace, fired), line = q.popleft()
        # matcher acceptance at this position -> new candidate split at pos + offset  (age = -offset)
        new_cands = set(cands)
        created = False
        if kind == "regex":
            if matcher.accept in ms:
                created = True
        else:
            if ms == len(matcher.lit) and not fired:
                created = True
                fired = True
        if created:
            if -offset > 0:
                # split position lies in the past: the marker must have been passed exactly there
                if mage != -offset and not (require_no_lbrace and has_lbrace):
                    comp = complete(ls, out_edges, kinds, alpha, S, has_lbrace, require_no_lbrace)
                    if comp is not None:
                        return line + comp, len(line) + offset
            else:
                new_cands.add(-offset)
        # a candidate with age 0 is a split exactly here: must coincide with the marker (age 0)
        for a in new_cands:
            if a == 0 and mage != 0 and not (require_no_lbrace and has_lbrace):
                # the split happens here, not at a key end: only a violation if the line can be completed
                comp = complete(ls, out_edges, kinds, alpha, S, has_lbrace, require_no_lbrace)
                if comp is not None:
                    return line + comp, len(line)
        if len(line) >= max_len:
            continue
        for ch in alpha:
            for k, b in out_edges.get(ls, []):
                if k in ("eps", "KEYEND") or not kinds[k](ch):
                    continue
                for (ls2, mk2) in eps_close((b, None)):
                    mage2 = 0 if mk2 == "here" else (None if mage is None else min(mage + 1, CAP))
                    ms2 = matcher.step(ms, ch) if kind == "regex" else matcher.step(ms, ch)
                    c2 = tuple(sorted({min(a + 1, CAP) for a in new_cands if a + 1 <= CAP and a != 0} | ({1} if False else set())))
                    # candidates already validated (age 0 at marker) are dropped; others age by one
                    hb = has_lbrace or ch == "{"
                    st = (ls2, mage2, ms2, c2, hb, fired)
                    if st not in seen:
                        seen.add(st)
                        q.append((st, line + ch))
    return None


def complete(ls, out_edges, kinds, alpha, S, has_lbrace, require_no_lbrace):
    """shortest completion of a partial line to a full line (respecting the 'no { in line' guard)"""
    seen = {ls}
    q = deque([(ls, "")])
    while q:
        s, suf = q.popleft()
        # epsilon closure
        stack = [s]
        clos = set()
        while stack:
            x = stack.pop()
            if x in clos:
                continue
            clos.add(x)
            for k, b in out_edges.get(x, []):
                if k in ("eps", "KEYEND"):
                    stack.append(b)
        if S["end"] in clos:
            return suf
        if len(suf) > 12:
            continue
        for x in clos:
            for k, b in out_edges.get(x, []):
                if k in ("eps", "KEYEND"):
                    continue
                for ch in alpha:
                    if kinds[k](ch):
                        if require_no_lbrace and ch == "{":
                            continue
                        if b not in seen:
                            seen.add(b)
                            q.append((b, suf + ch))
                        break
    return None


def ambiguous_star(pattern):
    """Does the regex contain (A1|A2|...)* (unbounded) in which a multi-character alternative can also be read as a
    sequence of single-character alternatives?  Then one input has exponentially many parses and a backtracking
    engine (Python's re) takes exponential time on a non-matching line.  Returns a description or None."""
    import re._parser as rp
    alphabet = [chr(c) for c in range(0, 128)] + ["é", " "]

    def cls(item):
        op, av = item
        if op == rp.LITERAL:
            return {chr(av)} & set(alphabet) or {chr(av)}
        if op == rp.NOT_LITERAL:
            return {c for c in alphabet if c != chr(av)}
        if op == rp.ANY:
            return {c for c in alphabet if c != "\n"}
        if op == rp.IN:
            import re as _re
            neg = any(x[0] == rp.NEGATE for x in av)
            s = set()
            for x in av:
                if x[0] == rp.LITERAL:
                    s.add(chr(x[1]))
                elif x[0] == rp.RANGE:
                    s.update(chr(c) for c in range(x[1][0], min(x[1][1], 0x2030) + 1))
                elif x[0] == rp.CATEGORY:
                    name = str(x[1])
                    pat = {"CATEGORY_DIGIT": r"\d", "CATEGORY_NOT_DIGIT": r"\D", "CATEGORY_SPACE": r"\s", "CATEGORY_NOT_SPACE": r"\S",
                           "CATEGORY_WORD": r"\w", "CATEGORY_NOT_WORD": r"\W"}.get(name)
                    if pat is None:
                        return None
                    s.update(c for c in alphabet if _re.fullmatch(pat, c))
            return {c for c in alphabet if c not in s} if neg else s
        return None

    def walk(tree):
        for op, av in tree:
            if op in (rp.MAX_REPEAT, rp.MIN_REPEAT):
                lo, hi, body = av
                if hi == rp.MAXREPEAT or hi > 64:
                    items = list(body)
                    if len(items) == 1 and items[0][0] == rp.SUBPATTERN:
                        items = list(items[0][1][3])
                    if len(items) == 1 and items[0][0] == rp.BRANCH:
                        alts = [list(a) for a in items[0][1][1]]
                        classes = []
                        for a in alts:
                            cs = [cls(x) for x in a]
                            classes.append(None if any(c is None for c in cs) else cs)
                        singles = [cs[0] for cs in classes if cs is not None and len(cs) == 1]
                        for cs in classes:
                            if cs is None or len(cs) < 2:
                                continue
                            if all(any(c & s for s in singles) for c in cs):
                                return "an alternative of %d characters under '*' can also be matched character by character by the " \
                                       "single-character alternative(s)" % len(cs)
                r = walk(body)
                if r:
                    return r
            elif op == rp.SUBPATTERN:
                r = walk(av[3])
                if r:
                    return r
            elif op == rp.BRANCH:
                for b in av[1]:
                    r = walk(b)
                    if r:
                        return r
        return None
    try:
        return walk(rp.parse(pattern))
    except Exception:
        return None
