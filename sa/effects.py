"""E6 syntactic effect scan: every call site in every shipped module, with the
callee resolved through the module's import aliases."""
import ast

from .model import enclosing_function

FS_MUTATORS = {
    "os.remove", "os.unlink", "os.rmdir", "os.removedirs", "os.rename", "os.renames", "os.replace",
    "os.makedirs", "os.mkdir", "os.truncate", "os.chmod", "os.chown", "os.link", "os.symlink",
    "os.mkfifo", "os.mknod", "os.utime", "os.ftruncate", "os.write", "os.open",
    "shutil.rmtree", "shutil.move", "shutil.copy", "shutil.copy2", "shutil.copyfile", "shutil.copytree",
    "shutil.copymode", "shutil.copystat", "shutil.chown", "shutil.make_archive", "shutil.unpack_archive",
    "tempfile.mkstemp", "tempfile.mkdtemp", "tempfile.NamedTemporaryFile", "tempfile.TemporaryFile",
    "tempfile.TemporaryDirectory",
}
PATHLIB_MUTATING_METHODS = {"unlink", "rmdir", "rename", "write_text", "write_bytes", "mkdir", "touch",
                            "chmod", "symlink_to", "hardlink_to", "link_to"}
DYNAMIC = {"eval", "exec", "__import__", "compile", "os.system", "os.popen", "os.execv", "os.execl", "os.execvp",
           "os.spawnl", "os.spawnv", "os.fork", "subprocess.run", "subprocess.call", "subprocess.check_call",
           "subprocess.check_output", "subprocess.Popen", "pty.spawn", "ctypes.CDLL", "globals", "locals", "vars",
           "setattr", "delattr"}
EXITS = {"sys.exit", "exit", "quit", "os._exit", "os.abort"}


class CallSite:
    def __init__(self, module, func, node, name):
        self.module = module
        self.func = func            # ast.FunctionDef or None
        self.node = node
        self.name = name            # resolved dotted name or None

    @property
    def where(self):
        return "%s.%s" % (self.module.name, self.func.name if self.func is not None else "<module>")

    @property
    def qual(self):
        f = self.func
        if f is None:
            return self.module.name + ".<module>"
        p = getattr(f, "_parent", None)
        if isinstance(p, ast.ClassDef):
            return "%s.%s.%s" % (self.module.name, p.name, f.name)
        return "%s.%s" % (self.module.name, f.name)


def alias_map(module):
    m = {}
    for node in ast.walk(module.tree):
        if isinstance(node, ast.Import):
            for a in node.names:
                if a.asname:
                    m[a.asname] = a.name
                else:
                    m[a.name.split(".")[0]] = a.name.split(".")[0]
        elif isinstance(node, ast.ImportFrom) and node.module:
            for a in node.names:
                m[a.asname or a.name] = node.module + "." + a.name
    return m


def dotted(node):
    parts = []
    while isinstance(node, ast.Attribute):
        parts.append(node.attr)
        node = node.value
    if isinstance(node, ast.Name):
        parts.append(node.id)
        return ".".join(reversed(parts))
    return None


def call_sites(prog):
    out = []
    for m in prog.modules.values():
        am = alias_map(m)
        # simple local aliases:  rm = os.remove
        local_alias = {}
        pairs = []
        for node in ast.walk(m.tree):
            if isinstance(node, ast.Assign) and len(node.targets) == 1:
                t, v = node.targets[0], node.value
                if isinstance(t, ast.Name):
                    pairs.append((t, v))
                elif isinstance(t, (ast.Tuple, ast.List)) and isinstance(v, (ast.Tuple, ast.List)) and len(t.elts) == len(v.elts):
                    # join, isfile, remove = os.path.join, os.path.isfile, os.remove
                    pairs.extend((a, b) for a, b in zip(t.elts, v.elts) if isinstance(a, ast.Name))
            elif isinstance(node, ast.NamedExpr) and isinstance(node.target, ast.Name):
                pairs.append((node.target, node.value))
        for _ in range(2):                 # (an alias of an alias)
            for t, v in pairs:
                d = dotted(v) if isinstance(v, (ast.Attribute, ast.Name)) else None
                if d:
                    head = d.split(".")[0]
                    if head in am:
                        local_alias[t.id] = am[head] + d[len(head):]
                    elif head in local_alias and t.id not in local_alias:
                        local_alias[t.id] = local_alias[head] + d[len(head):]
        for node in ast.walk(m.tree):
            if isinstance(node, ast.Call):
                d = dotted(node.func)
                name = None
                if d:
                    head = d.split(".")[0]
                    if head in am:
                        name = am[head] + d[len(head):]
                    elif head in local_alias:
                        name = local_alias[head] + d[len(head):]
                    else:
                        name = d
                cs = CallSite(m, enclosing_function(node), node, name)
                # does the first argument name something imported (a module / an imported object)?
                a0 = dotted(node.args[0]) if node.args and isinstance(node.args[0], (ast.Attribute, ast.Name)) else None
                cs.arg0_imported = bool(a0) and (a0.split(".")[0] in am or a0.split(".")[0] in local_alias)
                cs.arg0_plain = bool(a0)
                out.append(cs)
    return out


def open_mode(call):
    """constant mode string of an open() call or None when not constant"""
    mode = None
    if len(call.args) > 1:
        mode = call.args[1]
    for k in call.keywords:
        if k.arg == "mode":
            mode = k.value
    if mode is None:
        return "r"
    if isinstance(mode, ast.Constant) and isinstance(mode.value, str):
        return mode.value
    return None


def print_target(call):
    """'stdout' | 'stderr' | 'other'"""
    for k in call.keywords:
        if k.arg == "file":
            d = dotted(k.value)
            if d in ("sys.stderr",):
                return "stderr"
            if d in ("sys.stdout",) or (isinstance(k.value, ast.Constant) and k.value.value is None):
                return "stdout"
            return "other"
    return "stdout"


def enclosing_top_function(node):
    """outermost def (function or method) containing the node; nested defs / lambdas belong to it"""
    top = None
    n = getattr(node, "_parent", None)
    while n is not None:
        if isinstance(n, (ast.FunctionDef, ast.AsyncFunctionDef)):
            top = n
        n = getattr(n, "_parent", None)
    return top


def _qual_of(module, fnode):
    p = getattr(fnode, "_parent", None)
    if isinstance(p, ast.ClassDef):
        return "%s.%s.%s" % (module.name, p.name, fnode.name)
    return "%s.%s" % (module.name, fnode.name)


def call_graph(prog):
    """Over-approximate, name-based may-call graph {function qual: set(function quals)}.
    Edges: a resolved reference (call or plain mention - callbacks) to a module-level function or class (-> every method
    of the class: an instance may have any of them invoked later); an attribute call / mention x.name -> every method
    or module-level function called `name` anywhere in the program.  Code of nested functions belongs to the enclosing
    top-level def; module-level code belongs to '<module>'."""
    funcs = {}
    by_name = {}
    classes = {}
    for m in prog.modules.values():
        for f in m.all_functions():
            funcs[f.qual] = f
            by_name.setdefault(f.name, set()).add(f.qual)
        for c in m.classes.values():
            classes[c.qual] = c
    graph = {q: set() for q in funcs}
    for m in prog.modules.values():
        graph[m.name + ".<module>"] = set()
        am = alias_map(m)
        for node in ast.walk(m.tree):
            if not isinstance(node, (ast.Name, ast.Attribute)) or not isinstance(getattr(node, "ctx", None), ast.Load):
                continue
            top = enclosing_top_function(node)
            src = _qual_of(m, top) if top is not None else m.name + ".<module>"
            if src not in graph:
                graph[src] = set()
            targets = set()
            d = dotted(node)
            if d:
                head = d.split(".")[0]
                full = (am[head] + d[len(head):]) if head in am else (m.name + "." + d)
                if full in funcs:
                    targets.add(full)
                if full in classes:
                    targets.update(x.qual for x in classes[full].methods.values())
            if isinstance(node, ast.Attribute):
                targets.update(by_name.get(node.attr, ()))
            graph[src].update(targets)
    return graph


def reachable(graph, roots):
    seen = set()
    stack = [r for r in roots if r in graph]
    while stack:
        q = stack.pop()
        if q in seen:
            continue
        seen.add(q)
        stack.extend(graph.get(q, ()))
    return seen


def memoised_functions(prog, module_prefixes=None):
    """functions whose results are remembered across calls by a decorator (functools.lru_cache / cache): a decode that
    goes through one of them depends on what an earlier call with equal arguments saw (e.g. a file that has changed since)"""
    out = []
    for m in prog.modules.values():
        if module_prefixes and not any(m.name == p or m.name.startswith(p + ".") or m.name.startswith(p) for p in module_prefixes):
            continue
        for f in m.all_functions():
            if f.deco & {"lru_cache", "cache", "cached_property", "memoize", "memoise"}:
                out.append(f)
    return out


def check_no_memoised(rep, prog, rule, module_prefixes, what):
    fs = memoised_functions(prog, module_prefixes)
    for f in fs:
        rep.fail(rule, f.qual, f.node, "%s is memoised by a decorator: %s" % (f.qual, what), node=f.node, file=f.module.rel)
    if not fs:
        rep.ok(rule, "no decoder function under %s is memoised across calls" % ", ".join(module_prefixes or ["modules/"]))


def _emptiness_test_of(test):
    """names G for which `test` is a 'not loaded yet' test: not G / G is None / len(G) == 0 / not len(G)"""
    out = set()
    for n in ast.walk(test):
        if isinstance(n, ast.UnaryOp) and isinstance(n.op, ast.Not):
            o = n.operand
            if isinstance(o, ast.Name):
                out.add(o.id)
            if isinstance(o, ast.Call) and isinstance(o.func, ast.Name) and o.func.id == "len" and o.args and isinstance(o.args[0], ast.Name):
                out.add(o.args[0].id)
        if isinstance(n, ast.Compare) and len(n.ops) == 1:
            l, r = n.left, n.comparators[0]
            if isinstance(n.ops[0], (ast.Is, ast.Eq)) and isinstance(l, ast.Name) and isinstance(r, ast.Constant) and r.value is None:
                out.add(l.id)
            if isinstance(n.ops[0], ast.Eq) and isinstance(l, ast.Call) and isinstance(l.func, ast.Name) and l.func.id == "len" \
                    and l.args and isinstance(l.args[0], ast.Name) and isinstance(r, ast.Constant) and r.value == 0:
                out.add(l.args[0].id)
    return out


def _content_reads(stmt, g):
    """places in stmt that look into the container named g (a bare alias `x = g` is not one: it names the same object)"""
    out = []
    for n in ast.walk(stmt):
        if isinstance(n, ast.Subscript) and isinstance(n.value, ast.Name) and n.value.id == g and isinstance(n.ctx, ast.Load):
            out.append(n)
        elif isinstance(n, ast.Call) and isinstance(n.func, ast.Attribute) and isinstance(n.func.value, ast.Name) and n.func.value.id == g:
            out.append(n)
        elif isinstance(n, ast.Compare) and any(isinstance(op, (ast.In, ast.NotIn)) for op in n.ops) and \
                any(isinstance(c, ast.Name) and c.id == g for c in n.comparators):
            out.append(n)
        elif isinstance(n, (ast.For, ast.comprehension)) and isinstance(n.iter, ast.Name) and n.iter.id == g:
            out.append(n if isinstance(n, ast.For) else n.iter)
    return out


def check_lazy_init_order(rep, prog, rule):
    """a module-level table that is filled on first use (`if not TABLE: load()`) is looked into only after that test: a look-up
    made before it sees the empty table in the first call of a process and the loaded one in every later call"""
    n_idioms = 0
    for m in prog.modules.values():
        globs = set()
        for st in m.tree.body:
            if isinstance(st, (ast.Assign, ast.AnnAssign)):
                for t in (st.targets if isinstance(st, ast.Assign) else [st.target]):
                    if isinstance(t, ast.Name):
                        globs.add(t.id)
        if not globs:
            continue
        for f in m.all_functions():
            local = {a.arg for a in f.node.args.args + f.node.args.kwonlyargs + f.node.args.posonlyargs}
            for x in ast.walk(f.node):
                if isinstance(x, ast.Name) and isinstance(x.ctx, ast.Store):
                    local.add(x.id)
            declared = {nm for x in ast.walk(f.node) if isinstance(x, ast.Global) for nm in x.names}
            local -= declared

            def visit(block, before):
                nonlocal n_idioms
                for i, st in enumerate(block):
                    if isinstance(st, ast.If):
                        lazy = {g for g in _emptiness_test_of(st.test) if g in globs and g not in local}
                        if lazy and any(isinstance(c, ast.Call) for b in st.body for c in ast.walk(b)):
                            n_idioms += 1
                            for g in sorted(lazy):
                                early = [r for p in before + block[:i] for r in _content_reads(p, g)]
                                rep.check(not early, rule, "%s: %s is looked into only after its load-on-first-use test" % (f.qual, g),
                                          f.qual, early[0] if early else st,
                                          "%s is looked into (%s) before the 'if %s:' test that loads it on first use: the first call of a "
                                          "process sees the empty table, every later call the loaded one" % (
                                              g, ast.unparse(early[0])[:60] if early else "", ast.unparse(st.test)[:40]),
                                          node=early[0] if early else st, file=m.rel)
                    for fld in ("body", "orelse", "finalbody"):
                        sub = getattr(st, fld, None)
                        if isinstance(sub, list) and sub and isinstance(sub[0], ast.stmt) and not isinstance(st, (ast.FunctionDef, ast.ClassDef)):
                            visit(sub, before + block[:i])
                    for h in getattr(st, "handlers", []) or []:
                        visit(h.body, before + block[:i])
            visit(f.node.body, [])
    rep.floor("load-on-first-use idioms", n_idioms, 1)


def check_text_decoding(rep, prog, rule, module_prefix, what):
    """the definition files (string files, header tables) are read as text the way they were written: a text-mode open()
    that names another character set, or an error policy that drops / replaces what does not decode, shows names and
    messages with characters lost or changed"""
    n = 0
    for cs in call_sites(prog):
        if not cs.module.name.startswith(module_prefix):
            continue
        meth = cs.node.func.attr if isinstance(cs.node.func, ast.Attribute) else None
        kws = {k.arg: k.value for k in cs.node.keywords}
        pos = cs.node.args
        if cs.name in ("open", "builtins.open", "io.open", "codecs.open"):
            mode = open_mode(cs.node)
            if mode is not None and "b" in mode:
                continue
            enc = kws.get("encoding", pos[3] if len(pos) > 3 else None)
            err = kws.get("errors", pos[4] if len(pos) > 4 else None)
        elif meth == "read_text":
            # pathlib.Path(...).read_text(encoding=None, errors=None)
            enc = kws.get("encoding", pos[0] if len(pos) > 0 else None)
            err = kws.get("errors", pos[1] if len(pos) > 1 else None)
        elif meth == "open" and (cs.name or "").split(".")[0] not in ("os", "gzip", "bz2", "lzma", "tarfile", "zipfile", "webbrowser"):
            # pathlib.Path(...).open(mode='r', buffering=-1, encoding=None, errors=None)
            m_ = kws.get("mode", pos[0] if len(pos) > 0 else None)
            if isinstance(m_, ast.Constant) and isinstance(m_.value, str) and "b" in m_.value:
                continue
            enc = kws.get("encoding", pos[2] if len(pos) > 2 else None)
            err = kws.get("errors", pos[3] if len(pos) > 3 else None)
        else:
            continue
        n += 1
        enc_ok = enc is None or (isinstance(enc, ast.Constant) and (enc.value is None or str(enc.value).lower().replace("_", "-") in ("utf-8", "utf8", "utf-8-sig")))
        err_ok = err is None or (isinstance(err, ast.Constant) and err.value in (None, "strict"))
        rep.check(enc_ok and err_ok, rule, "%s:%s %s is read as UTF-8 / locale text with strict decoding" % (cs.where, cs.node.lineno, what), cs.where,
                  cs.node, "%s is opened with %s: characters outside that character set are dropped or shown as other characters in the "
                  "names / messages taken from the file" % (what, ", ".join("%s=%s" % (k_, ast.unparse(v_)) for k_, v_ in (("encoding", enc), ("errors", err)) if v_ is not None)),
                  node=cs.node, file=cs.module.rel)
    rep.floor("text-mode open() calls checked for their decoding (%s)" % module_prefix, n, 1)
    return n


def _mv_valued(expr, fnode, cls_node, module, depth=0):
    """is this expression (in function fnode of class cls_node) certainly a memoryview object?"""
    if depth > 4 or expr is None:
        return False
    if isinstance(expr, ast.Call):
        d = dotted(expr.func)
        if d in ("memoryview", "builtins.memoryview"):
            return True
        if isinstance(expr.func, ast.Attribute) and expr.func.attr in ("cast", "toreadonly") and _mv_valued(expr.func.value, fnode, cls_node, module, depth + 1):
            return True
        # a helper of the same module / class all of whose returns are memoryviews
        name = expr.func.id if isinstance(expr.func, ast.Name) else (expr.func.attr if isinstance(expr.func, ast.Attribute) and
                                                                       isinstance(expr.func.value, ast.Name) and expr.func.value.id in ("self", "cls") else None)
        if name:
            for f in module.all_functions():
                if f.name == name:
                    rets = [r for r in ast.walk(f.node) if isinstance(r, ast.Return)]
                    if rets and all(_mv_valued(r.value, f.node, getattr(f.cls, "node", None) if f.cls else None, module, depth + 1) for r in rets):
                        return True
        return False
    if isinstance(expr, ast.Subscript) and isinstance(expr.slice, ast.Slice):
        return _mv_valued(expr.value, fnode, cls_node, module, depth + 1)        # a slice of a memoryview is one
    if isinstance(expr, ast.Name):
        asg = [n for n in ast.walk(fnode) if isinstance(n, (ast.Assign, ast.AnnAssign, ast.NamedExpr)) and
               any(isinstance(t, ast.Name) and t.id == expr.id for t in (n.targets if isinstance(n, ast.Assign) else [n.target]))]
        asg = [n for n in asg if getattr(n, "lineno", 0) <= getattr(expr, "lineno", 10 ** 9)]
        return bool(asg) and all(_mv_valued(n.value, fnode, cls_node, module, depth + 1) for n in asg)
    if isinstance(expr, ast.Attribute) and isinstance(expr.value, ast.Name) and expr.value.id == "self" and cls_node is not None:
        asg = [n for n in ast.walk(cls_node) if isinstance(n, ast.Assign) and
               any(isinstance(t, ast.Attribute) and isinstance(t.value, ast.Name) and t.value.id == "self" and t.attr == expr.attr for t in n.targets)]
        if not asg:
            return False
        out = True
        for n in asg:
            fn_ = enclosing_function(n)
            out = out and fn_ is not None and _mv_valued(n.value, fn_, cls_node, module, depth + 1)
        return out
    if isinstance(expr, ast.IfExp):
        return _mv_valued(expr.body, fnode, cls_node, module, depth + 1) and _mv_valued(expr.orelse, fnode, cls_node, module, depth + 1)
    return False


def check_payload_is_memoryview(rep, prog, rule, method="parseUDToJson", argpos=2):
    """parser plug-ins are written against a memoryview payload (they call .tobytes() / .cast() on it): what the core hands
    them as payload is the result of memoryview(...) (directly, through a local name, an attribute set from one, or a slice)"""
    n = 0
    for cs in call_sites(prog):
        f = cs.node.func
        if not (isinstance(f, ast.Attribute) and f.attr == method) or not cs.module.name.startswith("pel."):
            continue
        args = list(cs.node.args)
        arg = args[argpos] if len(args) > argpos else next((k.value for k in cs.node.keywords if k.arg == "data"), None)
        if arg is None or cs.func is None:
            continue
        n += 1
        cls_node = getattr(cs.func, "_parent", None)
        cls_node = cls_node if isinstance(cls_node, ast.ClassDef) else None
        ok = _mv_valued(arg, cs.func, cls_node, cs.module)
        rep.check(ok, rule, "%s:%s the payload handed to %s is a memoryview" % (cs.where, cs.node.lineno, method), cs.where, cs.node,
                  "the payload argument of %s (%s) is not the result of memoryview(...): a section read from a file is a bytes object, and "
                  "parser modules that call .tobytes() / .cast() on their payload fail on it" % (method, ast.unparse(arg)[:60]),
                  node=cs.node, file=cs.module.rel)
    rep.floor("%s call sites checked for the payload type" % method, n, 1)
