"""E6 syntactic effect scan: every call site in every shipped module, with the
callee resolved through the module's import aliases."""
import ast

from .model import enclosing_function

FS_MUTATORS = {
    "os.remove", "os.unlink", "os.rmdir", "os.removedirs", "os.rename", "os.renames", "os.replace",
    "os.makedirs", "os.mkdir", "os.truncate", "os.chmod", "os.chown", "os.link", "os.symlink",
    "os.mkfifo", "os.mknod", "os.utime", "os.ftruncate", "os.write", "os.open",
    "shutil.rmtree", "shutil.move", "shutil.copy", "shutil.copy2", "shutil.copyfile", "shutil.copytree",
    "shutil.copymode", "shutil.copystat", "shutil.chown", "shutil.make_archive", "shutil.unpack_archive",
    "tempfile.mkstemp", "tempfile.mkdtemp", "tempfile.NamedTemporaryFile", "tempfile.TemporaryFile",
    "tempfile.TemporaryDirectory",
}
PATHLIB_MUTATING_METHODS = {"unlink", "rmdir", "rename", "write_text", "write_bytes", "mkdir", "touch",
                            "chmod", "symlink_to", "hardlink_to", "link_to"}
DYNAMIC = {"eval", "exec", "__import__", "compile", "os.system", "os.popen", "os.execv", "os.execl", "os.execvp",
           "os.spawnl", "os.spawnv", "os.fork", "subprocess.run", "subprocess.call", "subprocess.check_call",
           "subprocess.check_output", "subprocess.Popen", "pty.spawn", "ctypes.CDLL", "globals", "locals", "vars",
           "setattr", "delattr"}
EXITS = {"sys.exit", "exit", "quit", "os._exit", "os.abort"}


class CallSite:
    def __init__(self, module, func, node, name):
        self.module = module
        self.func = func            # ast.FunctionDef or None
        self.node = node
        self.name = name            # resolved dotted name or None

    @property
    def where(self):
        return "%s.%s" % (self.module.name, self.func.name if self.func is not None else "<module>")

    @property
    def qual(self):
        f = self.func
        if f is None:
            return self.module.name + ".<module>"
        p = getattr(f, "_parent", None)
        if isinstance(p, ast.ClassDef):
            return "%s.%s.%s" % (self.module.name, p.name, f.name)
        return "%s.%s" % (self.module.name, f.name)


def alias_map(module):
    m = {}
    for node in ast.walk(module.tree):
        if isinstance(node, ast.Import):
            for a in node.names:
                if a.asname:
                    m[a.asname] = a.name
                else:
                    m[a.name.split(".")[0]] = a.name.split(".")[0]
        elif isinstance(node, ast.ImportFrom) and node.module:
            for a in node.names:
                m[a.asname or a.name] = node.module + "." + a.name
    return m


def dotted(node):
    parts = []
    while isinstance(node, ast.Attribute):
        parts.append(node.attr)
        node = node.value
    if isinstance(node, ast.Name):
        parts.append(node.id)
        return ".".join(reversed(parts))
    return None


def call_sites(prog):
    out = []
    for m in prog.modules.values():
        am = alias_map(m)
        # simple local aliases:  rm = os.remove
        local_alias = {}
        pairs = []
        for node in ast.walk(m.tree):
            if isinstance(node, ast.Assign) and len(node.targets) == 1:
                t, v = node.targets[0], node.value
                if isinstance(t, ast.Name):
                    pairs.append((t, v))
                elif isinstance(t, (ast.Tuple, ast.List)) and isinstance(v, (ast.Tuple, ast.List)) and len(t.elts) == len(v.elts):
                    # join, isfile, remove = os.path.join, os.path.isfile, os.remove
                    pairs.extend((a, b) for a, b in zip(t.elts, v.elts) if isinstance(a, ast.Name))
            elif isinstance(node, ast.NamedExpr) and isinstance(node.target, ast.Name):
                pairs.append((node.target, node.value))
        for _ in range(2):                 # (an alias of an alias)
            for t, v in pairs:
                d = dotted(v) if isinstance(v, (ast.Attribute, ast.Name)) else None
                if d:
                    head = d.split(".")[0]
                    if head in am:
                        local_alias[t.id] = am[head] + d[len(head):]
                    elif head in local_alias and t.id not in local_alias:
                        local_alias[t.id] = local_alias[head] + d[len(head):]
        for node in ast.walk(m.tree):
            if isinstance(node, ast.Call):
                d = dotted(node.func)
                name = None
                if d:
                    head = d.split(".")[0]
                    if head in am:
                        name = am[head] + d[len(head):]
                    elif head in local_alias:
                        name = local_alias[head] + d[len(head):]
                    else:
                        name = d
                cs = CallSite(m, enclosing_function(node), node, name)
                # does the first argument name something imported (a module / an imported object)?
                a0 = dotted(node.args[0]) if node.args and isinstance(node.args[0], (ast.Attribute, ast.Name)) else None
                cs.arg0_imported = bool(a0) and (a0.split(".")[0] in am or a0.split(".")[0] in local_alias)
                cs.arg0_plain = bool(a0)
                out.append(cs)
    return out


def open_mode(call):
    """constant mode string of an open() call or None when not constant"""
    mode = None
    if len(call.args) > 1:
        mode = call.args[1]
    for k in call.keywords:
        if k.arg == "mode":
            mode = k.value
    if mode is None:
        return "r"
    if isinstance(mode, ast.Constant) and isinstance(mode.value, str):
        return mode.value
    return None


def print_target(call):
    """'stdout' | 'stderr' | 'other'"""
    for k in call.keywords:
        if k.arg == "file":
            d = dotted(k.value)
            if d in ("sys.stderr",):
                return "stderr"
            if d in ("sys.stdout",) or (isinstance(k.value, ast.Constant) and k.value.value is None):
                return "stdout"
            return "other"
    return "stdout"


def enclosing_top_function(node):
    """outermost def (function or method) containing the node; nested defs / lambdas belong to it"""
    top = None
    n = getattr(node, "_parent", None)
    while n is not None:
        if isinstance(n, (ast.FunctionDef, ast.AsyncFunctionDef)):
            top = n
        n = getattr(n, "_parent", None)
    return top


def _qual_of(module, fnode):
    p = getattr(fnode, "_parent", None)
    if isinstance(p, ast.ClassDef):
        return "%s.%s.%s" % (module.name, p.name, fnode.name)
    return "%s.%s" % (module.name, fnode.name)


def call_graph(prog):
    """Over-approximate, name-based may-call graph {function qual: set(function quals)}.
    Edges: a resolved reference (call or plain mention - callbacks) to a module-level function or class (-> every method
    of the class: an instance may have any of them invoked later); an attribute call / mention x.name -> every method
    or module-level function called `name` anywhere in the program.  Code of nested functions belongs to the enclosing
    top-level def; module-level code belongs to '<module>'."""
    funcs = {}
    by_name = {}
    classes = {}
    for m in prog.modules.values():
        for f in m.all_functions():
            funcs[f.qual] = f
            by_name.setdefault(f.name, set()).add(f.qual)
        for c in m.classes.values():
            classes[c.qual] = c
    graph = {q: set() for q in funcs}
    for m in prog.modules.values():
        graph[m.name + ".<module>"] = set()
        am = alias_map(m)
        for node in ast.walk(m.tree):
            if not isinstance(node, (ast.Name, ast.Attribute)) or not isinstance(getattr(node, "ctx", None), ast.Load):
                continue
            top = enclosing_top_function(node)
            src = _qual_of(m, top) if top is not None else m.name + ".<module>"
            if src not in graph:
                graph[src] = set()
            targets = set()
            d = dotted(node)
            if d:
                head = d.split(".")[0]
                full = (am[head] + d[len(head):]) if head in am else (m.name + "." + d)
                if full in funcs:
                    targets.add(full)
                if full in classes:
                    targets.update(x.qual for x in classes[full].methods.values())
            if isinstance(node, ast.Attribute):
                targets.update(by_name.get(node.attr, ()))
            graph[src].update(targets)
    return graph


def reachable(graph, roots):
    seen = set()
    stack = [r for r in roots if r in graph]
    while stack:
        q = stack.pop()
        if q in seen:
            continue
        seen.add(q)
        stack.extend(graph.get(q, ()))
    return seen


def memoised_functions(prog, module_prefixes=None):
    """functions whose results are remembered across calls by a decorator (functools.lru_cache / cache): a decode that
    goes through one of them depends on what an earlier call with equal arguments saw (e.g. a file that has changed since)"""
    out = []
    for m in prog.modules.values():
        if module_prefixes and not any(m.name == p or m.name.startswith(p + ".") or m.name.startswith(p) for p in module_prefixes):
            continue
        for f in m.all_functions():
            if f.deco & {"lru_cache", "cache", "cached_property", "memoize", "memoise"}:
                out.append(f)
    return out


def check_no_memoised(rep, prog, rule, module_prefixes, what):
    fs = memoised_functions(prog, module_prefixes)
    for f in fs:
        rep.fail(rule, f.qual, f.node, "%s is memoised by a decorator: %s" % (f.qual, what), node=f.node, file=f.module.rel)
    if not fs:
        rep.ok(rule, "no decoder function under %s is memoised across calls" % ", ".join(module_prefixes or ["modules/"]))
