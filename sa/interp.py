"""E4/E5 abstract interpreter: predicated (if-converted) evaluation of the
repository's functions over the term domain of terms.py.

No repository code is executed: statements are interpreted over symbolic
terms; branches are merged into Ite terms; loops with a constant small trip
count are unrolled, all others are summarised by one symbolic iteration.
The result of interpreting a function is (return term, heap, event log).
"""
import ast

from .core import AnalysisError
from .terms import (V, Const, Sym, Ext, Undef, Ref, FuncV, ClassV, ModuleV, Op, Ite, Lin,
                    TRUE, FALSE, NONE, is_const, is_int, add, sub, mul, binop, compare, truthy,
                    not_, and_, or_, ite, fmt, fv, pct_format, str_format, subst, walk, contains)

UNROLL_MAX = 40
MAX_DEPTH = 25


# ------------------------------------------------------------------ heap
class HObj:
    kind = "obj"
    prev_iter = None    # loop being summarised whose earlier iterations may have mutated this container

    def __init__(self, born):
        self.born = born


class Instance(HObj):
    kind = "inst"

    def __init__(self, cls, born):
        super().__init__(born)
        self.cls = cls          # ClassInfo
        self.attrs = {}


class _IteratorClass:
    """stands for the class of built-in iterator objects (no methods the analysis follows)"""
    name = "iterator"
    qual = "builtins.iterator"
    bases = ()
    methods = {}
    node = None
    module = None
    is_enum = False


class IterObj(Instance):
    """an iterator object made by iter(<list / tuple>): attrs src (the sequence) and pos (how many elements were taken)"""
    kind = "iter"

    def __init__(self, born, src, pos):
        HObj.__init__(self, born)
        self.cls = _IteratorClass
        self.attrs = {"src": src, "pos": pos}


class ListObj(HObj):
    """items: list of ("v", term, guard) | ("rep", loop, term, guard)"""
    kind = "list"

    def __init__(self, born, items=None, typ="list"):
        super().__init__(born)
        self.items = items or []
        self.typ = typ

    def concrete(self):
        """every element is individually known (no loop-produced, conditional or spliced-in unknown-length parts)"""
        return self.prev_iter is None and all(i[0] == "v" and i[2] == TRUE and not (isinstance(i[1], Op) and (
            i[1].op == "splat" or i[1].op.startswith("listmut:"))) for i in self.items)


class DictObj(HObj):
    """entries: ordered stores (key term, value term, guard, loopctx)"""
    kind = "dict"

    def __init__(self, born, typ="dict"):
        super().__init__(born)
        self.entries = []
        self.typ = typ

    def concrete(self):
        return self.prev_iter is None and all(isinstance(k, Const) and g == TRUE and not lc for k, v, g, lc in self.entries)

    def lookup(self, key):
        """latest unconditional store with this constant key, else None"""
        res = None
        for k, v, g, lc in self.entries:
            if k == key:
                res = (v, g, lc)
        return res


class GenV(V):
    """a generator object: the call of a generator function that has not been run yet"""
    __slots__ = ("finfo", "selfv", "args", "kwargs")

    def __init__(self, finfo, selfv, args, kwargs):
        self.finfo, self.selfv, self.args, self.kwargs = finfo, selfv, tuple(args), dict(kwargs)

    def __repr__(self):
        return "<generator %s>" % self.finfo.qual


def is_generator_func(node):
    stack = list(node.body)
    while stack:
        n = stack.pop()
        if isinstance(n, (ast.Yield, ast.YieldFrom)):
            return True
        if isinstance(n, (ast.FunctionDef, ast.AsyncFunctionDef, ast.Lambda, ast.ClassDef)):
            continue
        stack.extend(ast.iter_child_nodes(n))
    return False


class Event:
    __slots__ = ("kind", "guard", "data", "loops", "func", "node", "seq", "stack")

    def __init__(self, kind, guard, data, loops, func, node, seq, stack=()):
        self.kind, self.guard, self.data, self.loops = kind, guard, data, loops
        self.func, self.node, self.seq = func, node, seq
        self.stack = stack        # qualified names of the functions active when the event happened (outermost first)

    def __repr__(self):
        return "Event(%s %r @%s:%s g=%r)" % (self.kind, self.data, self.func,
                                             getattr(self.node, "lineno", "?"), self.guard)


class LoopInfo:
    def __init__(self, lid, node, func):
        self.lid = lid
        self.node = node
        self.func = func
        self.kind = "for"
        self.trip = None          # term for the number of iterations (for loops)
        self.iter = None          # term iterated over
        self.cond = None          # while condition at loop head (terms of loop vars)
        self.idx = Sym("i%d" % lid, "idx")
        self.carried = {}         # location -> (init, next, closed_delta or None)
        self.breaks = []          # guards (within iteration) under which break happens
        self.stops = []           # breaks + returns: every early end of the iteration sequence
        self.events = (0, 0)      # slice of the event log covered by the body
        self.body_guard = TRUE
        self.invariant_guard = None
        self.stack = ()           # functions active where the loop runs (outermost first)

    def __repr__(self):
        return "<loop %d %s@%s:%s>" % (self.lid, self.kind, self.func, getattr(self.node, "lineno", "?"))


class Frame:
    def __init__(self, finfo, env, modname):
        self.finfo = finfo
        self.env = env
        self.modname = modname
        self.base_guard_len = 0
        self.dead = []            # conditions under which control already left by return
        self.rdead = []           # ... by an exception / process exit (assumptions, not state guards)
        self.ret = Undef()
        self.ret_conds = []
        self.loop_stack = []      # LoopCtl for break/continue
        self.globals_decl = set()


class LoopCtl:
    def __init__(self):
        self.brk = []
        self.cont = []


def pad_norm(total):
    """x + max(c - x, 0) == max(c, x): the length of a list padded up to c elements"""
    if isinstance(total, Lin):
        for t, coeff in total.terms:
            if coeff == 1 and isinstance(t, Op) and t.op == "max" and len(t.args) == 2 and Const(0) in t.args:
                a = t.args[0] if t.args[1] == Const(0) else t.args[1]
                rest = sub(total, t)
                c = add(rest, a)
                if is_int(c):
                    return Op("max", c, rest)
    return total


def snap_items(snap, oid):
    return snap[0].get(oid, [])


def nonneg(t):
    """provably non-negative integer term (stream positions, unsigned fields, loop counters)"""
    if isinstance(t, Const):
        return isinstance(t.v, int) and t.v >= 0
    if isinstance(t, Lin):
        return t.const >= 0 and all(c > 0 and nonneg(x) for x, c in t.terms)
    if isinstance(t, Sym):
        return t.kind in ("loopidx", "idx")
    if isinstance(t, Op):
        if t.op == "int_from_bytes":
            return len(t.args) < 3 or t.args[2] == FALSE
        if t.op in ("len", "ord"):
            return True
        if t.op in ("add", "mul", "floordiv", "mod", "bitand", "bitor", "rshift", "lshift", "min", "max"):
            return all(nonneg(a) for a in t.args)
    if isinstance(t, Ite):
        return nonneg(t.a) and nonneg(t.b)
    return False


def flat_set(conjuncts):
    """set of atomic conjuncts (nested 'and' terms flattened, as and_() does)"""
    out = set()
    for c in conjuncts:
        if isinstance(c, Op) and c.op == "and":
            out.update(c.args)
        else:
            out.add(c)
    return out


class Interp:
    def __init__(self, program, hooks=None):
        self.prog = program
        self.heap = {}
        self.next_oid = 1
        self.next_loop = 1
        self.next_sym = 1
        self.guard = []           # stack of conjunct terms
        self.events = []
        self.loops = {}
        self.loop_ctx = []        # stack of LoopInfo currently being summarised
        self.frames = []
        self.mod_ns = {}
        self.mod_loading = set()
        self.depth = 0
        self.hooks = hooks or {}
        self.opaque = set(self.hooks.get("opaque", ()))   # quals treated as opaque calls
        self.unknown_calls = []
        self.facts = []           # (p, q): p implies q (raise inside a try body => that try's exception flag)
        self.fact_seq = []        # number of events recorded when the fact was added: it speaks about later events only
        self.raise_conds = set()  # every condition under which an exception was noted to leave a frame ("not c" in a later guard
                                  # then just says: no exception so far)
        self.writelog = None
        self.warnings = []

    # ---------------------------------------------------------- utilities
    def fresh(self, name, kind="sym", info=None):
        s = Sym("%s#%d" % (name, self.next_sym), kind, info)
        self.next_sym += 1
        return s

    def pin_from(self, oid0):
        """objects made while a module / class namespace was set up (also by functions it called) live as long as the
        namespace does: a loop pass that happened to trigger the set-up must not take them away again"""
        for oid in range(oid0, self.next_oid):
            o = self.heap.get(oid)
            if o is not None:
                o.pinned = True

    def alloc(self, obj):
        oid = self.next_oid
        self.next_oid += 1
        self.heap[oid] = obj
        obj.shared = getattr(self, "alloc_ctx", None)
        obj.born_loops = tuple(self.loop_ctx)
        obj.born_seq = len(self.events)
        return Ref(oid, obj.kind)

    def note_mutation(self, ref, o, how, node, stored=()):
        """mutation of an object created at module / class level (state shared by all decodes)"""
        sh = getattr(o, "shared", None)
        if sh and self.frames and self.frames[-1].finfo is not None:
            self.event("shared_mutation", (sh, how, ref), node)
            # what is put into shared state is shared from now on: later writes to it outlive the decode just the same
            for v in stored:
                for x in (walk(v) if v is not None and not isinstance(v, (str, int)) else ()):
                    if isinstance(x, Ref):
                        ox = self.heap.get(x.oid)
                        if ox is not None and getattr(ox, "shared", None) is None:
                            ox.shared = sh if str(sh).endswith("(object kept there)") else "%s (object kept there)" % sh

    def raw_guard_list(self):
        """conjuncts of the current path; 'no exception so far' facts are wrapped
        as Op('assume', c): they constrain events but never guard state updates
        (state on a path that already raised is unobservable)."""
        g = list(self.guard)
        if self.frames:
            fr = self.frames[-1]
            for d in fr.dead:
                g.append(not_(d))
            for d in fr.rdead:
                g.append(Op("assume", not_(d)))
            for lc in fr.loop_stack:
                for d in lc.brk + lc.cont:
                    g.append(not_(d))
        return g

    def cur_guard_list(self, state=False):
        out = []
        for c in self.raw_guard_list():
            if isinstance(c, Op) and c.op == "assume":
                if state:
                    continue
                c = c.args[0]
            if isinstance(c, Op) and c.op == "and":
                out.extend(c.args)
            else:
                out.append(c)
        return out

    def resolved_guard(self):
        """the conjuncts of the current path plus what unit resolution derives from them:
        not(a and b) with b known gives not a (only used to decide conditionals, never stored in events)"""
        out = self.cur_guard_list()
        for _ in range(4):
            known = set(out)
            changed = False
            for c in list(out):
                if isinstance(c, Op) and c.op == "not" and isinstance(c.args[0], Op) and c.args[0].op == "and":
                    rest = [a for a in c.args[0].args if a not in known]
                    if len(rest) == 1 and len(rest) < len(c.args[0].args):
                        r = not_(rest[0])
                        for x in (r.args if isinstance(r, Op) and r.op == "and" else (r,)):
                            if x not in known:
                                out.append(x)
                                known.add(x)
                                changed = True
            if not changed:
                break
        return out

    def cur_guard(self):
        return and_(*self.cur_guard_list())

    def rel_guard(self, born):
        """state guard minus the prefix that already held when `born` was taken"""
        g = flat_set(self.cur_guard_list(state=True))
        known = flat_set(born)
        return and_(*[c for c in self._ordered(g) if c not in known])

    def _ordered(self, conj_set):
        """deterministic order: as in the current flattened guard"""
        out = []
        for c in self.cur_guard_list(state=True):
            for x in (c.args if isinstance(c, Op) and c.op == "and" else (c,)):
                if x in conj_set and x not in out:
                    out.append(x)
        return out

    def rel_guard_loop(self, born, L):
        """like rel_guard, additionally dropping the conjuncts that merely say
        'the loop body of L is executing' (loop condition and everything before it)"""
        g = flat_set(self.cur_guard_list(state=True))
        known = flat_set(born) | getattr(L, "own_conds", set())
        return and_(*[c for c in self._ordered(g) if c not in known])

    def born_now(self):
        return tuple(self.cur_guard_list(state=True))

    def local_guard(self, state=True):
        """guard relative to the current frame entry"""
        fr = self.frames[-1]
        raw = self.raw_guard_list()[fr.base_guard_len:]
        out = []
        for c in raw:
            if isinstance(c, Op) and c.op == "assume":
                if not state:
                    out.append(c.args[0])
            else:
                out.append(c)
        return and_(*out)

    def feasible(self):
        return self.cur_guard() != FALSE

    def event(self, kind, data, node=None):
        fr = self.frames[-1] if self.frames else None
        ev = Event(kind, self.cur_guard(), data, tuple(self.loop_ctx),
                   fr.finfo.qual if fr and fr.finfo else (fr.modname if fr else "?"), node,
                   len(self.events), self.call_stack())
        self.events.append(ev)
        return ev

    def call_stack(self):
        return tuple(f.finfo.qual for f in self.frames if f.finfo is not None)

    def simp(self, v):
        """resolve top-level Ite whose condition is decided by the current guard"""
        if isinstance(v, Ite) and isinstance(v.b, Ite):
            v = self.simp_chain(v)
        n = 0
        while isinstance(v, Ite) and n < 50:
            g = self.cur_guard_list()
            if v.c in g:
                v = v.a
            elif not_(v.c) in g:
                v = v.b
            else:
                sub_and = v.c.args if isinstance(v.c, Op) and v.c.op == "and" else None
                if sub_and and all(x in g for x in sub_and):
                    v = v.a
                elif sub_and and any(not_(x) in g for x in sub_and):
                    v = v.b
                elif self._excluded_by_equalities(sub_and or (v.c,), g):
                    v = v.b
                elif True:
                    # decide with what unit resolution derives from the guard (not(a and b) with a known gives not b)
                    g2 = set(self.resolved_guard())
                    parts = sub_and or (v.c,)
                    if all(x in g2 for x in parts):
                        v = v.a
                    elif any(not_(x) in g2 for x in parts):
                        v = v.b
                    else:
                        break
                else:
                    break
            n += 1
        return v

    @staticmethod
    def _excluded_by_equalities(parts, g):
        """the path already fixes X == k: a condition that needs X == k' (another constant) cannot hold"""
        eqs = None
        for p in parts:
            if isinstance(p, Op) and p.op == "eq" and len(p.args) == 2 and isinstance(p.args[1], Const) and not isinstance(p.args[0], Const):
                if eqs is None:
                    eqs = {c.args[0]: c.args[1] for c in g if isinstance(c, Op) and c.op == "eq" and len(c.args) == 2 and
                           isinstance(c.args[1], Const)}
                k = eqs.get(p.args[0])
                if k is not None and k != p.args[1] and type(k.v) is type(p.args[1].v):
                    return True
        return False

    def simp_chain(self, v, depth=0):
        """ite(and(G, c), A, ite(and(G, not c), B, U)) under a guard that contains G is ite(c, A, B): conjuncts of the
        conditions that the current path already guarantees are dropped along the else-chain"""
        if not isinstance(v, Ite) or depth > 12:
            return v
        g = set(self.cur_guard_list())
        parts = list(v.c.args) if isinstance(v.c, Op) and v.c.op == "and" else [v.c]
        if any(not_(p) in g for p in parts):
            return self.simp_chain(v.b, depth + 1)
        rest = [p for p in parts if p not in g]
        if not rest:
            return v.a
        if len(rest) == len(parts) and not isinstance(v.b, Ite):
            return v
        return ite(and_(*rest), v.a, self.simp_chain(v.b, depth + 1))

    def truth(self, v):
        v = self.simp(v)
        if isinstance(v, Ref):
            o = self.heap[v.oid]
            if isinstance(o, ListObj):
                if not o.items:
                    return FALSE
                if any(i[0] == "v" and i[2] == TRUE and not (isinstance(i[1], Op) and (i[1].op == "splat" or i[1].op.startswith("listmut:")))
                       for i in o.items):
                    return TRUE
                return Op("truthy", v)
            if isinstance(o, DictObj):
                if not o.entries:
                    return FALSE
                if any(g == TRUE and not lc for _, _, g, lc in o.entries):
                    return TRUE
                return Op("truthy", v)
            if isinstance(o, Instance):
                # a class that defines __bool__ or __len__ decides its own truth value
                if isinstance(self.class_attr(o.cls, "__bool__"), FuncV):
                    return self.truth(self.call_method(v, "__bool__", [], {}, getattr(self, "cur_node", None)))
                if isinstance(self.class_attr(o.cls, "__len__"), FuncV):
                    ln = self.call_method(v, "__len__", [], {}, getattr(self, "cur_node", None))
                    return not_(compare("eq", ln, Const(0)))
            return TRUE
        if isinstance(v, Op) and v.op == "flagval":
            return not_(compare("eq", v.args[1], Const(0)))
        if isinstance(v, Op) and v.op == "bool":
            return self.truth(v.args[0])
        t = truthy(v)
        if t is None:
            if isinstance(v, Ite):
                return ite(v.c, self.truth(v.a), self.truth(v.b))
            return Op("truthy", v)
        return t

    # ---------------------------------------------------------- modules
    def module_ns(self, name):
        if name in self.mod_ns:
            return self.mod_ns[name]
        if name not in self.prog.modules:
            return None
        ns = {}
        self.mod_ns[name] = ns
        m = self.prog.modules[name]
        fr = Frame(None, ns, name)
        saved = (self.guard, self.loop_ctx, self.frames, getattr(self, "alloc_ctx", None))
        self.guard, self.loop_ctx, self.frames = [], [], [fr]
        self.alloc_ctx = "module " + name
        oid0 = self.next_oid
        try:
            self.exec_block(m.tree.body)
        finally:
            self.guard, self.loop_ctx, self.frames, self.alloc_ctx = saved
            self.pin_from(oid0)
        return ns

    def import_name(self, modname, attr=None):
        """value for `import modname` / `from modname import attr`"""
        if self.prog.is_repo_module(modname):
            if attr is None:
                return ModuleV(modname)
            sub_mod = modname + "." + attr
            ns = self.module_ns(modname) if modname in self.prog.modules else None
            if ns is not None and attr in ns:
                return ns[attr]
            if self.prog.is_repo_module(sub_mod):
                return ModuleV(sub_mod)
            return Undef(attr)
        return Ext(modname if attr is None else modname + "." + attr)

    # ---------------------------------------------------------- variables
    def load_name(self, name, node=None):
        fr = self.frames[-1]
        if name in fr.env and name not in fr.globals_decl:
            v = self.simp(fr.env[name])
            if isinstance(v, Undef) and fr.finfo is not None and not name.startswith("<") and node is not None and \
                    not getattr(self, "_quiet_unbound", False) and not str(v.name).startswith("None."):
                # bound on other paths only: UnboundLocalError on this one
                self.event("raise", (Op("UnboundLocalError", Const(name)),), node)
                self.note_raise(self.local_guard(state=True))
            return v
        # closure frames (nested functions / comprehensions)
        for f in reversed(self.frames[:-1]):
            if f.finfo is not None and fr.finfo is not None and fr.finfo.parent is f.finfo and name in f.env:
                return f.env[name]
        # an escaped closure (returned generator / callback called after its definer returned)
        cf = getattr(fr.finfo, "closure_frame", None) if fr.finfo is not None else None
        hops = 0
        while cf is not None and hops < 8:
            if name in cf.env:
                return cf.env[name]
            cf = getattr(cf.finfo, "closure_frame", None) if cf.finfo is not None else None
            hops += 1
        ns = self.module_ns(fr.modname) if fr.modname in self.prog.modules else fr.env
        if ns is not None and name in ns:
            return ns[name]
        if name == "__name__":
            return Const(fr.modname)
        if name == "__file__":
            return Op("modfile", Const(fr.modname))
        if name in BUILTIN_NAMES or name in _PY_BUILTINS:
            return Ext("builtins." + name)
        if fr.finfo is not None and not name.startswith("<"):
            # unbound name: NameError at run time
            self.event("raise", (Op("NameError", Const(name)),), node)
            self.note_raise(self.local_guard(state=True))
        return Undef(name)

    def store_name(self, name, val):
        fr = self.frames[-1]
        if name in fr.globals_decl:
            ns = self.module_ns(fr.modname)
            old = ns.get(name, Undef(name))
            g = self.cur_guard()
            ns[name] = ite(g, val, old)
            self.event("global_store", (fr.modname, name, val))
            if self.writelog is not None:
                self.writelog.add(("global", fr.modname, name))
            return
        g = self.local_guard()
        old = fr.env.get(name)
        if old is None or g == TRUE:
            fr.env[name] = val if g == TRUE else ite(g, val, Undef(name))
        else:
            fr.env[name] = ite(g, val, old)
        if self.writelog is not None:
            self.writelog.add(("local", id(fr), name))

    def get_attr(self, obj, name, node=None):
        obj = self.simp(obj)
        if isinstance(obj, Ite):
            return ite(obj.c, self.get_attr(obj.a, name, node), self.get_attr(obj.b, name, node))
        if isinstance(obj, Op) and obj.op == "structobj" and name in ("size", "format"):
            return Const(self.struct_layout(obj.args[0].v)[1]) if name == "size" else obj.args[0]
        if isinstance(obj, Op) and obj.op == "loopret" and len(obj.args) == 2 and isinstance(self.simp(obj.args[1]), Ref):
            # an object handed out of a loop by `return`: its attributes are those it had in the returning iteration
            inner = self.get_attr(obj.args[1], name, node)
            if isinstance(inner, FuncV):
                return FuncV(inner.info, obj) if inner.selfv is not None and not isinstance(inner.selfv, ClassV) else inner
            if isinstance(inner, (Const, Undef, Ext, ClassV)):
                return inner
            return Op("loopret", obj.args[0], inner)
        if isinstance(obj, Ref):
            o = self.heap[obj.oid]
            if isinstance(o, Instance):
                if name in o.attrs:
                    if name == "data" and o.cls.name == "DataStream" and self.frames and self.frames[-1].finfo is not None \
                            and self.frames[-1].finfo.cls is not o.cls:
                        self.event("stream_data_read", (obj, o.attrs[name]), node)
                    return self.simp(o.attrs[name])
                cv = self.class_attr(o.cls, name)
                if isinstance(cv, Op) and cv.op == "staticfn":
                    return cv.args[0]               # name = staticmethod(function) in the class body
                if cv is not None:
                    if isinstance(cv, FuncV):
                        if "staticmethod" in cv.info.deco:
                            return FuncV(cv.info)
                        if "classmethod" in cv.info.deco:
                            return FuncV(cv.info, ClassV(o.cls))
                        if "property" in cv.info.deco or "cached_property" in cv.info.deco:
                            return self.call_func(cv.info, obj, [], {}, node)
                        return FuncV(cv.info, obj)
                    return cv
                return Undef(name)
            flds = getattr(o, "fields", None)
            if flds and name in flds and isinstance(o, ListObj):
                return o.items[flds.index(name)][1]
            ntc = getattr(o, "ntclass", None)
            if ntc is not None:
                # a NamedTuple class with methods / properties / class-level constants
                cv = self.class_attr(ntc, name)
                if cv is not None:
                    if isinstance(cv, FuncV):
                        if "staticmethod" in cv.info.deco:
                            return FuncV(cv.info)
                        if "classmethod" in cv.info.deco:
                            return FuncV(cv.info, ClassV(ntc))
                        if "property" in cv.info.deco or "cached_property" in cv.info.deco:
                            return self.call_func(cv.info, obj, [], {}, node)
                        return FuncV(cv.info, obj)
                    return cv
                if name == "_fields":
                    return Const(tuple(flds or ()))
            return Op("bound", obj, Const(name))
        if isinstance(obj, ModuleV):
            ns = self.module_ns(obj.name) if obj.name in self.prog.modules else None
            if ns is not None and name in ns:
                return ns[name]
            subm = obj.name + "." + name
            if self.prog.is_repo_module(subm):
                return ModuleV(subm)
            if name == "__file__":
                return Op("modfile", Const(obj.name))
            return Undef(name)
        if isinstance(obj, ClassV):
            if obj.info.is_enum:
                mem = self.class_attr(obj.info, name)
                if mem is not None and not isinstance(mem, FuncV):
                    return Op("enum", Const(obj.info.qual), Const(name), mem)
            cv = self.class_attr(obj.info, name)
            if cv is not None:
                if isinstance(cv, FuncV) and "classmethod" in cv.info.deco:
                    return FuncV(cv.info, obj)
                return cv
            if name == "_make" and any(b.split(".")[-1] == "NamedTuple" for b in obj.info.bases):
                return Op("bound", obj, Const("_make"))         # Cls._make taken as a value (map(Cls._make, rows))
            return Undef(name)
        if isinstance(obj, Op) and obj.op == "flagval" and name == "value":
            return obj.args[1]
        if isinstance(obj, Op) and obj.op == "enum":
            if name == "value":
                return obj.args[2]
            if name == "name":
                return obj.args[1]
            # methods / properties defined on the enumeration class
            try:
                eci = self.prog.cls(obj.args[0].v)
            except Exception:
                eci = None
            cv = self.class_attr(eci, name) if eci is not None else None
            if isinstance(cv, FuncV):
                if "staticmethod" in cv.info.deco:
                    return FuncV(cv.info)
                if "classmethod" in cv.info.deco:
                    return FuncV(cv.info, ClassV(eci))
                if "property" in cv.info.deco or "cached_property" in cv.info.deco:
                    return self.call_func(cv.info, obj, [], {}, node)
                return FuncV(cv.info, obj)
        if isinstance(obj, Ext):
            return Ext(obj.name + "." + name)
        if isinstance(obj, Const) and obj.v is None:
            return Undef("None." + name)       # (an attribute of None: no value, but not an unbound name)
        if isinstance(obj, Undef):
            return obj
        if isinstance(obj, Const) and isinstance(obj.v, (str, bytes)) and hasattr(obj.v, name):
            return Op("bound", obj, Const(name))       # ''.join, b''.join, ' '.join ... taken as a value
        return Op("attr:" + name, obj)

    def class_ns(self, cinfo):
        key = "<class>" + cinfo.qual
        if key in self.mod_ns:
            return self.mod_ns[key]
        ns = {}
        self.mod_ns[key] = ns
        fr = Frame(None, ns, cinfo.module.name)
        # class body sees module globals through load_name fallback
        saved = (self.guard, self.loop_ctx, self.frames, getattr(self, "alloc_ctx", None))
        self.guard, self.loop_ctx, self.frames = [], [], [fr]
        self.alloc_ctx = "class " + cinfo.qual
        oid0 = self.next_oid
        try:
            for st in cinfo.node.body:
                if isinstance(st, (ast.FunctionDef, ast.AsyncFunctionDef)):
                    ns[st.name] = FuncV(cinfo.methods[st.name])
                else:
                    self.exec_stmt(st)
        finally:
            self.guard, self.loop_ctx, self.frames, self.alloc_ctx = saved
            self.pin_from(oid0)
        return ns

    def class_attr(self, cinfo, name):
        if cinfo is None or getattr(cinfo, "node", None) is None:
            return None
        ns = self.class_ns(cinfo)
        if name in ns:
            return ns[name]
        for b in cinfo.bases:
            bv = self.module_ns(cinfo.module.name).get(b.split(".")[0]) if "." not in b else None
            if isinstance(bv, ClassV):
                r = self.class_attr(bv.info, name)
                if r is not None:
                    return r
        return None

    def set_attr(self, obj, name, val, node=None):
        obj = self.simp(obj)
        if isinstance(obj, Ite):
            # store under each alternative
            self.guard.append(obj.c)
            if self.feasible():
                self.set_attr(obj.a, name, val, node)
            self.guard.pop()
            self.guard.append(not_(obj.c))
            if self.feasible():
                self.set_attr(obj.b, name, val, node)
            self.guard.pop()
            return
        if isinstance(obj, Ref) and isinstance(self.heap[obj.oid], Instance):
            o = self.heap[obj.oid]
            self.note_mutation(obj, o, "attribute ." + name, node, (val,))
            g = self.rel_guard(o.born)
            old = o.attrs.get(name)
            if old is None:
                cv = self.class_attr(o.cls, name)
                old = cv if (cv is not None and not isinstance(cv, FuncV)) else Undef(name)
            o.attrs[name] = ite(g, val, old)
            if self.writelog is not None:
                self.writelog.add(("attr", obj.oid, name))
            self.event("attr_store", (obj, name, val), node)
            return
        if isinstance(obj, ClassV):
            ns = self.class_ns(obj.info)
            ns[name] = ite(self.cur_guard(), val, ns.get(name, Undef(name)))
            self.event("class_store", (obj.info.qual, name, val), node)
            if self.writelog is not None:
                self.writelog.add(("classattr", obj.info.qual, name))
            return
        if isinstance(obj, ModuleV):
            ns = self.module_ns(obj.name)
            if ns is not None:
                ns[name] = ite(self.cur_guard(), val, ns.get(name, Undef(name)))
            self.event("global_store", (obj.name, name, val), node)
            return
        self.event("ext_attr_store", (obj, name, val), node)


CONTAINER_MUTATORS = {"append", "extend", "insert", "sort", "reverse", "pop", "remove", "clear", "update", "setdefault", "popitem",
                      "add", "discard"}

BUILTIN_NAMES = {
    "len", "int", "str", "hex", "chr", "ord", "bytes", "bytearray", "memoryview", "list", "tuple",
    "dict", "set", "range", "enumerate", "sorted", "isinstance", "print", "open", "min", "max",
    "bool", "exit", "quit", "Exception", "ValueError", "KeyError", "ImportError", "IndexError",
    "ModuleNotFoundError", "AssertionError", "TypeError", "OSError", "RuntimeError", "repr",
    "format", "any", "all", "sum", "zip", "map", "filter", "reversed", "abs", "getattr", "setattr",
    "hasattr", "eval", "exec", "__import__", "globals", "locals", "vars", "super", "object",
    "type", "id", "iter", "next", "round", "divmod", "float", "frozenset", "callable", "input",
    "BaseException", "StopIteration", "AttributeError", "NameError", "UnicodeDecodeError",
    "NotImplementedError", "SystemExit", "KeyboardInterrupt", "FileNotFoundError", "IOError",
    "OverflowError", "ZeroDivisionError", "LookupError", "ArithmeticError", "__name__", "__file__",
    "property", "staticmethod", "classmethod", "slice", "bin", "oct", "ascii", "compile",
}

import builtins as _b
_PY_BUILTINS = set(dir(_b))

BINOPS = {ast.Add: "add", ast.Sub: "sub", ast.Mult: "mul", ast.FloorDiv: "floordiv", ast.Mod: "mod",
          ast.LShift: "lshift", ast.RShift: "rshift", ast.BitAnd: "bitand", ast.BitOr: "bitor",
          ast.BitXor: "bitxor", ast.Pow: "pow", ast.Div: "truediv", ast.MatMult: "matmul"}
CMPOPS = {ast.Eq: "eq", ast.NotEq: "ne", ast.Lt: "lt", ast.LtE: "le", ast.Gt: "gt", ast.GtE: "ge",
          ast.In: "in", ast.NotIn: "notin", ast.Is: "is", ast.IsNot: "isnot"}


def _expr_methods(cls):
    return cls


class _ExprMixin:
    # ------------------------------------------------------------ expressions
    def ev(self, node):
        m = getattr(self, "ev_" + type(node).__name__, None)
        if m is None:
            fr = self.frames[-1] if self.frames else None
            raise AnalysisError("python construct not modelled by the interpreter: %s expression at %s:%s" % (
                type(node).__name__, fr.finfo.qual if fr is not None and fr.finfo else (fr.modname if fr else "?"),
                getattr(node, "lineno", "?")))
        return m(node)

    def ev_Constant(self, n):
        return Const(n.value)

    def ev_Name(self, n):
        return self.load_name(n.id, n)

    def ev_Attribute(self, n):
        return self.get_attr(self.ev(n.value), n.attr, n)

    def ev_BinOp(self, n):
        a, b = self.ev(n.left), self.ev(n.right)
        op = BINOPS[type(n.op)]
        if op == "mod":
            if is_const(a, str) or (isinstance(a, Op) and a.op in ("fmt", "concat")):
                if not is_const(a, str) and any(isinstance(x_, Op) and x_.op in ("excobj", "elem", "call:os.path.join", "call:os.path.basename")
                                                for x_ in walk(a)):
                    # a %-format whose format string contains run-time text (a file name, an exception message): a '%' in that
                    # text is taken for a conversion (ValueError / TypeError)
                    self.event("raise", (Op("call:ValueError", Const("format string built from run-time text")),), n)
                    self.note_raise(self.local_guard(state=True))
                return pct_format(a, self.tuple_to_term(b))
        if op == "add":
            la, lb = self.as_list(a), self.as_list(b)
            if la is not None and lb is not None:
                return self.alloc(ListObj(self.born_now(), list(la.items) + list(lb.items), la.typ))
            # list + <opaque sequence>  /  <opaque sequence> + list: the opaque side is spliced in as a whole
            if la is not None and not isinstance(b, (Ref, Const)):
                return self.alloc(ListObj(self.born_now(), list(la.items) + [("v", Op("splat", b), TRUE)], la.typ))
            if lb is not None and not isinstance(a, (Ref, Const)):
                return self.alloc(ListObj(self.born_now(), [("v", Op("splat", a), TRUE)] + list(lb.items), lb.typ))
            for x, y, first in ((la, b, True), (lb, a, False)):
                if x is not None and isinstance(y, Const) and isinstance(y.v, tuple):
                    its = [("v", Const(e), TRUE) for e in y.v]
                    return self.alloc(ListObj(self.born_now(), (list(x.items) + its) if first else (its + list(x.items)), x.typ))
        if op == "mul":
            for x, y in ((a, b), (b, a)):
                if is_const(x, str) and not isinstance(y, Const):
                    return Op("strmul", x, y)
                lx = self.as_list(x)
                if lx is not None and lx.concrete():
                    if is_int(y):
                        return self.alloc(ListObj(self.born_now(), list(lx.items) * max(y.v, 0), lx.typ))
                    # [..] * n with a symbolic count: max(n, 0) copies of the known elements
                    return self.alloc(ListObj(self.born_now(), [("v", Op("splat", Op("listrep", x, y)), TRUE)], lx.typ))
        if op in ("bitand", "bitor", "bitxor"):
            fa, fb = self.flag_parts(a), self.flag_parts(b)
            if fa is not None and fb is not None and fa[0] == fb[0]:
                return Op("flagval", fa[0], binop(op, fa[1], fb[1]))
        return binop(op, a, b)

    def tuple_to_term(self, v):
        lo = self.as_list(v)
        if lo is not None and lo.concrete():
            return Op("tuple", *[i[1] for i in lo.items])
        return v

    def as_list(self, v):
        if isinstance(v, Ref) and isinstance(self.heap[v.oid], ListObj):
            return self.heap[v.oid]
        return None

    def ev_bool(self, node):
        """an expression evaluated for its truth value only (conditions): and / or / not combine truth values here, whereas
        as values  a or b  is one of its operands"""
        if isinstance(node, ast.BoolOp):
            return self.ev_BoolOp(node, boolean=True)
        if isinstance(node, ast.UnaryOp) and isinstance(node.op, ast.Not):
            return not_(self.ev_bool(node.operand))
        return self.truth(self.ev(node))

    def ev_UnaryOp(self, n):
        if isinstance(n.op, ast.Not):
            return not_(self.ev_bool(n.operand))
        v = self.ev(n.operand)
        if isinstance(n.op, ast.Not):
            return not_(self.truth(v))
        if isinstance(n.op, ast.USub):
            return sub(Const(0), v)
        if isinstance(n.op, ast.Invert):
            if is_int(v):
                return Const(~v.v)
            return Op("invert", v)
        return v

    def ev_BoolOp(self, n, boolean=False):
        vals = []
        isand = isinstance(n.op, ast.And)
        pushed = 0
        try:
            for e in n.values:
                v = self.ev_bool(e) if boolean else self.ev(e)
                vals.append(v)
                t = self.truth(v)
                # short circuit: later operands evaluated under the guard
                self.guard.append(t if isand else not_(t))
                pushed += 1
                if not self.feasible():
                    break
        finally:
            for _ in range(pushed):
                self.guard.pop()
        ts = [self.truth(v) for v in vals]
        if not boolean and len(vals) == len(n.values) and not all(isinstance(t, Const) for t in ts[:-1]) and \
                not all(self.boolish_value(v) for v in vals):
            # value semantics:  a or b  is  a if a else b ;  a and b  is  b if a else a   (defaults like `opt or fallback`)
            res = vals[-1]
            for v, t in zip(reversed(vals[:-1]), reversed(ts[:-1])):
                res = ite(t, v, res) if not isand else ite(t, res, v)
            return res
        if all(isinstance(t, Const) for t in ts[:-1]):
            # python value semantics when prefix decided
            for v, t in zip(vals, ts):
                if isinstance(t, Const) and bool(t.v) != isand:
                    return v
                if not isinstance(t, Const):
                    return v
            return vals[-1]
        return and_(*ts) if isand else or_(*ts)

    def boolish_value(self, v):
        from .terms import _boolish
        v = self.simp(v)
        if isinstance(v, Const):
            return isinstance(v.v, bool)
        if isinstance(v, Ite):
            return self.boolish_value(v.a) and self.boolish_value(v.b)
        return _boolish(v)

    def ev_Compare(self, n):
        left = self.ev(n.left)
        res = []
        for op, comp in zip(n.ops, n.comparators):
            right = self.ev(comp)
            res.append(self.cmp(CMPOPS[type(op)], left, right))
            left = right
        return and_(*res) if len(res) > 1 else res[0]

    def int_enum_value(self, t):
        """a member of an IntEnum / IntFlag class is its integer in comparisons and arithmetic"""
        if isinstance(t, Op) and t.op == "enum" and len(t.args) == 3 and is_const(t.args[0], str) and is_int(t.args[2]):
            try:
                ci = self.prog.cls(t.args[0].v)
            except Exception:
                ci = None
            if ci is not None and any(b.split(".")[-1] in ("IntEnum", "IntFlag") for b in ci.bases):
                return t.args[2]
        return t

    def cmp(self, op, a, b):
        if op in ("is", "isnot", "eq", "ne") and isinstance(a, Op) and isinstance(b, Op) and a.op == "enum" and b.op == "enum" and \
                a.args[0] == b.args[0]:
            same = a.args[1] == b.args[1]        # members of one enumeration are singletons
            return Const(same if op in ("is", "eq") else not same)
        fa, fb = self.flag_parts(a), self.flag_parts(b)
        if fa is not None and fb is not None and fa[0] == fb[0]:
            if op in ("in", "notin"):
                r = compare("eq", binop("bitand", fb[1], fa[1]), fa[1])     # every bit of a is set in b
                return r if op == "in" else not_(r)
            if op in ("eq", "ne", "is", "isnot"):
                r = compare("eq", fa[1], fb[1])
                return r if op in ("eq", "is") else not_(r)
        a, b = self.int_enum_value(a), self.int_enum_value(b)
        if op in ("is", "isnot") and (a == NONE or b == NONE):
            other = b if a == NONE else a
            if isinstance(other, (FuncV, ClassV, Ref)) or (isinstance(other, Op) and other.op in (
                    "sliceobj", "structobj", "partial", "namedtuple", "bound", "staticfn", "lambda", "itemgetter", "attrgetter",
                    "methodcaller", "enum", "re.compile", "call:re.compile")):
                return Const(op == "isnot")       # an object that exists is not None
            if isinstance(other, Lin) or (isinstance(other, Const) and other.v is not None) or (isinstance(other, Op) and other.op in (
                    "int_from_bytes", "len", "bitand", "bitor", "bitxor", "rshift", "lshift", "mul", "add", "sub", "mod", "floordiv", "fmt", "concat",
                    "int", "str", "m:hex", "m:decode", "m:strip", "m:rstrip", "m:lstrip", "m:upper", "m:lower", "chr", "ord", "b2i", "max", "min",
                    "count", "fv", "hex", "strdecode", "m:tobytes", "bytes", "abs")):
                return Const(op == "isnot")       # a number / text computed from the data is not None
        if op in ("eq", "ne"):
            # sequences of known length compare element by element
            sa_, sb_ = self.seq_elems(a), self.seq_elems(b)
            if sa_ is not None and sb_ is not None and (isinstance(a, Ref) or isinstance(b, Ref)):
                if len(sa_) != len(sb_):
                    return Const(op == "ne")
                r = and_(*[compare("eq", x, y) for x, y in zip(sa_, sb_)])
                return r if op == "eq" else not_(r)
        if op in ("in", "notin"):
            b2 = self.simp(b)
            if isinstance(b2, Const) and isinstance(b2.v, (tuple, list, frozenset)) and 0 < len(b2.v) <= 6 and not isinstance(a, Const) \
                    and all(isinstance(x, (str, int, bytes)) for x in b2.v):
                # x in ('a', 'b')  is  x == 'a' or x == 'b'
                r = or_(*[compare("eq", a, Const(x)) for x in b2.v])
                return r if op == "in" else not_(r)
            if isinstance(b2, Op) and b2.op == "range" and is_int(a) and all(is_int(x) for x in b2.args):
                r = a.v in range(*[x.v for x in b2.args])
                return Const(r if op == "in" else not r)
            if isinstance(b2, Ref):
                o = self.heap[b2.oid]
                if isinstance(o, Instance) and getattr(o, "cls", None) is not None and isinstance(self.class_attr(o.cls, "__contains__"), FuncV):
                    r = self.truth(self.call_value(FuncV(self.class_attr(o.cls, "__contains__").info, b2), [a], {}, None))
                    return r if op == "in" else not_(r)
                if isinstance(o, DictObj) and o.concrete() and isinstance(a, Const):
                    r = any(k == a for k, _, _, _ in o.entries)
                    return Const(r if op == "in" else not r)
                if isinstance(o, ListObj) and o.concrete() and isinstance(a, Const) and \
                        all(isinstance(i[1], Const) for i in o.items):
                    r = any(i[1] == a for i in o.items)
                    return Const(r if op == "in" else not r)
                if isinstance(o, ListObj) and o.concrete() and 0 < len(o.items) <= 6 and \
                        not any(isinstance(i[1], Ref) for i in o.items) and not isinstance(a, Ref):
                    # x in (a, b, c) over known elements: x == a or x == b or x == c
                    r = or_(*[compare("eq", a, i[1]) for i in o.items])
                    return r if op == "in" else not_(r)
                if self.is_dispatch_table(o):
                    r = or_(*[compare("eq", a, k) for k, _, _, _ in self.dedup(o)])
                    return r if op == "in" else not_(r)
                if isinstance(o, DictObj):
                    # membership in a cache-like dict: opaque but keyed on object
                    return Op(op, a, b2)
        return compare(op, a, b)

    def regex_of_match(self, m_, depth=0):
        """the constant pattern a match object comes from - directly, or as an element of a list every element of which
        is a match of one and the same constant expression"""
        if isinstance(m_, Op) and m_.op in ("m:fullmatch", "m:match", "m:search") and m_.args:
            rx = m_.args[0]
            pat = rx.args[0] if isinstance(rx, Op) and rx.op in ("re.compile", "call:re.compile") and rx.args else None
            return pat if is_const(pat, (str, bytes)) else None
        if isinstance(m_, Op) and m_.op == "elem" and isinstance(m_.args[0], Ref) and depth < 3:
            lo = self.as_list(m_.args[0])
            if lo is not None and lo.items:
                pats = {self.regex_of_match(it[1] if it[0] == "v" else it[2], depth + 1) for it in lo.items}
                if len(pats) == 1:
                    return pats.pop()
        return None

    def groups_elems(self, sv):
        """m.groups() of a match of a constant regular expression has as many elements as the expression has groups"""
        if isinstance(sv, Op) and sv.op == "m:groups" and len(sv.args) == 1:
            pat = self.regex_of_match(sv.args[0])
            if pat is not None:
                import re as _re
                try:
                    ng = _re.compile(pat.v).groups
                except Exception:
                    return None
                return [Op("getitem", sv, Const(i)) for i in range(ng)]
        return None

    def seq_elems(self, v):
        v = self.simp(v)
        if isinstance(v, Const) and isinstance(v.v, tuple):
            return [Const(x) for x in v.v]
        lo = self.as_list(v)
        if lo is not None and lo.concrete() and lo.typ in ("tuple", "list"):
            return [i[1] for i in lo.items]
        return None

    def ev_IfExp(self, n):
        c = self.ev_bool(n.test)
        if isinstance(c, Const):
            return self.ev(n.body if c.v else n.orelse)
        self.guard.append(c)
        a = self.ev(n.body) if self.feasible() else Undef()
        self.guard.pop()
        self.guard.append(not_(c))
        b = self.ev(n.orelse) if self.feasible() else Undef()
        self.guard.pop()
        return ite(c, a, b)

    def ev_JoinedStr(self, n):
        parts = []
        for v in n.values:
            if isinstance(v, ast.Constant):
                parts.append(Const(v.value))
            else:
                parts.append(self.ev_FormattedValue(v))
        return fmt(parts)

    def ev_FormattedValue(self, n):
        val = self.ev(n.value)
        spec = Const("")
        if n.format_spec is not None:
            spec = self.ev(n.format_spec)
        conv = {-1: "", 115: "s", 114: "r", 97: "a"}.get(n.conversion, "")
        return fv(val, spec, conv)

    def ev_Tuple(self, n):
        if any(isinstance(e, ast.Starred) for e in n.elts):
            return self.display_with_stars(n, "tuple")
        return self.mk_list([self.ev(e) for e in n.elts], "tuple")

    def ev_List(self, n):
        if any(isinstance(e, ast.Starred) for e in n.elts):
            return self.display_with_stars(n, "list")
        return self.mk_list([self.ev(e) for e in n.elts], "list")

    def display_with_stars(self, n, typ):
        """[a, *b, c]: built like a sequence of append / extend calls"""
        res = self.mk_list([], "list")
        o = self.heap[res.oid]
        for e in n.elts:
            if isinstance(e, ast.Starred):
                self.list_method(res, o, "extend", [self.ev(e.value)], {}, e)
            else:
                self.list_method(res, o, "append", [self.ev(e)], {}, e)
        o.typ = typ
        return res

    def ev_Set(self, n):
        return self.mk_list([self.ev(e) for e in n.elts], "set")

    def mk_list(self, vals, typ="list"):
        if typ == "tuple" and all(isinstance(v, Const) and not isinstance(v.v, (list, dict)) for v in vals):
            try:
                return Const(tuple(v.v for v in vals))
            except Exception:
                pass
        return self.alloc(ListObj(self.born_now(), [("v", v, TRUE) for v in vals], typ))

    def ev_Dict(self, n):
        d = DictObj(self.born_now())
        for k, v in zip(n.keys, n.values):
            if k is None:
                src = self.simp(self.ev(v))
                so = self.heap.get(src.oid) if isinstance(src, Ref) else None
                if not isinstance(so, DictObj):
                    raise AnalysisError("dict display with ** of a non-dictionary value (line %s)" % getattr(n, "lineno", "?"))
                d.entries.extend(so.entries)
                continue
            # (a member of an IntEnum is its integer as a dictionary key: it hashes and compares like it)
            d.entries.append((self.int_enum_value(self.ev(k)), self.ev(v), TRUE, ()))
        return self.alloc(d)

    def ev_Subscript(self, n):
        base = self.ev(n.value)
        if isinstance(n.slice, ast.Slice):
            lo = self.ev(n.slice.lower) if n.slice.lower else NONE
            hi = self.ev(n.slice.upper) if n.slice.upper else NONE
            st = self.ev(n.slice.step) if n.slice.step else NONE
            return self.getslice(base, lo, hi, st, n)
        return self.getitem(base, self.ev(n.slice), n)

    def getslice(self, base, lo, hi, st, node=None):
        base = self.simp(base)
        if isinstance(base, Ite):
            return ite(base.c, self.getslice(base.a, lo, hi, st, node), self.getslice(base.b, lo, hi, st, node))
        if isinstance(base, Undef):
            return base
        if isinstance(base, Const) and all(isinstance(x, Const) for x in (lo, hi, st)):
            try:
                return Const(base.v[slice(lo.v, hi.v, st.v)])
            except Exception:
                pass
        if isinstance(base, Op) and base.op in ("fmt", "concat") and base.args and is_const(base.args[0], str) \
                and st == NONE and (lo == NONE or is_int(lo)) and is_int(hi):
            pre = base.args[0].v
            l0 = 0 if lo == NONE else lo.v
            if 0 <= l0 <= hi.v <= len(pre):
                return Const(pre[l0:hi.v])
        lobj = self.as_list(base)
        if lobj is not None and lobj.concrete() and all(isinstance(x, Const) for x in (lo, hi, st)):
            items = lobj.items[slice(lo.v, hi.v, st.v)]
            return self.alloc(ListObj(self.born_now(), list(items), lobj.typ))
        # D[a:b][c:d] == D[a+c:a+d] for constants 0 <= c <= d <= b-a and a >= 0 (clamping at len(D) is the same on both sides)
        if isinstance(base, Op) and base.op == "getslice" and len(base.args) == 3 and st == NONE and base.args[1] != NONE \
                and base.args[2] != NONE and (lo == NONE or is_int(lo)) and is_int(hi):
            a, b = base.args[1], base.args[2]
            width = sub(b, a)
            c = 0 if lo == NONE else lo.v
            if is_int(width) and 0 <= c <= hi.v <= width.v and nonneg(a):
                return self.getslice(base.args[0], add(a, Const(c)), add(a, hi), NONE, node)
        r = Op("getslice", base, lo, hi) if st == NONE else Op("getslice", base, lo, hi, st)
        self.event("slice", (base, lo, hi, st), node)
        return r

    def getitem(self, base, idx, node=None):
        base = self.simp(base)
        if isinstance(base, Ref):
            o_ = self.heap.get(base.oid)
            if isinstance(o_, Instance) and getattr(o_, "cls", None) is not None and isinstance(self.class_attr(o_.cls, "__getitem__"), FuncV):
                return self.call_value(FuncV(self.class_attr(o_.cls, "__getitem__").info, base), [idx], {}, node)
        if isinstance(idx, Op) and idx.op == "sliceobj":
            return self.getslice(base, idx.args[0], idx.args[1], idx.args[2], node)
        if isinstance(base, Op) and base.op == "attr:args" and base.args and isinstance(base.args[0], Op) and base.args[0].op == "excobj" \
                and node is not None:
            # e.args[k] of a caught exception: exceptions raised without arguments (assert, raise KeyError) have none
            self.event("raise", (Op("call:IndexError", base, idx),), node)
            self.note_raise(self.local_guard(state=True))
        if isinstance(base, Ite):
            if any(isinstance(x, Const) and x.v is None for x in (base.a, base.b)):
                # one alternative is None: subscripting it raises TypeError on that path
                self.guard.append(base.c)
                a = self.getitem(base.a, idx, node) if self.feasible() else Undef()
                self.guard.pop()
                self.guard.append(not_(base.c))
                b = self.getitem(base.b, idx, node) if self.feasible() else Undef()
                self.guard.pop()
                return ite(base.c, a, b)
            return ite(base.c, self.getitem(base.a, idx, node), self.getitem(base.b, idx, node))
        if isinstance(base, Const) and base.v is None:
            self.event("raise", (Op("call:TypeError", Const("'NoneType' object is not subscriptable")),), node)
            self.note_raise(self.local_guard(state=True))
            return Undef()
        if isinstance(base, Const) and isinstance(idx, Const):
            if base.v is None:
                return Undef()
            try:
                return Const(base.v[idx.v])
            except Exception:
                return Op("getitem", base, idx)
        if isinstance(base, Ref):
            o = self.heap[base.oid]
            if isinstance(o, ListObj):
                if is_int(idx) and o.concrete():
                    try:
                        return o.items[idx.v][1]
                    except IndexError:
                        return Op("indexerror", base, idx)
                if idx == Const(-1) and o.items:
                    # xs[-1] right after xs.append(e): the element just appended (in the same iteration / on the same path)
                    last = o.items[-1]
                    if last[0] == "rep" and last[1] in self.loop_ctx and (last[3] == TRUE or last[3] in set(self.cur_guard_list())):
                        return last[2]
                    if last[0] == "v" and not (isinstance(last[1], Op) and (last[1].op == "splat" or last[1].op.startswith("listmut:"))) and \
                            (last[2] == TRUE or last[2] in set(self.cur_guard_list())):
                        return last[1]
                return Op("getitem", base, idx)
            if isinstance(o, DictObj):
                hit = o.lookup(idx)
                if isinstance(idx, Op) and idx.op == "enum" and o.prev_iter is None and o.entries and all(
                        (isinstance(k, Const) or (isinstance(k, Op) and k.op == "enum")) and g == TRUE and not lc for k, v, g, lc in o.entries):
                    # a literal table keyed by enumeration members, indexed with a member
                    if hit is not None:
                        return hit[0]
                    return Op("keyerror", base, idx)
                if hit is not None and isinstance(idx, Const):
                    v, g, lc = hit
                    if g == TRUE and not lc:
                        return v
                    return ite(g, v, Op("getitem", base, idx))
                if o.concrete() and isinstance(idx, Const):
                    return Op("keyerror", base, idx)
                if self.is_dispatch_table(o):
                    # small table of code objects (classes, functions, tuples of them) indexed by a data value:
                    # one alternative per key, so that what is called / stored next is known
                    ents = self.dedup(o)
                    none_of = and_(*[compare("ne", idx, k) for k, _, _, _ in ents])
                    self.guard.append(none_of)
                    missing = self.feasible()
                    self.guard.pop()
                    res = Undef("KeyError")
                    if missing:
                        self.event("raise", (Op("call:KeyError", idx),), node)
                        self.note_raise(and_(self.local_guard(state=True), none_of))
                    for k, v, _, _ in reversed(ents):
                        res = ite(compare("eq", idx, k), v, res)
                    return res
                if o.concrete() and o.entries:
                    # table lookup with symbolic key: keep table identity
                    return Op("getitem", base, idx)
                return Op("getitem", base, idx)
        if isinstance(base, Undef) or (isinstance(base, Const) and base.v is None):
            return Undef()
        if is_const(idx, str) and isinstance(base, Op):
            # key look-up in a mapping the analysis does not know (e.g. the result of an opaque decoder): may raise KeyError
            self.event("subscript", (base, idx), node)
        return Op("getitem", base, idx)

    def is_dispatch_table(self, o):
        if not (isinstance(o, DictObj) and o.concrete() and 0 < len(o.entries) <= 12):
            return False

        def code(v, depth=0):
            if isinstance(v, (FuncV, ClassV)):
                return True
            lo = self.as_list(v)
            return lo is not None and depth < 2 and any(code(i[1], depth + 1) for i in lo.items)
        return any(code(v) for _, v, _, _ in o.entries)

    def ev_ListComp(self, n):
        return self.comprehension(n, "list")

    def ev_GeneratorExp(self, n):
        return self.comprehension(n, "gen")

    def ev_SetComp(self, n):
        return self.comprehension(n, "set")

    def ev_DictComp(self, n):
        return self.comprehension(n, "dict")

    def comprehension(self, n, typ):
        # desugar into a loop appending to a fresh list
        res = self.alloc(DictObj(self.born_now()) if typ == "dict"
                         else ListObj(self.born_now(), [], "list" if typ != "set" else "set"))
        tmp = "<comp%d>" % res.oid
        self.heap[res.oid].comp = typ
        fr = self.frames[-1]
        fr.env[tmp] = res

        def build(gens):
            if not gens:
                if typ == "dict":
                    tgt = ast.Subscript(value=ast.Name(id=tmp, ctx=ast.Load()), slice=n.key, ctx=ast.Store())
                    st = ast.Assign(targets=[tgt], value=n.value)
                else:
                    call = ast.Call(func=ast.Attribute(value=ast.Name(id=tmp, ctx=ast.Load()), attr="append",
                                                       ctx=ast.Load()), args=[n.elt], keywords=[])
                    st = ast.Expr(value=call)
                return [st]
            g = gens[0]
            body = build(gens[1:])
            for cond in reversed(g.ifs):
                body = [ast.If(test=cond, body=body, orelse=[])]
            return [ast.For(target=g.target, iter=g.iter, body=body, orelse=[])]
        stmts = build(n.generators)
        for st in stmts:
            ast.copy_location(st, n)
            ast.fix_missing_locations(st)
        saved = dict((k, fr.env.get(k)) for k in self.target_names(n.generators))
        self.exec_block(stmts)
        for k, v in saved.items():
            if v is None:
                fr.env.pop(k, None)
            else:
                fr.env[k] = v
        fr.env.pop(tmp, None)
        return res

    def target_names(self, gens):
        out = []
        for g in gens:
            for x in ast.walk(g.target):
                if isinstance(x, ast.Name):
                    out.append(x.id)
        return out

    def ev_Lambda(self, n):
        """a lambda is an anonymous nested function: def <lambda>(args): return <body>"""
        cache = self.__dict__.setdefault("_lambda_infos", {})
        fr = self.frames[-1]
        key = (id(n), id(fr))
        fi = cache.get(key)
        if fi is None:
            from .model import FuncInfo
            fn = ast.FunctionDef(name="<lambda:%d>" % getattr(n, "lineno", 0), args=n.args,
                                 body=[ast.Return(value=n.body)], decorator_list=[], returns=None, type_comment=None)
            try:
                fn.type_params = []
            except Exception:
                pass
            ast.copy_location(fn, n)
            ast.copy_location(fn.body[0], n)
            m = self.prog.modules.get(fr.modname)
            if m is None:
                return Op("lambda", Const(ast.unparse(n)))
            fi = FuncInfo(m, fn, parent=fr.finfo) if fr.finfo is not None else FuncInfo(m, fn)
            fi.closure_frame = fr if fr.finfo is not None else None
            fi._keep = fr       # keeps id(fr) unique for the cache key
            cache[key] = fi
        return FuncV(fi)

    def ev_Starred(self, n):
        return Op("starred", self.ev(n.value))

    def ev_NamedExpr(self, n):
        v = self.ev(n.value)
        self.assign(n.target, v)
        return v

    def ev_Await(self, n):
        return self.ev(n.value)

    def ev_Call(self, n):
        return self.call_node(n)


STR_METHODS = {"strip", "rstrip", "lstrip", "lower", "upper", "hex", "decode", "encode", "replace",
               "ljust", "rjust", "zfill", "startswith", "endswith", "split", "splitlines", "join",
               "isdecimal", "isdigit", "find", "index", "rfind", "count", "tobytes", "title",
               "center", "format", "to_bytes", "keys", "values", "items", "get", "fullmatch",
               "match", "search", "groups", "group", "end", "start", "readlines", "read", "copy",
               "isalpha", "isalnum", "capitalize", "partition", "rpartition", "removeprefix",
               "removesuffix", "bit_length", "from_bytes", "fromhex", "tolist", "cast"}


class _CallMixin:
    def call_node(self, n):
        fnode = n.func
        if isinstance(fnode, ast.Attribute) and fnode.attr == "from_iterable" and len(n.args) == 1 and not n.keywords and \
                isinstance(n.args[0], (ast.GeneratorExp, ast.ListComp)):
            f0 = self.ev(fnode)
            if isinstance(f0, Ext) and f0.name == "itertools.chain.from_iterable":
                # chain.from_iterable(e for ...)  ==  (x for ... for x in e)
                inner = n.args[0]
                nm = "<chainx%d>" % self.next_loop
                gens = list(inner.generators) + [ast.comprehension(target=ast.Name(id=nm, ctx=ast.Store()), iter=inner.elt, ifs=[], is_async=0)]
                node = ast.GeneratorExp(elt=ast.Name(id=nm, ctx=ast.Load()), generators=gens)
                ast.copy_location(node, n)
                ast.fix_missing_locations(node)
                try:
                    return self.ev(node)
                finally:
                    self.frames[-1].env.pop(nm, None)
        args = []
        for a in n.args:
            if isinstance(a, ast.Starred):
                v = self.ev(a.value)
                lo = self.as_list(v)
                if lo is not None and lo.concrete():
                    args.extend(i[1] for i in lo.items)
                elif isinstance(v, Const) and isinstance(v.v, tuple):
                    args.extend(Const(x) for x in v.v)
                elif self.concrete_iter(self.simp(v)) is not None and len(self.concrete_iter(self.simp(v))) <= UNROLL_MAX:
                    args.extend(self.concrete_iter(self.simp(v)))
                elif self.groups_elems(self.simp(v)) is not None:
                    args.extend(self.groups_elems(self.simp(v)))
                else:
                    args.append(Op("starred", v))
            else:
                args.append(self.ev(a))
        kwargs = {}
        for k in n.keywords:
            if k.arg is None:
                kv_ = self.simp(self.ev(k.value))
                do_ = self.heap.get(kv_.oid) if isinstance(kv_, Ref) else None
                if isinstance(do_, DictObj) and do_.concrete() and all(is_const(k_, str) for k_, _, _, _ in do_.entries):
                    # f(**{'a': x, 'b': y}) with a known dictionary: ordinary keyword arguments
                    for k_, v_, _, _ in self.dedup(do_):
                        kwargs[k_.v] = v_
                else:
                    kwargs["**"] = kv_
            else:
                kwargs[k.arg] = self.ev(k.value)
        # method call?
        if isinstance(fnode, ast.Attribute):
            recv = self.ev(fnode.value)
            if fnode.attr in CONTAINER_MUTATORS and isinstance(fnode.value, ast.Name) and isinstance(self.simp(recv), Op) and \
                    self.simp(recv).op in ("m:split", "m:splitlines", "m:readlines", "list", "sorted", "tuple_of", "reversed"):
                # a fresh list produced by an operation the analysis keeps symbolic (text.split(...)) is mutated in place
                # through its only name: from here on it is a tracked list whose first part is that symbolic sequence
                val = self.simp(recv)
                fr = self.frames[-1]
                if sum(1 for v in fr.env.values() if v is val or v == val) > 1:
                    raise AnalysisError("in-place %s() of an untracked list that has several names (line %s)" % (
                        fnode.attr, getattr(n, "lineno", "?")))
                recv = self.alloc(ListObj(self.born_now(), [("v", Op("splat", val), TRUE)], "list"))
                self.assign(fnode.value, recv, n)
            elif fnode.attr in ("sort", "reverse") and isinstance(fnode.value, ast.Name) and isinstance(self.simp(recv), (Ite, Op)):
                # x.sort() / x.reverse() where x is (on some path) a list the analysis keeps symbolic - e.g. the file names
                # of a directory listing: every such alternative becomes a tracked list so that the re-ordering is not lost
                def promote(v):
                    v = self.simp(v) if not isinstance(v, Ite) else v
                    if isinstance(v, Ite):
                        return ite(v.c, promote(v.a), promote(v.b))
                    if isinstance(v, Op) and v.op in ("getitem", "elem", "list", "m:split", "m:splitlines", "m:readlines", "sorted",
                                                     "tuple_of", "reversed", "call:os.listdir", "call:glob.glob"):
                        return self.alloc(ListObj(self.born_now(), [("v", Op("splat", v), TRUE)], "list"))
                    return v
                new_recv = promote(self.simp(recv))
                if new_recv != self.simp(recv):
                    recv = new_recv
                    self.assign(fnode.value, recv, n)
            return self.call_method(recv, fnode.attr, args, kwargs, n)
        f = self.ev(fnode)
        return self.call_value(f, args, kwargs, n)

    def call_method(self, recv, name, args, kwargs, node):
        recv = self.simp(recv)
        if name == "__contains__" and len(args) == 1 and not kwargs:
            return self.cmp("in", args[0], recv)
        if name == "__getitem__" and len(args) == 1 and not kwargs:
            return self.getitem(recv, args[0], node)
        if isinstance(recv, Ite):
            # distribute over alternatives (objects of different dynamic type)
            self.guard.append(recv.c)
            a = self.call_method(recv.a, name, args, kwargs, node) if self.feasible() else Undef()
            self.guard.pop()
            self.guard.append(not_(recv.c))
            b = self.call_method(recv.b, name, args, kwargs, node) if self.feasible() else Undef()
            self.guard.pop()
            return ite(recv.c, a, b)
        if isinstance(recv, Op) and recv.op == "loopret" and len(recv.args) == 2 and isinstance(self.simp(recv.args[1]), Ref):
            f = self.get_attr(recv, name, node)
            if isinstance(f, FuncV):
                return self.call_value(f, args, kwargs, node)
        if isinstance(recv, Op) and recv.op == "enum" and name not in ("value", "name"):
            f = self.get_attr(recv, name, node)
            if isinstance(f, FuncV):
                return self.call_value(f, args, kwargs, node)
        if isinstance(recv, Ref):
            o = self.heap[recv.oid]
            if isinstance(o, Instance):
                f = self.get_attr(recv, name, node)
                return self.call_value(f, args, kwargs, node)
            if isinstance(o, ListObj):
                flds = getattr(o, "fields", None)
                if flds and name in flds and o.concrete():
                    # a namedtuple field that holds a callable
                    return self.call_value(o.items[flds.index(name)][1], args, kwargs, node)
                ntc = getattr(o, "ntclass", None)
                if ntc is not None and isinstance(self.class_attr(ntc, name), FuncV):
                    return self.call_value(self.get_attr(recv, name, node), args, kwargs, node)
                if flds and name == "_replace" and o.concrete() and not args and set(kwargs) <= set(flds):
                    ref2 = self.alloc(ListObj(self.born_now(), [("v", kwargs.get(f_, it[1]), TRUE) for f_, it in zip(flds, o.items)], "tuple"))
                    self.heap[ref2.oid].fields = list(flds)
                    if ntc is not None:
                        self.heap[ref2.oid].ntclass = ntc
                    return ref2
                if flds and name == "_asdict" and o.concrete() and not args:
                    return self.x_dict([self.mk_list([self.mk_list([Const(f_), it[1]], "tuple") for f_, it in zip(flds, o.items)])], {}, node)
                return self.list_method(recv, o, name, args, kwargs, node)
            if isinstance(o, DictObj):
                return self.dict_method(recv, o, name, args, kwargs, node)
        if isinstance(recv, ClassV) and name == "_make" and len(args) == 1 and not kwargs and \
                any(b.split(".")[-1] == "NamedTuple" for b in recv.info.bases):
            # NamedTuple._make(iterable) is the class called with the elements
            src = self.simp(self.drain(args[0]))
            els = self.seq_elems(src) or self.concrete_iter(src) or self.groups_elems(src)
            if els is None:
                nf = len([st_ for st_ in recv.info.node.body if isinstance(st_, ast.AnnAssign) and isinstance(st_.target, ast.Name)])
                els = [self.getitem(src, Const(i_), node) for i_ in range(nf)]
            return self.instantiate(recv.info, list(els), {}, node)
        if isinstance(recv, (ModuleV, ClassV)):
            f = self.get_attr(recv, name, node)
            if isinstance(f, Undef):
                self.event("extcall", (repr(recv) + "." + name, tuple(args), kwargs), node)
                return Op("call:%s.%s" % (repr(recv), name), *args)
            return self.call_value(f, args, kwargs, node)
        if isinstance(recv, Ext):
            return self.call_ext(recv.name + "." + name, args, kwargs, node)
        if isinstance(recv, Op) and recv.op == "structobj":
            f = recv.args[0].v
            if name == "unpack" and len(args) == 1:
                return self.struct_unpack(f, args[0], Const(0), node)
            if name == "unpack_from" and args:
                start = args[1] if len(args) > 1 else kwargs.get("offset", Const(0))
                return self.struct_unpack(f, args[0], start, node, exact=False)
            if name == "iter_unpack" and len(args) == 1 and self.struct_layout(f) is not None:
                total = self.struct_layout(f)[1]
                ln = self.x_len([args[0]], {}, node)
                bad = compare("ne", binop("mod", ln, Const(total)), Const(0))
                if bad != FALSE and not self.len_multiple_of(ln, total):
                    self.guard.append(bad)
                    try:
                        if self.feasible():
                            self.event("raise", (Op("call:struct.error"),), node)
                            self.note_raise(self.local_guard(state=True))
                    finally:
                        self.guard.pop()
                return Op("iter_unpack", recv.args[0], args[0])
            raise AnalysisError("struct.Struct.%s is not modelled (line %s)" % (name, getattr(node, "lineno", "?")))
        if isinstance(recv, Op) and recv.op == "superobj":
            cinfo = self.prog.cls(recv.args[1].v)
            for b in cinfo.bases:
                bv = self.module_ns(cinfo.module.name).get(b.split(".")[0]) if "." not in b else None
                if isinstance(bv, ClassV):
                    f = self.class_attr(bv.info, name)
                    if isinstance(f, FuncV):
                        return self.call_func(f.info, recv.args[0], args, kwargs, node)
            if name == "__init__":
                return NONE          # object.__init__
            raise AnalysisError("super().%s: no repository base class defines it (line %s)" % (name, getattr(node, "lineno", "?")))
        if isinstance(recv, Op) and recv.op == "enum" and name in ("value", "name"):
            return self.get_attr(recv, name)
        # value methods (str/bytes/int/opaque)
        return self.value_method(recv, name, args, kwargs, node)

    def value_method(self, recv, name, args, kwargs, node):
        if name in CONTAINER_MUTATORS and isinstance(recv, Op) and recv.op in ("sorted", "list", "tuple_of", "reversed", "set", "dictget",
                                                                             "m:copy", "m:split", "m:splitlines", "m:readlines"):
            # the interpreter tracks container contents only for heap objects; losing this mutation would be unsound
            raise AnalysisError("in-place %s() of a container value the analysis does not track (%r, line %s)" % (
                name, recv, getattr(node, "lineno", "?")))
        if isinstance(recv, Const) and all(isinstance(a, Const) for a in args) and all(isinstance(a, Const) for a in kwargs.values()) \
                and (name in STR_METHODS or name in ("to_bytes", "bit_length", "bit_count")) and isinstance(recv.v, (str, bytes, int, tuple)) \
                and name != "format" and not isinstance(recv.v, bool):
            try:
                r = getattr(recv.v, name)(*[a.v for a in args], **{k_: a.v for k_, a in kwargs.items()})
                if isinstance(r, (str, bytes, int, bool, tuple, type(None))):
                    return Const(r)
                if isinstance(r, list):
                    return self.mk_list([Const(x) for x in r])
            except Exception:
                pass
        if name == "format":
            def _follow(base, path):
                v = base
                for is_attr, key in path:
                    v = self.get_attr(v, key, node) if is_attr else self.getitem(v, Const(key), node)
                return v
            if not is_const(recv, str) and any(isinstance(x_, Op) and x_.op == "excobj" for x_ in walk(recv)):
                # a format string that contains the text of a caught exception: any '{' / '}' in that text is taken for a
                # replacement field (ValueError / KeyError / IndexError)
                self.event("raise", (Op("call:ValueError", Const("format string built from an exception message")),), node)
                self.note_raise(self.local_guard(state=True))
            return str_format(recv, args, kwargs, _follow)
        if name in ("removeprefix", "removesuffix") and len(args) == 1 and is_const(args[0], (str, bytes)) and args[0].v and not kwargs:
            # canonical form: the test-and-slice idiom
            n_ = len(args[0].v)
            test_ = Op("m:startswith" if name == "removeprefix" else "m:endswith", recv, args[0])
            if isinstance(recv, Op) and recv.op in ("fmt", "concat") and is_const(args[0], str):
                # a text that is known to begin / end with a literal
                edge = recv.args[0] if name == "removeprefix" else recv.args[-1]
                if is_const(edge, str) and len(edge.v) >= n_:
                    test_ = Const(getattr(edge.v, "startswith" if name == "removeprefix" else "endswith")(args[0].v))
            if name == "removeprefix":
                return ite(test_, Op("getslice", recv, Const(n_), NONE), recv)
            return ite(test_, Op("getslice", recv, NONE, Const(-n_)), recv)
        if name in ("startswith", "endswith") and isinstance(recv, Op) and recv.op in ("fmt", "concat") and len(args) == 1 and is_const(args[0], str):
            edge = recv.args[0] if name == "startswith" else recv.args[-1]
            if is_const(edge, str) and len(edge.v) >= len(args[0].v):
                return Const(getattr(edge.v, name)(args[0].v))
        if name == "join":
            if args and isinstance(self.simp(args[0]), GenV):
                # sep.join(<generator object>): the elements the generator yields
                its_ = self.seq_items(args[0], node)
                lst_ = self.mk_list([])
                self.heap[lst_.oid].items = list(its_)
                self.heap[lst_.oid].comp = "gen"
                args = [lst_] + list(args[1:])
            lo = self.as_list(args[0]) if args else None
            if lo is not None and is_const(recv, str):
                parts = []
                simple = True
                for i, it in enumerate(lo.items):
                    if it[0] != "v" or it[2] != TRUE:
                        simple = False
                        break
                    if i:
                        parts.append(recv)
                    parts.append(it[1])
                if simple:
                    return fmt(parts) if parts else Const("")
                return Op("m:join", recv, Op("listsummary", *[self.item_term(it) for it in lo.items]))
        if name == "decode" and (args or kwargs):
            # b.decode(encoding, errors) is str(b, encoding, errors): one canonical form, error policy included
            return Op("strdecode", recv, *args, *[Op("kv", Const(x), y) for x, y in sorted(kwargs.items())])
        if name in ("hex", "decode", "tobytes", "strip", "rstrip", "lstrip", "lower", "upper", "encode") and not kwargs:
            return Op("m:" + name, recv, *args)
        # unknown object method: plugin / external behaviour
        kw = tuple(sorted(kwargs.items()))
        self.event("methcall", (recv, name, tuple(args), kw), node)
        if kw:
            return Op("m:" + name, recv, *args, Op("kw", *[Op("kv", Const(k), v) for k, v in kw]))
        return Op("m:" + name, recv, *args)

    def item_term(self, it):
        if it[0] == "v":
            return it[1] if it[2] == TRUE else Op("guarded", it[2], it[1])
        return Op("rep", Const(it[1].lid), it[2], it[3])

    def list_method(self, ref, o, name, args, kwargs, node):
        g = self.rel_guard(o.born)
        if name in ("append", "extend", "sort", "reverse", "insert", "pop", "remove", "clear", "add", "update", "discard"):
            self.note_mutation(ref, o, "list." + name, node, tuple(args))
        if name == "add" and o.typ == "set":
            name = "append"
        if name == "update" and o.typ == "set":
            name = "extend"
        if name == "append":
            lc = self.loop_ctx[-1] if self.loop_ctx else None
            if lc is not None and not self.loop_born_inside(o, lc):
                o.items.append(("rep", lc, args[0], self.rel_guard_loop(o.born, lc)))
            else:
                o.items.append(("v", args[0], g))
            if self.writelog is not None:
                self.writelog.add(("list", ref.oid))
            self.event("append", (ref, args[0]), node)
            return NONE
        if name == "extend" and isinstance(self.simp(args[0]), GenV):
            self.run_generator(self.simp(args[0]), lambda val: self.list_method(ref, o, "append", [val], {}, node), node)
            return NONE
        if name == "extend" and isinstance(args[0], Const) and isinstance(args[0].v, (tuple, list)):
            args = [self.mk_list([Const(x) for x in args[0].v])]
        if name == "extend":
            src = self.as_list(args[0])
            lc = self.loop_ctx[-1] if self.loop_ctx else None
            if src is not None and not (lc is not None and not self.loop_born_inside(o, lc)):
                for it in src.items:
                    if it[0] == "v":
                        o.items.append(("v", it[1], and_(g, it[2])))
                    else:
                        o.items.append(("rep", it[1], it[2], and_(g, it[3])))
            else:
                if lc is not None and not self.loop_born_inside(o, lc):
                    o.items.append(("rep", lc, Op("splat", args[0]), g))
                else:
                    o.items.append(("v", Op("splat", args[0]), g))
            self.event("extend", (ref, args[0]), node)
            if self.writelog is not None:
                self.writelog.add(("list", ref.oid))
            return NONE
        if name in ("sort", "reverse") and g == TRUE and not args and (not self.loop_ctx or self.loop_born_inside(o, self.loop_ctx[-1])):
            # in-place sort / reverse of the whole list: the list now holds sorted(<its previous contents>)
            src = self.alloc(ListObj(o.born, list(o.items), o.typ))
            kv = [Op("kv", Const(k), v) for k, v in sorted(kwargs.items())]
            o.items[:] = [("v", Op("splat", Op("sorted" if name == "sort" else "reversed", src, *kv)), TRUE)]
            self.event("listmut", (ref, name, tuple(args), tuple(sorted(kwargs.items()))), node)
            if name == "sort":
                self.event("sorted", (src, tuple(sorted(kwargs.items()))), node)
            if self.writelog is not None:
                self.writelog.add(("list", ref.oid))
            return NONE
        if name in ("sort", "reverse", "insert", "pop", "remove", "clear"):
            o.items.append(("v", Op("listmut:" + name, *args, *[Op("kv", Const(k), v) for k, v in sorted(kwargs.items())]), g))
            self.event("listmut", (ref, name, tuple(args), tuple(sorted(kwargs.items()))), node)
            if self.writelog is not None:
                self.writelog.add(("list", ref.oid))
            return NONE if name != "pop" else Op("m:pop", ref, *args)
        if name in ("index", "count", "copy"):
            return Op("m:" + name, ref, *args)
        return Op("m:" + name, ref, *args)

    def loop_born_inside(self, o, lc):
        return lc in getattr(o, "born_loops", ())

    def dict_method(self, ref, o, name, args, kwargs, node):
        if name == "get":
            key = args[0]
            dflt = args[1] if len(args) > 1 else NONE
            if isinstance(key, Const) and o.concrete():
                hit = o.lookup(key)
                return hit[0] if hit else dflt
            if self.is_dispatch_table(o) and all(isinstance(k_, Const) for k_, _, _, _ in o.entries):
                # table.get(<data value>[, default]) on a small table of code objects: one alternative per key
                res = dflt
                for k_, v_, _, _ in reversed(self.dedup(o)):
                    res = ite(compare("eq", key, k_), v_, res)
                return res
            return Op("dictget", ref, key, dflt)
        if name in ("update", "pop", "clear", "setdefault", "popitem"):
            self.note_mutation(ref, o, "dict." + name, node, tuple(args))
        if name == "update":
            src = self.simp(args[0]) if args else None
            g = self.rel_guard(o.born)
            lc = tuple(self.loop_ctx)
            if isinstance(src, Ref) and isinstance(self.heap[src.oid], DictObj):
                for k, v, g2, lc2 in self.heap[src.oid].entries:
                    o.entries.append((k, v, and_(g, g2), lc + tuple(lc2)))
            elif isinstance(src, GenV) or (isinstance(src, Ref) and isinstance(self.heap[src.oid], ListObj)) or \
                    (isinstance(src, Const) and isinstance(src.v, (tuple, list, dict))):
                # an iterable of (key, value) pairs
                n0 = len(o.entries)
                self.fill_dict(ref, o, src, node)
                if g != TRUE or lc:
                    o.entries[n0:] = [(k_, v_, and_(g, g_), tuple(lc) + tuple(x for x in l_ if x not in lc)) for k_, v_, g_, l_ in o.entries[n0:]]
            elif src is not None:
                o.entries.append((Op("**"), src, g, lc))
            for kk, vv in kwargs.items():
                self.setitem(ref, Const(kk), vv, node)
            self.event("dict_update", (ref, src), node)
            if self.writelog is not None:
                self.writelog.add(("dict", ref.oid))
            return NONE
        if name in ("keys", "values", "items"):
            if o.concrete():
                if name == "keys":
                    return self.mk_list([k for k, _, _, _ in self.dedup(o)])
                if name == "values":
                    return self.mk_list([v for _, v, _, _ in self.dedup(o)])
                return self.mk_list([self.mk_list([k, v], "tuple") for k, v, _, _ in self.dedup(o)])
            return Op("m:" + name, ref)
        if name in ("pop", "clear", "setdefault", "popitem"):
            g = self.rel_guard(o.born)
            o.entries.append((Op("dictmut:" + name, *args), NONE, g, tuple(self.loop_ctx)))
            self.event("dictmut", (ref, name, tuple(args)), node)
            if self.writelog is not None:
                self.writelog.add(("dict", ref.oid))
            return Op("m:" + name, ref, *args)
        return Op("m:" + name, ref, *args)

    def dedup(self, o):
        seen = {}
        for e in o.entries:
            seen[e[0]] = e
        return list(seen.values())

    # ----------------------------------------------------------- calling values
    def call_value(self, f, args, kwargs, node):
        f = self.simp(f)
        if isinstance(f, Ite):
            def branch(val, cond):
                self.guard.append(cond)
                try:
                    if not self.feasible():
                        return None
                    if isinstance(val, Undef):
                        # a name no path has bound: is this path possible at all?  (exhaustive if/elif/match chains)
                        from .pelx import unsat
                        if unsat(self.cur_guard())[0]:
                            return None
                    return self.call_value(val, args, kwargs, node)
                finally:
                    self.guard.pop()
            a = branch(f.a, f.c)
            b = branch(f.b, not_(f.c))
            if a is None and b is None:
                return Undef()
            if a is None:
                return b
            if b is None:
                return a
            return ite(f.c, a, b)
        if isinstance(f, FuncV):
            return self.call_func(f.info, f.selfv, args, kwargs, node)
        if isinstance(f, ClassV):
            return self.instantiate(f.info, args, kwargs, node)
        if isinstance(f, Ext):
            return self.call_ext(f.name, args, kwargs, node)
        if isinstance(f, Op) and f.op == "partial" and f.args:
            kw0 = {a.args[0].v: a.args[1] for a in f.args[1:] if isinstance(a, Op) and a.op == "kv"}
            pos0 = [a for a in f.args[1:] if not (isinstance(a, Op) and a.op == "kv")]
            kw0.update(kwargs)
            return self.call_value(f.args[0], pos0 + list(args), kw0, node)
        if isinstance(f, Op) and f.op == "staticfn":
            return self.call_value(f.args[0], args, kwargs, node)
        if isinstance(f, Op) and f.op.startswith("attr:") and len(f.args) == 1:
            # a method taken as a value from an object the analysis keeps symbolic (match = RE.match; match(line)):
            # calling it is calling the method
            return self.call_method(f.args[0], f.op[5:], list(args), dict(kwargs), node)
        if isinstance(f, Op) and f.op == "bound" and is_const(f.args[1], str):
            # a bound method taken as a value (d.__getitem__, lines.append, ...)
            if f.args[1].v == "__getitem__" and len(args) == 1 and not kwargs:
                return self.getitem(f.args[0], args[0], node)
            if f.args[1].v == "__contains__" and len(args) == 1 and not kwargs:
                return self.contains(args[0], f.args[0], node) if hasattr(self, "contains") else Op("in", args[0], f.args[0])
            return self.call_method(f.args[0], f.args[1].v, list(args), dict(kwargs), node)
        if isinstance(f, Op) and f.op == "methodcaller" and is_const(f.args[0], str) and args:
            return self.call_method(args[0], f.args[0].v, list(f.args[1:]) + list(args[1:]), dict(kwargs), node)
        if isinstance(f, Op) and f.op == "attrgetter" and len(f.args) == 1 and is_const(f.args[0], str) and len(args) == 1:
            v = args[0]
            for part in f.args[0].v.split("."):
                v = self.get_attr(v, part, node)
            return v
        if isinstance(f, Op) and f.op == "itemgetter" and len(f.args) == 1 and len(args) == 1:
            return self.getitem(args[0], f.args[0], node)
        if isinstance(f, Op) and f.op == "itemgetter" and len(f.args) > 1 and len(args) == 1 and \
                not any(isinstance(x, Op) and x.op == "starred" for x in f.args):
            return self.mk_list([self.getitem(args[0], x, node) for x in f.args], "tuple")
        if isinstance(f, Op) and f.op == "namedtuple":
            flds = f.args[1]
            names = None
            if isinstance(flds, Const) and isinstance(flds.v, tuple):
                names = list(flds.v)
            elif isinstance(flds, Const) and isinstance(flds.v, str):
                names = flds.v.replace(",", " ").split()
            else:
                lo = self.as_list(flds)
                if lo is not None and lo.concrete() and all(is_const(i[1], str) for i in lo.items):
                    names = [i[1].v for i in lo.items]
            if names is not None:
                vals = list(args) + [kwargs[n] for n in names[len(args):] if n in kwargs]
                if len(vals) == len(names):
                    ref = self.alloc(ListObj(self.born_now(), [("v", v, TRUE) for v in vals], "tuple"))
                    self.heap[ref.oid].fields = names
                    return ref
        if isinstance(f, Op) and f.op == "dictget":
            # function table dispatch:  parsers.get(key, default)(...)
            tbl = self.heap.get(f.args[0].oid) if isinstance(f.args[0], Ref) else None
            if isinstance(tbl, DictObj) and tbl.concrete():
                none_of = and_(*[compare("ne", f.args[1], k) for k, v, _, _ in self.dedup(tbl)])
                self.guard.append(none_of)
                try:
                    res = (self.call_value(f.args[2], args, kwargs, node) if self.feasible() else Undef()) \
                        if not isinstance(f.args[2], Const) else Op("call", f.args[2], *args)
                finally:
                    self.guard.pop()
                for k, v, _, _ in reversed(self.dedup(tbl)):
                    c = compare("eq", f.args[1], k)
                    self.guard.append(c)
                    r = self.call_value(v, args, kwargs, node) if self.feasible() else Undef()
                    self.guard.pop()
                    res = ite(c, r, res)
                return res
        self.event("dyncall", (f, tuple(args), tuple(sorted(kwargs.items()))), node)
        self.unknown_calls.append((f, node))
        return Op("call", f, *args)

    def flag_parts(self, t):
        """(class, integer value) of a member / combination of an enum.Flag class, else None"""
        if isinstance(t, Op) and t.op == "flagval":
            return t.args[0], t.args[1]
        if isinstance(t, Op) and t.op == "enum" and len(t.args) == 3 and is_const(t.args[0], str):
            try:
                ci = self.prog.cls(t.args[0].v)
            except Exception:
                return None
            if any(b.split(".")[-1] in ("Flag", "IntFlag") for b in ci.bases):
                return t.args[0], t.args[2]
        return None

    def instantiate(self, cinfo, args, kwargs, node):
        if cinfo.is_enum and len(args) == 1 and not kwargs and any(b.split(".")[-1] in ("Flag", "IntFlag") for b in cinfo.bases):
            # Flag(value): any combination of the defined bits; a plain Flag refuses other bits with ValueError (the STRICT
            # boundary, python >= 3.11), an IntFlag keeps them
            mask, known = 0, True
            for st in cinfo.node.body:
                if isinstance(st, ast.Assign) and len(st.targets) == 1 and isinstance(st.targets[0], ast.Name):
                    mv = self.class_attr(cinfo, st.targets[0].id)
                    if mv is not None and not isinstance(mv, FuncV):
                        if is_int(mv):
                            mask |= mv.v
                        else:
                            known = False
            if known:
                arg = self.simp(args[0])
                fp = self.flag_parts(arg)
                if fp is not None:
                    arg = fp[1]
                if any(b.split(".")[-1] == "Flag" for b in cinfo.bases):
                    stray = not_(compare("eq", binop("bitand", arg, Const(~mask)), Const(0)))
                    if stray != FALSE:
                        self.guard.append(stray)
                        try:
                            if self.feasible():
                                self.event("raise", (Op("call:ValueError", arg),), node)
                                self.note_raise(self.local_guard(state=True))
                        finally:
                            self.guard.pop()
                return Op("flagval", Const(cinfo.qual), arg)
        if cinfo.is_enum and len(args) == 1 and not kwargs:
            # Enum(value): the member with that value; ValueError when there is none
            ns = self.class_ns(cinfo) if hasattr(self, "class_ns") else None
            members = []
            for st in cinfo.node.body:
                if isinstance(st, ast.Assign) and len(st.targets) == 1 and isinstance(st.targets[0], ast.Name):
                    mv = self.class_attr(cinfo, st.targets[0].id)
                    if mv is not None and not isinstance(mv, FuncV):
                        members.append((st.targets[0].id, mv))
            if members and all(isinstance(mv, Const) for _, mv in members):
                arg = self.simp(args[0])
                conds = [compare("eq", arg, mv) for _, mv in members]
                none = and_(*[not_(c) for c in conds])
                if none != FALSE:
                    self.guard.append(none)
                    try:
                        if self.feasible():
                            self.event("raise", (Op("call:ValueError", arg),), node)
                            self.note_raise(self.local_guard(state=True))
                    finally:
                        self.guard.pop()
                res = Undef("enum")
                for (nm, mv), c in reversed(list(zip(members, conds))):
                    res = ite(c, Op("enum", Const(cinfo.qual), Const(nm), mv), res)
                return res
        if cinfo.is_enum:
            return Op("enumctor", Const(cinfo.qual), *args)
        base_exc = any(b.split(".")[-1].endswith(("Exception", "Error")) for b in cinfo.bases)
        if any(b.split(".")[-1] == "NamedTuple" for b in cinfo.bases):
            # class X(NamedTuple): annotated class-level names are the fields, in order; assigned values are defaults
            flds = [(st.target.id, st.value) for st in cinfo.node.body if isinstance(st, ast.AnnAssign) and isinstance(st.target, ast.Name)]
            vals = list(args)
            for nm, dflt in flds[len(args):]:
                if nm in kwargs:
                    vals.append(kwargs[nm])
                elif dflt is not None:
                    vals.append(self.ev_in_module(dflt, cinfo.module.name))
                else:
                    raise AnalysisError("%s(...) called without field %s" % (cinfo.qual, nm))
            if len(vals) != len(flds) or set(kwargs) - {nm for nm, _ in flds}:
                raise AnalysisError("%s(...) called with %d of %d fields" % (cinfo.qual, len(vals), len(flds)))
            ref = self.alloc(ListObj(self.born_now(), [("v", v, TRUE) for v in vals], "tuple"))
            self.heap[ref.oid].fields = [nm for nm, _ in flds]
            self.heap[ref.oid].ntclass = cinfo
            return ref
        inst = Instance(cinfo, self.born_now())
        ref = self.alloc(inst)
        init = self.class_attr(cinfo, "__init__")
        self.event("new", (cinfo.qual, ref, tuple(args)), node)
        decos = [ast.unparse(d) for d in cinfo.node.decorator_list]
        if not isinstance(init, FuncV) and any(d.split("(")[0].split(".")[-1] == "dataclass" for d in decos):
            # @dataclass: the generated __init__ stores the annotated fields in order (defaults / default factories)
            flds = [(st.target.id, st.value) for st in cinfo.node.body if isinstance(st, ast.AnnAssign) and isinstance(st.target, ast.Name)
                    and "ClassVar" not in ast.unparse(st.annotation)]
            if len(args) > len(flds) or set(kwargs) - {nm for nm, _ in flds}:
                raise AnalysisError("%s(...): arguments do not fit the dataclass fields" % cinfo.qual)
            for i, (nm, dflt) in enumerate(flds):
                if i < len(args):
                    v = args[i]
                elif nm in kwargs:
                    v = kwargs[nm]
                elif isinstance(dflt, ast.Call) and getattr(dflt.func, "id", getattr(dflt.func, "attr", "")) == "field":
                    kws = {k_.arg: k_.value for k_ in dflt.keywords}
                    if "default_factory" in kws:
                        v = self.call_value(self.ev_in_module(kws["default_factory"], cinfo.module.name), [], {}, node)
                    elif "default" in kws:
                        v = self.ev_in_module(kws["default"], cinfo.module.name)
                    else:
                        raise AnalysisError("%s(...) called without field %s" % (cinfo.qual, nm))
                elif dflt is not None:
                    v = self.ev_in_module(dflt, cinfo.module.name)
                else:
                    raise AnalysisError("%s(...) called without field %s" % (cinfo.qual, nm))
                inst.attrs[nm] = v
            post = self.class_attr(cinfo, "__post_init__")
            if isinstance(post, FuncV):
                self.call_func(post.info, ref, [], {}, node)
            return ref
        if isinstance(init, FuncV):
            self.call_func(init.info, ref, args, kwargs, node)
        elif base_exc:
            inst.attrs["args"] = self.mk_list(args, "tuple")
        else:
            # class X(namedtuple('X', [...])): the fields become attributes
            for b in cinfo.node.bases:
                if isinstance(b, ast.Call) and (getattr(b.func, "id", None) == "namedtuple" or getattr(b.func, "attr", None) == "namedtuple"):
                    nt = self.ev_in_module(b, cinfo.module.name)
                    names = None
                    if isinstance(nt, Op) and nt.op == "namedtuple" and len(nt.args) > 1:
                        flds = nt.args[1]
                        if isinstance(flds, Const) and isinstance(flds.v, tuple):
                            names = list(flds.v)
                        elif isinstance(flds, Const) and isinstance(flds.v, str):
                            names = flds.v.replace(",", " ").split()
                        else:
                            lo = self.as_list(flds)
                            if lo is not None and lo.concrete() and all(is_const(i[1], str) for i in lo.items):
                                names = [i[1].v for i in lo.items]
                    if names is None:
                        raise AnalysisError("namedtuple base of %s with non-constant fields" % cinfo.qual)
                    vals = list(args) + [kwargs[nm] for nm in names[len(args):] if nm in kwargs]
                    if len(vals) != len(names):
                        raise AnalysisError("%s(...) called with %d of %d fields" % (cinfo.qual, len(vals), len(names)))
                    for nm, v in zip(names, vals):
                        inst.attrs[nm] = v
        return ref

    def call_func(self, finfo, selfv, args, kwargs, node):
        if finfo.qual in self.opaque:
            self.event("opaquecall", (finfo.qual, tuple(args), tuple(sorted(kwargs.items()))), node)
            return Op("call:" + finfo.qual, *args, *[Op("kv", Const(k), v) for k, v in sorted(kwargs.items())])
        hook = self.hooks.get("on_call")
        if hook:
            r = hook(self, finfo, selfv, args, kwargs, node)
            if r is not None:
                return r
        if self.depth > MAX_DEPTH or any(fr.finfo is finfo for fr in self.frames[-3:]):
            self.event("opaquecall", (finfo.qual, tuple(args), ()), node)
            return Op("call:" + finfo.qual, *args)
        if not getattr(self, "_running_gen", False) and is_generator_func(finfo.node):
            return GenV(finfo, selfv, args, kwargs)
        a = finfo.node.args
        params = [x.arg for x in a.posonlyargs + a.args]
        env = {}
        allargs = ([selfv] if selfv is not None else []) + list(args)
        defaults = a.defaults
        ndef = len(defaults)
        for i, p in enumerate(params):
            if i < len(allargs):
                env[p] = allargs[i]
            elif p in kwargs:
                env[p] = kwargs[p]
            else:
                di = i - (len(params) - ndef)
                if 0 <= di < ndef:
                    env[p] = self.ev_in_module(defaults[di], finfo.module.name)
                else:
                    env[p] = Undef(p)
        if a.vararg:
            env[a.vararg.arg] = self.mk_list(allargs[len(params):], "tuple")
        for kw, d in zip(a.kwonlyargs, a.kw_defaults):
            if kw.arg in kwargs:
                env[kw.arg] = kwargs[kw.arg]
            elif d is not None:
                env[kw.arg] = self.ev_in_module(d, finfo.module.name)
        if a.kwarg:
            env[a.kwarg.arg] = Op("kwargs")
        fr = Frame(finfo, env, finfo.module.name)
        flat = self.raw_guard_list()
        fr.base_guard_len = len(flat)
        self.event("call", (finfo.qual, tuple(allargs), tuple(sorted(kwargs.items()))), node)
        gen_consumer = getattr(self, "_gen_consumer", None)
        if gen_consumer is not None:
            fr.on_yield, fr.consumer_frame = gen_consumer
            fr.gen_cm = getattr(self, "_gen_cm", False)
            self._gen_cm = False
            self._gen_consumer = None
        self._running_gen = False
        self.frames.append(fr)
        self.depth += 1
        saved_guard = self.guard
        saved_ctx = getattr(self, "alloc_ctx", None)
        self.alloc_ctx = None
        self.guard = flat
        try:
            self.exec_block(finfo.node.body)
        finally:
            self.guard = saved_guard
            self.alloc_ctx = saved_ctx
            self.depth -= 1
            self.frames.pop()
        # propagate "raised" deadness to the caller: conditions under which the callee
        # raised (not returned) kill the rest of the caller too
        raised = getattr(fr, "raised", [])
        if raised and self.frames:
            for r in raised:
                self.note_raise(r, from_callee=True)
        ret = fr.ret
        if not fr.ret_conds:
            return NONE
        # paths that fall off the end return None
        return self.finish_ret(fr)

    def finish_ret(self, fr):
        ret = fr.ret
        covered = or_(*fr.ret_conds)
        if covered == TRUE:
            return _strip_undef(ret)
        try:
            from .pelx import unsat
            # does some path fall off the end of the function?  (no exception so far is assumed)
            assumptions = [not_(d) for d in fr.rdead]
            if unsat(and_(not_(covered), *assumptions), budget=1 << 10)[0]:
                return _strip_undef(ret)
        except AnalysisError:
            pass
        return _strip_undef(ret, NONE)

    def ev_in_module(self, node, modname):
        key = ("default", id(node))
        cache = self.__dict__.setdefault("_defaults", {})
        if key in cache:
            return cache[key]
        fr = Frame(None, {}, modname)
        self.frames.append(fr)
        saved_ctx = getattr(self, "alloc_ctx", None)
        self.alloc_ctx = "default argument %s" % ast.unparse(node)
        try:
            v = self.ev(node)
        finally:
            self.frames.pop()
            self.alloc_ctx = saved_ctx
        cache[key] = v
        return v


def _strip_undef(t, repl=None):
    """ite chains built from returns end in Undef; replace by repl / drop"""
    if isinstance(t, Ite):
        if isinstance(t.b, Undef):
            return t.a if repl is None else ite(t.c, t.a, repl)
        if isinstance(t.a, Undef):
            return t.b if repl is None else ite(t.c, repl, t.b)
        return ite(t.c, _strip_undef(t.a, repl), _strip_undef(t.b, repl))
    if isinstance(t, Undef) and repl is not None:
        return repl
    return t


class _StmtMixin:
    # ------------------------------------------------------------ statements
    def exec_block(self, stmts):
        for st in stmts:
            if not self.feasible():
                break
            self.exec_stmt(st)

    def exec_stmt(self, st):
        m = getattr(self, "st_" + type(st).__name__, None)
        if m is None:
            fr = self.frames[-1] if self.frames else None
            raise AnalysisError("python construct not modelled by the interpreter: %s statement at %s:%s" % (
                type(st).__name__, fr.finfo.qual if fr is not None and fr.finfo else (fr.modname if fr else "?"),
                getattr(st, "lineno", "?")))
        m(st)

    def st_Expr(self, st):
        self.ev(st.value)

    def st_Pass(self, st):
        pass

    def st_Import(self, st):
        for a in st.names:
            if a.asname:
                self.store_name(a.asname, self.import_name(a.name) if not self.prog.is_repo_module(a.name)
                                else ModuleV(a.name))
            else:
                top = a.name.split(".")[0]
                self.store_name(top, ModuleV(top) if self.prog.is_repo_module(top) else Ext(top))
            self.event("import", (a.name,), st)

    def st_ImportFrom(self, st):
        mod = st.module or ""
        for a in st.names:
            self.store_name(a.asname or a.name, self.import_name(mod, a.name))
        self.event("import", (mod,), st)

    def st_FunctionDef(self, st):
        fr = self.frames[-1]
        if fr.finfo is None:
            m = self.prog.modules.get(fr.modname)
            if m and st.name in m.functions and m.functions[st.name].node is st:
                fr.env[st.name] = FuncV(m.functions[st.name])
                return
        from .model import FuncInfo
        parent = fr.finfo
        m = self.prog.modules[fr.modname]
        fi = FuncInfo(m, st, parent=parent) if parent is not None else FuncInfo(m, st)
        fi.closure_frame = fr if parent is not None else None      # free variables resolve in the defining activation
        self.store_name(st.name, FuncV(fi))

    st_AsyncFunctionDef = st_FunctionDef

    def st_ClassDef(self, st):
        fr = self.frames[-1]
        m = self.prog.modules.get(fr.modname)
        if m and st.name in m.classes and m.classes[st.name].node is st:
            fr.env[st.name] = ClassV(m.classes[st.name])
            return
        from .model import ClassInfo
        self.store_name(st.name, ClassV(ClassInfo(m, st)))

    def st_Global(self, st):
        self.frames[-1].globals_decl.update(st.names)

    def st_Nonlocal(self, st):
        pass

    def st_Assign(self, st):
        v = self.ev(st.value)
        for t in st.targets:
            self.assign(t, v, st)

    def st_AnnAssign(self, st):
        if st.value is not None:
            self.assign(st.target, self.ev(st.value), st)

    def st_AugAssign(self, st):
        if isinstance(st.target, ast.Name):
            cur = self.load_name(st.target.id)
        elif isinstance(st.target, ast.Attribute):
            obj = self.ev(st.target.value)
            cur = self.get_attr(obj, st.target.attr)
        else:
            cur = self.ev(ast.Subscript(value=st.target.value, slice=st.target.slice, ctx=ast.Load()))
        rhs = self.ev(st.value)
        op = BINOPS[type(st.op)]
        lo = self.as_list(cur)
        if op == "add" and lo is not None:
            self.list_method(cur, lo, "extend", [rhs], {}, st)
            return
        val = binop(op, cur, rhs)
        if isinstance(st.target, ast.Attribute):
            self.set_attr(obj, st.target.attr, val, st)
        else:
            self.assign(st.target, val, st)

    def assign(self, t, v, st=None):
        if isinstance(t, ast.Name):
            self.store_name(t.id, v)
        elif isinstance(t, ast.Attribute):
            self.set_attr(self.ev(t.value), t.attr, v, st or t)
        elif isinstance(t, (ast.Tuple, ast.List)):
            lo = self.as_list(v)
            n = len(t.elts)
            star = [i for i, e in enumerate(t.elts) if isinstance(e, ast.Starred)]
            if star:
                # a, *rest, z = v:  rest is a fresh list of everything between the fixed positions
                s_, after = star[0], len(t.elts) - 1 - star[0]
                if lo is not None and lo.concrete() and len(lo.items) >= n - 1:
                    vals = [it[1] for it in lo.items]
                    for i, e in enumerate(t.elts):
                        if i < s_:
                            self.assign(e, vals[i], st)
                        elif i == s_:
                            self.assign(e.value, self.mk_list(vals[s_:len(vals) - after]), st)
                        else:
                            self.assign(e, vals[len(vals) - (n - i)], st)
                    return
                seq = Op("list", v)
                for i, e in enumerate(t.elts):
                    if i < s_:
                        self.assign(e, Op("getitem", seq, Const(i)), st)
                    elif i == s_:
                        mid = Op("getslice", seq, Const(s_), Const(-after) if after else NONE)
                        self.assign(e.value, self.alloc(ListObj(self.born_now(), [("v", Op("splat", mid), TRUE)], "list")), st)
                    else:
                        self.assign(e, Op("getitem", seq, Const(i - n)), st)
                return
            for i, e in enumerate(t.elts):
                if isinstance(e, ast.Starred):
                    self.assign(e.value, Op("unpack*", v, Const(i)), st)
                elif lo is not None and lo.concrete() and len(lo.items) == n:
                    self.assign(e, lo.items[i][1], st)
                elif isinstance(v, Const) and isinstance(v.v, (tuple, bytes, str)) and len(v.v) == n:
                    self.assign(e, Const(v.v[i]), st)
                elif isinstance(v, Ite):
                    self.assign(e, self.unpack_ite(v, i, n), st)
                else:
                    self.assign(e, Op("getitem", v, Const(i)), st)
        elif isinstance(t, ast.Subscript):
            base = self.simp(self.ev(t.value))
            if isinstance(t.slice, ast.Slice):
                self.event("slice_store", (base, v), st or t)
                return
            key = self.ev(t.slice)
            self.setitem(base, key, v, st or t)
        elif isinstance(t, ast.Starred):
            self.assign(t.value, v, st)

    def unpack_ite(self, v, i, n):
        if isinstance(v, Ite):
            return ite(v.c, self.unpack_ite(v.a, i, n), self.unpack_ite(v.b, i, n))
        lo = self.as_list(v)
        if lo is not None and lo.concrete() and len(lo.items) == n:
            return lo.items[i][1]
        if isinstance(v, Const) and isinstance(v.v, tuple) and len(v.v) == n:
            return Const(v.v[i])
        if isinstance(v, Undef):
            return v
        return Op("getitem", v, Const(i))

    def fold_under_guard(self, t):
        """constant propagation from equality guards: under a path condition x == C a key built from x folds"""
        if isinstance(t, Const):
            return t
        m = {}
        for c in self.cur_guard_list():
            if isinstance(c, Op) and c.op == "eq" and isinstance(c.args[1], Const) and not isinstance(c.args[0], Const):
                m[c.args[0]] = c.args[1]
        if not m or not any(x in m for x in walk(t)):
            return t
        return self.refold(subst(t, m))

    def refold(self, t):
        if isinstance(t, Op):
            args = tuple(self.refold(a) for a in t.args)
            if t.op == "chr" and is_int(args[0]):
                try:
                    return Const(chr(args[0].v))
                except Exception:
                    pass
            if t.op == "concat" and all(is_const(a, str) for a in args):
                return Const("".join(a.v for a in args))
            if t.op == "dictget" and isinstance(args[0], Ref) and isinstance(args[1], Const):
                o = self.heap.get(args[0].oid)
                if isinstance(o, DictObj) and o.concrete():
                    hit = o.lookup(args[1])
                    return hit[0] if hit else args[2]
            if args != t.args:
                from .terms import rebuild
                return rebuild(t.op, args)
        return t

    def setitem(self, base, key, v, node):
        key = self.fold_under_guard(key)
        if isinstance(base, Ite):
            for c, alt in ((base.c, base.a), (not_(base.c), base.b)):
                self.guard.append(c)
                if self.feasible():
                    self.setitem(self.simp(alt), key, v, node)
                self.guard.pop()
            return
        if isinstance(base, Ref):
            o = self.heap[base.oid]
            if isinstance(o, Instance) and getattr(o, "cls", None) is not None and isinstance(self.class_attr(o.cls, "__setitem__"), FuncV):
                self.call_value(FuncV(self.class_attr(o.cls, "__setitem__").info, base), [key, v], {}, node)
                return
            if isinstance(o, DictObj):
                self.note_mutation(base, o, "dict[key] = value", node, (v,))
                g = self.rel_guard(o.born)
                lc = tuple(l for l in self.loop_ctx if l not in getattr(o, "born_loops", ()))
                o.entries.append((key, v, g, lc))
                if self.writelog is not None:
                    self.writelog.add(("dict", base.oid))
                self.event("dict_store", (base, key, v), node)
                return
            if isinstance(o, ListObj):
                self.note_mutation(base, o, "list[i] = value", node, (v,))
                g = self.rel_guard(o.born)
                if is_int(key) and o.concrete() and g == TRUE and 0 <= key.v < len(o.items) and not self.loop_ctx:
                    o.items[key.v] = ("v", v, TRUE)
                else:
                    o.items.append(("v", Op("setitem", key, v), g))
                if self.writelog is not None:
                    self.writelog.add(("list", base.oid))
                self.event("list_setitem", (base, key, v), node)
                return
        self.event("ext_setitem", (base, key, v), node)

    def st_Delete(self, st):
        for t in st.targets:
            if isinstance(t, ast.Subscript):
                base, key = self.simp(self.ev(t.value)), self.ev(t.slice)
                self.event("delitem", (base, key), st)
                o = self.heap.get(base.oid) if isinstance(base, Ref) else None
                if isinstance(o, ListObj) and not (isinstance(key, Op) and key.op == "sliceobj"):
                    self.list_method(base, o, "pop", [key], {}, st)          # del xs[i]  removes what  xs.pop(i)  removes
                elif isinstance(o, DictObj):
                    self.dict_method(base, o, "pop", [key], {}, st)
                elif isinstance(o, (ListObj,)) or isinstance(base, Ite):
                    raise AnalysisError("del on a container value the analysis cannot follow (line %s)" % getattr(st, "lineno", "?"))
            elif isinstance(t, ast.Name):
                self.frames[-1].env.pop(t.id, None)

    def st_Return(self, st):
        fr = self.frames[-1]
        v = self.ev(st.value) if st.value is not None else NONE
        g = self.local_guard()
        self.event("return", (v,), st)
        fr.ret = ite(g, v, fr.ret)
        fr.ret_conds.append(g)
        fr.dead.append(g)

    def st_Raise(self, st):
        exc = self.ev(st.exc) if st.exc is not None else Op("reraise")
        self.event("raise", (exc,), st)
        self.note_raise(self.local_guard(state=True))

    def note_raise(self, g_local, from_callee=False):
        """g_local: condition (relative to this frame's entry, or to the callee's
        entry when from_callee) under which an exception leaves."""
        fr = self.frames[-1]
        g = g_local if not from_callee else and_(self.local_guard(state=True), g_local)
        tr = getattr(fr, "try_stack", None)
        if tr:
            tr[-1].append(g)       # caught (approximately) by the enclosing try
            excs = getattr(fr, "try_excs", None)
            if excs:
                full = and_(*(self.cur_guard_list()[:fr.base_guard_len] + [g]))
                self.facts.append((full, excs[-1]))
                self.fact_seq.append(len(self.events))
        else:
            if not hasattr(fr, "raised"):
                fr.raised = []
            fr.raised.append(g)
        fr.rdead.append(g)
        self.raise_conds.add(g)

    def st_Assert(self, st):
        c = self.ev_bool(st.test)
        self.event("assert", (c,), st)
        # asserts are removed under -O: they never constrain the path here

    def st_If(self, st):
        c = self.ev_bool(st.test)
        if isinstance(c, Const):
            self.exec_block(st.body if c.v else st.orelse)
            return
        self.guard.append(c)
        if self.feasible():
            self.exec_block(st.body)
        self.guard.pop()
        if st.orelse:
            self.guard.append(not_(c))
            if self.feasible():
                self.exec_block(st.orelse)
            self.guard.pop()

    def st_Match(self, st):
        """match/case as an if/elif chain for the pattern kinds that reduce to comparisons: literals and dotted names,
        None/True/False, alternatives, captures and wildcards, fixed-length sequences of those; optional guards"""
        subj = self.ev(st.subject)
        taken = []          # conditions of the earlier cases
        for case in st.cases:
            cond, binds = self.match_pattern(case.pattern, subj)
            self.guard.append(and_(*[not_(c) for c in taken]))
            self.guard.append(cond)
            try:
                if self.feasible():
                    for name, val in binds:
                        self.store_name(name, val)
                    g = TRUE
                    if case.guard is not None:
                        g = self.ev_bool(case.guard)
                    self.guard.append(g)
                    try:
                        if self.feasible():
                            self.exec_block(case.body)
                    finally:
                        self.guard.pop()
                    cond = and_(cond, g)
            finally:
                self.guard.pop()
                self.guard.pop()
            taken.append(cond)

    def match_pattern(self, p, subj):
        if isinstance(p, ast.MatchValue):
            return self.cmp("eq", subj, self.ev(p.value)), []
        if isinstance(p, ast.MatchSingleton):
            return compare("is", subj, Const(p.value)), []
        if isinstance(p, ast.MatchAs):
            if p.pattern is None:
                return TRUE, ([(p.name, subj)] if p.name else [])
            c, b = self.match_pattern(p.pattern, subj)
            return c, b + ([(p.name, subj)] if p.name else [])
        if isinstance(p, ast.MatchOr):
            cs = []
            for alt in p.patterns:
                c, b = self.match_pattern(alt, subj)
                if b:
                    raise AnalysisError("match: alternatives that bind names are not modelled (line %s)" % getattr(p, "lineno", "?"))
                cs.append(c)
            return or_(*cs), []
        if isinstance(p, ast.MatchSequence) and (any(isinstance(x, ast.MatchStar) for x in p.patterns) or
                                                 (self.seq_elems(subj) is None and self.groups_elems(self.simp(subj)) is None
                                                  and not any(isinstance(x, Undef) for x in walk(self.simp(subj))))):
            # a sequence whose length is not known here (or a pattern with a *rest): the length test is part of the
            # condition, the elements are addressed by position from the front / from the back
            sv = self.simp(subj)
            known = self.seq_elems(sv)
            stars = [i for i, x in enumerate(p.patterns) if isinstance(x, ast.MatchStar)]
            nfix = len(p.patterns) - len(stars)
            ln = Const(len(known)) if known is not None else self.x_len([sv], {}, None)
            cs = [compare("ge" if stars else "eq", ln, Const(nfix))]
            if cs[0] == FALSE:
                return FALSE, []
            bs = []
            star_at = stars[0] if stars else len(p.patterns)
            for i, sub in enumerate(p.patterns):
                if isinstance(sub, ast.MatchStar):
                    if sub.name:
                        hi = NONE if i == len(p.patterns) - 1 else Const(i + 1 - len(p.patterns))
                        bs.append((sub.name, self.getslice(sv, Const(i), hi, NONE, None)))
                    continue
                if known is not None:
                    el = known[i] if i < star_at else known[i - len(p.patterns)]
                else:
                    el = self.getitem(sv, Const(i if i < star_at else i - len(p.patterns)), None)
                c, b = self.match_pattern(sub, el)
                cs.append(c)
                bs += b
            return and_(*cs), bs
        if isinstance(p, ast.MatchMapping):
            sv = self.simp(subj)
            cs, bs = [], []
            for k, sub in zip(p.keys, p.patterns):
                kv = self.ev(k)
                cs.append(self.cmp("in", kv, sv))
                c, b = self.match_pattern(sub, self.getitem(sv, kv, None))
                cs.append(c)
                bs += b
            if p.rest:
                raise AnalysisError("match: **rest in a mapping pattern is not modelled (line %s)" % getattr(p, "lineno", "?"))
            return and_(*cs), bs
        if isinstance(p, ast.MatchClass):
            cv = self.simp(self.ev(p.cls))
            sv = self.simp(subj)
            if isinstance(sv, Ite):
                ca, ba = self.match_pattern(p, sv.a)
                cb, bb = self.match_pattern(p, sv.b)
                names = [n_ for n_, _ in ba] or [n_ for n_, _ in bb]
                da, db = dict(ba), dict(bb)
                return ite(sv.c, ca, cb), [(n_, ite(sv.c, da.get(n_, Undef()), db.get(n_, Undef()))) for n_ in names]
            if not isinstance(cv, ClassV):
                raise AnalysisError("match: class pattern on a class the analysis does not know (line %s)" % getattr(p, "lineno", "?"))
            o = self.heap.get(sv.oid) if isinstance(sv, Ref) else None
            ocls = o.cls if isinstance(o, Instance) and getattr(o, "cls", None) is not None else getattr(o, "ntclass", None)
            if ocls is None:
                if isinstance(sv, Const) or isinstance(sv, (FuncV, ClassV)) or isinstance(o, (ListObj, DictObj)):
                    return FALSE, []            # None, a number, a text, a plain container: not an instance of a repository class
                raise AnalysisError("match: class pattern on a value of unknown type (line %s)" % getattr(p, "lineno", "?"))

            def is_sub(ci, depth=0):
                if ci is cv.info or ci.qual == cv.info.qual:
                    return True
                if depth > 4:
                    return False
                for b_ in ci.bases:
                    bv = self.module_ns(ci.module.name).get(b_.split(".")[0]) if "." not in b_ else None
                    if isinstance(bv, ClassV) and is_sub(bv.info, depth + 1):
                        return True
                return False
            if not is_sub(ocls):
                return FALSE, []
            cs, bs = [TRUE], []
            if p.patterns:
                flds = getattr(o, "fields", None)
                if not flds:
                    ma = self.class_attr(ocls, "__match_args__")
                    flds = list(ma.v) if isinstance(ma, Const) and isinstance(ma.v, tuple) else None
                if not flds:
                    flds = [st_.target.id for st_ in ocls.node.body if isinstance(st_, ast.AnnAssign) and isinstance(st_.target, ast.Name)] or None
                if not flds or len(p.patterns) > len(flds):
                    raise AnalysisError("match: positional class pattern without known __match_args__ (line %s)" % getattr(p, "lineno", "?"))
                for fname, sub in zip(flds, p.patterns):
                    c, b = self.match_pattern(sub, self.get_attr(sv, fname, None))
                    cs.append(c)
                    bs += b
            for fname, sub in zip(p.kwd_attrs, p.kwd_patterns):
                c, b = self.match_pattern(sub, self.get_attr(sv, fname, None))
                cs.append(c)
                bs += b
            return and_(*cs), bs
        if isinstance(p, ast.MatchSequence) and not any(isinstance(x, ast.MatchStar) for x in p.patterns):
            els = self.seq_elems(subj)
            sv = self.simp(subj)
            if els is None:
                # the groups of a match of a constant regular expression: as many as the expression has
                els = self.groups_elems(sv)
            if els is None and any(isinstance(x, Undef) for x in walk(sv)):
                return FALSE, []        # the subject is unbound on this path (a path the analysis could not rule out earlier)
            if els is None:
                raise AnalysisError("match: sequence pattern on a value of unknown length (line %s)" % getattr(p, "lineno", "?"))
            if len(els) != len(p.patterns):
                return FALSE, []
            cs, bs = [], []
            for sub, e in zip(p.patterns, els):
                c, b = self.match_pattern(sub, e)
                cs.append(c)
                bs += b
            return and_(*cs), bs
        raise AnalysisError("match: pattern kind %s is not modelled (line %s)" % (type(p).__name__, getattr(p, "lineno", "?")))

    def st_With(self, st, idx=0, vals=None):
        vals = [] if vals is None else vals
        if idx >= len(st.items):
            self.exec_block(st.body)
            return
        item = st.items[idx]
        v = self.ev(item.context_expr)
        sv = self.simp(v)
        if isinstance(sv, GenV) and ("contextmanager" in sv.finfo.deco or "asynccontextmanager" in sv.finfo.deco):
            # a generator-based context manager: its body runs up to the yield, the with-body runs there (inside whatever
            # try / with statements surround the yield), then the rest of the generator's body
            self.event("with_enter", (Op("cm", Const(sv.finfo.qual)),), st)

            def consume(val):
                if item.optional_vars is not None:
                    self.assign(item.optional_vars, val, st)
                self.st_With(st, idx + 1, vals)
            self._gen_cm = True
            self.run_generator(sv, consume, st)
            self.event("with_exit", (Op("cm", Const(sv.finfo.qual)),), st)
            return
        if isinstance(sv, Op) and sv.op == "call:contextlib.suppress" and isinstance(item.context_expr, ast.Call):
            # with suppress(E1, E2): body   is   try: body / except (E1, E2): pass
            ce = item.context_expr
            typ = ce.args[0] if len(ce.args) == 1 else ast.Tuple(elts=list(ce.args), ctx=ast.Load())
            inner = ast.With(items=st.items[idx + 1:], body=st.body) if idx + 1 < len(st.items) else None
            body = [inner] if inner is not None else st.body
            tr = ast.Try(body=body, handlers=[ast.ExceptHandler(type=typ, name=None, body=[ast.Pass()])], orelse=[], finalbody=[])
            for nd in (tr, tr.handlers[0], tr.handlers[0].body[0]) + ((inner,) if inner is not None else ()):
                ast.copy_location(nd, st)
            ast.fix_missing_locations(tr)
            self.st_Try(tr)
            return
        vals.append(v)
        self.event("with_enter", (v,), st)
        if item.optional_vars is not None:
            self.assign(item.optional_vars, v, st)
        self.st_With(st, idx + 1, vals)
        if idx == 0 or True:
            self.event("with_exit", (v,), st)

    st_AsyncWith = st_With

    def st_Try(self, st):
        fr = self.frames[-1]
        exc = self.fresh("exc@%s" % getattr(st, "lineno", "?"), "exc", st)
        if not hasattr(fr, "try_stack"):
            fr.try_stack = []
        fr.try_stack.append([])
        if not hasattr(fr, "try_excs"):
            fr.try_excs = []
        fr.try_excs.append(exc)
        self.guard.append(not_(exc))
        self.event("try_enter", (exc,), st)
        self.exec_block(st.body)
        self.guard.pop()
        explicit = fr.try_stack.pop()
        fr.try_excs.pop()
        # explicit raises inside the body were marked dead; they are alive again in handlers
        for d in explicit:
            if d in fr.rdead:
                fr.rdead.remove(d)
        self.event("try_body_end", (exc,), st)
        if st.orelse:
            self.guard.append(not_(exc))
            if self.feasible():
                self.exec_block(st.orelse)
            self.guard.pop()
        prev = []
        for h in st.handlers:
            hc = exc if len(st.handlers) == 1 else self.fresh("exc@%s:%s" % (
                getattr(st, "lineno", "?"), ast.unparse(h.type) if h.type else "bare"), "exc", h)
            cond = and_(exc, hc, *[not_(p) for p in prev]) if len(st.handlers) > 1 else exc
            prev.append(hc)
            self.guard.append(cond)
            htxt = ast.unparse(h.type) if h.type else None
            if isinstance(h.type, ast.Name) or (isinstance(h.type, ast.Attribute) and isinstance(h.type.value, ast.Name) and
                                                h.type.value.id in ("self", "cls")):
                # `except catch:` where catch is a variable / parameter / attribute holding an exception class
                try:
                    self._quiet_unbound = True
                    hv = self.simp(self.ev(h.type))
                except Exception:
                    hv = None
                finally:
                    self._quiet_unbound = False
                if isinstance(hv, Ext) and hv.name.split(".")[-1] != htxt and hv.name.split(".")[-1][:1].isupper():
                    htxt = hv.name.split(".")[-1]
            self.event("handler", (exc, htxt), h)
            if h.name:
                self.frames[-1].env[h.name] = Op("excobj", exc)
            if self.feasible():
                self.exec_block(h.body)
            self.guard.pop()
        if st.finalbody:
            self.exec_block(st.finalbody)

    st_TryStar = st_Try

    def st_Break(self, st):
        fr = self.frames[-1]
        if fr.loop_stack:
            self.event("break", (), st)
            fr.loop_stack[-1].brk.append(self.loop_local_guard())

    def st_Continue(self, st):
        fr = self.frames[-1]
        if fr.loop_stack:
            self.event("continue", (), st)
            fr.loop_stack[-1].cont.append(self.loop_local_guard())

    def loop_local_guard(self):
        """condition of the current path relative to the start of the loop body"""
        ctl = self.frames[-1].loop_stack[-1]
        g = flat_set(self.cur_guard_list(state=True))
        known = getattr(ctl, "base_set", None)
        if known is None:
            return self.local_guard()
        return and_(*[c for c in self._ordered(g) if c not in known])


class _LoopMixin:
    def enum_members(self, cinfo):
        """members of an enumeration class in definition order (aliases - a repeated value - are not iterated)"""
        out, seen = [], []
        for st in cinfo.node.body:
            if isinstance(st, ast.Assign) and len(st.targets) == 1 and isinstance(st.targets[0], ast.Name) and not st.targets[0].id.startswith("_"):
                mv = self.class_attr(cinfo, st.targets[0].id)
                if mv is None or isinstance(mv, FuncV):
                    continue
                if not isinstance(mv, Const):
                    return None
                if mv in seen:
                    continue
                seen.append(mv)
                out.append(Op("enum", Const(cinfo.qual), Const(st.targets[0].id), mv))
        return out

    def concrete_iter(self, it):
        if isinstance(it, ClassV) and it.info.is_enum:
            return self.enum_members(it.info)
        if isinstance(it, Const) and isinstance(it.v, (tuple, str, bytes, range)):
            try:
                return [Const(x) for x in it.v]
            except Exception:
                return None
        if isinstance(it, Ref):
            o = self.heap[it.oid]
            if isinstance(o, ListObj) and o.concrete():
                return [i[1] for i in o.items]
            if isinstance(o, DictObj) and o.concrete():
                return [k for k, _, _, _ in self.dedup(o)]
        if isinstance(it, Op) and it.op in ("m:items", "m:keys", "m:values") and len(it.args) == 1 and isinstance(it.args[0], Ref):
            o = self.heap.get(it.args[0].oid)
            known = isinstance(o, DictObj) and o.prev_iter is None and all(
                (isinstance(k, Const) or (isinstance(k, Op) and k.op == "enum")) and g == TRUE and not lc for k, v, g, lc in o.entries)
            if known:
                ents = self.dedup(o)
                if it.op == "m:keys":
                    return [k for k, _, _, _ in ents]
                if it.op == "m:values":
                    return [v for _, v, _, _ in ents]
                return [self.mk_list([k, v], "tuple") for k, v, _, _ in ents]
        if isinstance(it, Op) and it.op == "range" and all(is_int(a) for a in it.args):
            try:
                return [Const(x) for x in range(*[a.v for a in it.args])]
            except Exception:
                return None
        if isinstance(it, Op) and it.op == "enumerate":
            inner = self.concrete_iter(it.args[0])
            if inner is not None:
                start = it.args[1].v if len(it.args) > 1 and is_int(it.args[1]) else 0
                return [self.mk_list([Const(i + start), x], "tuple") for i, x in enumerate(inner)]
        if isinstance(it, Op) and it.op == "call:itertools.chain" and it.args:
            inners = [self.concrete_iter(self.simp(a)) for a in it.args]
            if all(i is not None for i in inners):
                return [x for i in inners for x in i]
        if isinstance(it, Op) and it.op == "zip":
            inners = [self.concrete_iter(a) for a in it.args]
            if all(i is not None for i in inners):
                return [self.mk_list(list(t), "tuple") for t in zip(*inners)]
        if isinstance(it, Op) and it.op == "zipl":
            import itertools
            inners = [self.concrete_iter(a) for a in it.args[1:]]
            if all(i is not None for i in inners):
                return [self.mk_list(list(t), "tuple") for t in itertools.zip_longest(*inners, fillvalue=it.args[0])]
        return None

    def small_count_guards(self, n):
        """n is a count made of a few truth values (int(c), 1 if c else 0, sums of those): the conditions g_0, g_1, ..
        under which n > 0, n > 1, ..; None when n is not of that kind"""
        import itertools
        from .terms import evaluate, CannotEval
        conds = []

        def scan(t):
            if isinstance(t, Ite):
                if t.c not in conds:
                    conds.append(t.c)
                scan(t.a), scan(t.b)
            elif isinstance(t, Op) and t.op in ("int", "b2i", "call:int") and len(t.args) == 1:
                if t.args[0] not in conds:
                    conds.append(t.args[0])
            elif isinstance(t, Lin):
                for x, _ in t.terms:
                    scan(x)
            elif isinstance(t, Op) and t.op in ("add", "max", "min"):
                for a in t.args:
                    scan(a)
        scan(n)
        if not conds or len(conds) > 3:
            return None
        rows = []
        for bits in itertools.product((False, True), repeat=len(conds)):
            env = dict(zip(conds, bits))
            for c, b in zip(conds, bits):
                env[Op("int", c)] = int(b)
                env[Op("b2i", c)] = int(b)
                env[Op("call:int", c)] = int(b)
            try:
                v = evaluate(n, env)
            except Exception:
                return None
            if not isinstance(v, int) or isinstance(v, bool) and False or v < 0 or v > 3:
                return None
            rows.append((bits, int(v)))
        top = max(v for _, v in rows)
        out = []
        for i in range(top):
            out.append(or_(*[and_(*[c if b else not_(c) for c, b in zip(conds, bits)]) for bits, v in rows if v > i]))
        return out

    def st_For(self, st):
        it = self.simp(self.ev(st.iter))
        elems = self.concrete_iter(it)
        fr = self.frames[-1]
        if elems is not None and len(elems) <= UNROLL_MAX:
            ctl = LoopCtl()
            fr.loop_stack.append(ctl)
            self.event("loop_unrolled", (len(elems),), st)
            ctl.base_set = flat_set(self.cur_guard_list(state=True))
            for e in elems:
                ctl.cont = []
                if not self.feasible():
                    break
                self.assign(st.target, e, st)
                self.exec_block(st.body)
            ctl.cont = []
            brk = list(ctl.brk)
            fr.loop_stack.pop()
            if st.orelse:
                self.guard.append(and_(*[not_(b) for b in brk]))
                if self.feasible():
                    self.exec_block(st.orelse)
                self.guard.pop()
            return
        self.summarise(st, "for", it)

    st_AsyncFor = st_For

    def st_While(self, st):
        c = self.ev_bool(st.test)
        if isinstance(c, Const) and not c.v:
            self.exec_block(st.orelse)
            return
        self.summarise(st, "while", None)

    # -- snapshots ---------------------------------------------------------
    def snapshot(self):
        heap = {}
        for oid, o in self.heap.items():
            if isinstance(o, Instance):
                heap[oid] = dict(o.attrs)
            elif isinstance(o, ListObj):
                heap[oid] = list(o.items)
            elif isinstance(o, DictObj):
                heap[oid] = list(o.entries)
        frames = [(dict(f.env), (list(f.dead), list(f.rdead)), f.ret, list(f.ret_conds), list(getattr(f, "raised", [])),
                   [list(t) for t in getattr(f, "try_stack", [])],
                   [(list(c.brk), list(c.cont)) for c in f.loop_stack]) for f in self.frames]
        mods = {k: dict(v) for k, v in self.mod_ns.items()}
        return (heap, frames, len(self.events), mods, len(self.unknown_calls), len(self.warnings), set(self.loops))

    def restore(self, snap):
        heap, frames, nev, mods, nunk, nwarn, loop_ids = snap
        for lid in list(self.loops):
            if lid not in loop_ids:
                del self.loops[lid]
        for oid in list(self.heap):
            if oid not in heap:
                if getattr(self.heap[oid], "shared", None) is not None or getattr(self.heap[oid], "pinned", False):
                    continue        # module / class level objects created by a lazy first use stay: their namespaces do
                del self.heap[oid]
                continue
            o = self.heap[oid]
            if isinstance(o, Instance):
                o.attrs = dict(heap[oid])
            elif isinstance(o, ListObj):
                o.items = list(heap[oid])
            elif isinstance(o, DictObj):
                o.entries = list(heap[oid])
        for f, (env, dead, ret, rc, raised, trys, ctls) in zip(self.frames, frames):
            f.env.clear()
            f.env.update(env)
            f.dead[:] = dead[0]
            f.rdead[:] = dead[1]
            f.ret = ret
            f.ret_conds[:] = rc
            if raised or hasattr(f, "raised"):
                f.raised = list(raised)
            if hasattr(f, "try_stack"):
                f.try_stack = [list(t) for t in trys]
            for c, (b, k) in zip(f.loop_stack, ctls):
                c.brk, c.cont = list(b), list(k)
        del self.events[nev:]
        for k in list(self.mod_ns):
            if k in mods:
                self.mod_ns[k].clear()
                self.mod_ns[k].update(mods[k])
        del self.unknown_calls[nunk:]
        del self.warnings[nwarn:]

    # -- locations -----------------------------------------------------------
    def loc_get(self, loc):
        if loc[0] == "local":
            for f in self.frames:
                if id(f) == loc[1]:
                    return f.env.get(loc[2])
            return None
        if loc[0] == "attr":
            o = self.heap.get(loc[1])
            return o.attrs.get(loc[2]) if isinstance(o, Instance) else None
        if loc[0] == "global":
            return self.mod_ns.get(loc[1], {}).get(loc[2])
        if loc[0] == "classattr":
            return self.mod_ns.get("<class>" + loc[1], {}).get(loc[2])
        return None

    def loc_set(self, loc, v):
        if loc[0] == "local":
            for f in self.frames:
                if id(f) == loc[1]:
                    f.env[loc[2]] = v
        elif loc[0] == "attr":
            self.heap[loc[1]].attrs[loc[2]] = v
        elif loc[0] == "global":
            self.mod_ns[loc[1]][loc[2]] = v
        elif loc[0] == "classattr":
            self.mod_ns["<class>" + loc[1]][loc[2]] = v

    def loc_name(self, loc):
        if loc[0] == "local":
            return loc[2]
        if loc[0] == "attr":
            o = self.heap.get(loc[1])
            return "%s#%d.%s" % (o.cls.name if isinstance(o, Instance) else "?", loc[1], loc[2])
        return ".".join(map(str, loc[1:]))

    # -- summarisation -----------------------------------------------------
    def summarise(self, st, kind, it):
        fr = self.frames[-1]
        L = LoopInfo(self.next_loop, st, fr.finfo.qual if fr.finfo else fr.modname)
        L.stack = self.call_stack()
        self.next_loop += 1
        L.kind = kind
        L.iter = it
        L.parent = self.loop_ctx[-1] if self.loop_ctx else None
        L.iter_sig = self.iter_sig(it)
        L.filter = None
        self.loops[L.lid] = L
        fused = self.fusable(it) if kind == "for" else None
        if fused is not None:
            # for x in (f(y) for y in ys if c(y)) / filter(c, ...):  the same as  for y in ys: if not c(y): continue; x = f(y)
            L0, term, g = fused
            L.iter = L0.iter
            L.trip = L0.trip
            elem = self.subst_deep(term, {L0.idx: L.idx})
            L.filter = subst(g, {L0.idx: L.idx})
            L.fused_from = L0
        elif kind == "for":
            if isinstance(it, Op) and it.op == "range":
                a = it.args
                if len(a) == 1:
                    L.trip, elem = a[0], L.idx
                elif len(a) == 2:
                    L.trip, elem = sub(a[1], a[0]), add(a[0], L.idx)
                else:
                    L.trip, elem = Op("rangelen", *a), add(a[0], mul(a[2], L.idx))
            elif isinstance(it, Op) and it.op == "zip":
                lens = []
                for a in it.args:
                    ln = self.x_len([a], {}, None)
                    if ln not in lens:
                        lens.append(ln)
                L.trip = lens[0] if len(lens) == 1 else Op("min", *lens)
                elem = self.elem_of(it, L)
            elif isinstance(it, Op) and it.op == "zipl":
                lens = []
                for a in it.args[1:]:
                    ln = self.x_len([a], {}, None)
                    if ln not in lens:
                        lens.append(ln)
                L.trip = lens[0] if len(lens) == 1 else Op("max", *lens)
                elem = self.elem_of(it, L)
            elif isinstance(it, Op) and it.op == "iter_unpack":
                # one tuple of fields per complete record of the buffer
                total = self.struct_layout(it.args[0].v)[1]
                L.trip = binop("floordiv", self.x_len([it.args[1]], {}, None), Const(total))
                elem = self.struct_unpack(it.args[0].v, it.args[1], mul(Const(total), L.idx), st, exact=False, check=False)
            elif isinstance(it, Op) and it.op == "enumerate":
                L.trip = self.x_len([it.args[0]], {}, None)
                start = it.args[1] if len(it.args) > 1 else Const(0)
                elem = self.mk_list([add(start, L.idx), self.elem_of(it.args[0], L)], "tuple")
            else:
                L.trip = self.x_len([it], {}, None) if isinstance(it, Ref) else Op("len", it)
                elem = self.elem_of(it, L)
        else:
            L.trip = Sym("trip%d" % L.lid, "trip", L)
            elem = None
        L.elem = elem
        snap = self.snapshot()
        outer_log = self.writelog
        # pass 1: discover the locations written by the body.  Every container that exists already may have been
        # changed by an earlier iteration, so nothing about its contents is folded to a constant during discovery.
        self.writelog = set()
        pre_existing = [(oid, o) for oid, o in self.heap.items() if isinstance(o, (ListObj, DictObj)) and o.prev_iter is None
                        and getattr(o, "shared", None) is None]
        for _, o in pre_existing:
            o.prev_iter = L
        try:
            self.run_body(st, L, elem, {})
        finally:
            for _, o in pre_existing:
                o.prev_iter = None
        writes = set(self.writelog)
        self.restore(snap)
        carried_objs = [o for oid, o in pre_existing if ("list", oid) in writes or ("dict", oid) in writes]
        L.list_growth = {}
        for o in carried_objs:
            o.prev_iter = L
        locs = [w for w in writes if w[0] in ("local", "attr", "global", "classattr")
                and self.loc_get(w) is not None]
        if kind == "for":
            tn = set(self.target_names_of(st.target))
            locs = [w for w in locs if not (w[0] == "local" and w[1] == id(fr) and w[2] in tn)]
        locs.sort(key=repr)
        init = {w: self.loc_get(w) for w in locs}
        lv = {w: Sym("lv%d:%s" % (L.lid, self.loc_name(w)), "loopvar", (L.lid, w)) for w in locs}
        L.lv = lv
        # pass 2: one symbolic iteration with havoc'd loop-carried locations
        self.writelog = set()
        nd_before = len(fr.dead)
        brk2 = self.run_body(st, L, elem, lv)
        own = set(getattr(L, "own_conds", set()))
        # on paths that leave the loop the 'next' value of a carried location is irrelevant
        for x in list(brk2) + list(fr.dead[nd_before:]):
            own.add(not_(x))
            if isinstance(x, Op) and x.op == "and":
                pass

        def under_own(t):
            n = 0
            while isinstance(t, Ite) and n < 20:
                parts = t.c.args if isinstance(t.c, Op) and t.c.op == "and" else (t.c,)
                if all(p in own for p in parts):
                    t = t.a
                elif any(not_(p) in own for p in parts):
                    t = t.b
                elif not_(t.c) in own:
                    t = t.b
                else:
                    # not(brk) with brk = and(own..., x): under the own conditions this is not(x)
                    rest = [p for p in parts if p not in own]
                    if len(rest) < len(parts) and rest and all(any(isinstance(o, Op) and o.op == "not" and isinstance(o.args[0], Op) and o.args[0].op == "and"
                                                                   and set(o.args[0].args) - own == {not_(r)} for o in own) for r in rest):
                        t = t.a
                    else:
                        break
                n += 1
            return t
        nxt = {w: under_own(self.simp(self.loc_get(w))) for w in locs}
        # a list that gets a fixed number of unconditional appends per iteration has a closed-form length
        for oid, o in pre_existing:
            if o in carried_objs and isinstance(o, ListObj):
                mine = [it for it in o.items if it[0] == "rep" and it[1] is L]
                other = [it for it in o.items if not (it[0] == "rep" and it[1] is L)]
                entry = getattr(L, "entry_guard_set", set())

                def always(g):
                    """holds in every iteration: true, or made of conditions that held when the loop was entered"""
                    return g == TRUE or all(c in entry for c in (g.args if isinstance(g, Op) and g.op == "and" else (g,)))
                if all(always(it[3]) and not (isinstance(it[2], Op) and it[2].op in ("splat",) or (isinstance(it[2], Op) and it[2].op.startswith("listmut")))
                       for it in mine) and all(it[0] == "v" and it[2] == TRUE and not (isinstance(it[1], Op) and (it[1].op == "splat" or it[1].op.startswith("listmut")))
                                               for it in other) and len(other) == len(snap_items(snap, oid)):
                    L.list_growth[oid] = (len(other), len(mine))
        closed = {}
        for w in locs:
            d = self.delta_of(nxt[w], lv[w], L, lv)
            if d is not None:
                closed[w] = d
        self.restore(snap)
        # pass 3: closed-form locations get their exact per-iteration value
        start_vals = {}
        for w in locs:
            if w in closed:
                start_vals[w] = add(init[w], mul(L.idx, closed[w])) if closed[w] != Const(0) else init[w]
            else:
                start_vals[w] = lv[w]
        self.writelog = set()
        ev0 = len(self.events)
        saved_ret = fr.ret
        nrc0, ndead0, nrd0 = len(fr.ret_conds), len(fr.dead), len(fr.rdead)
        fr.ret = Undef()
        brk = self.run_body(st, L, elem, start_vals, final=True)
        for o in carried_objs:
            o.prev_iter = None
        L.events = (ev0, len(self.events))
        L.breaks = brk
        for w in locs:
            L.carried[self.loc_name(w)] = (init[w], self.loc_get(w), closed.get(w), w)
        def rel_now(d):
            kn = L.body_guard_set | L.body_guard_full
            return and_(*[c for c in (d.args if isinstance(d, Op) and d.op == "and" else (d,)) if c not in kn])
        # returns inside the body -> existential condition after the loop
        body_ret = fr.ret
        new_rc = fr.ret_conds[nrc0:]
        if new_rc:
            L.ret_cond = or_(*new_rc)
            ex = Op("exists", Const(L.lid), or_(*new_rc))
            del fr.ret_conds[nrc0:]
            fr.ret_conds.append(ex)
            always_first = kind == "for" and any(rel_now(c_) == TRUE for c_ in new_rc)
            if always_first:
                # `for x in xs: return f(x)`: the value of the first element, if there is one
                fr.ret = ite(ex, subst(_strip_undef(body_ret), {L.idx: Const(0)}), saved_ret)
            else:
                fr.ret = ite(ex, Op("loopret", Const(L.lid), _strip_undef(body_ret)), saved_ret)
        else:
            fr.ret = saved_ret
        new_dead = fr.dead[ndead0:]
        # every way the iteration sequence ends early (break / return), relative to the start of an iteration
        known = L.body_guard_set | L.body_guard_full

        def rel_stop(d):
            return and_(*[c for c in (d.args if isinstance(d, Op) and d.op == "and" else (d,)) if c not in known])
        L.stops = list(brk) + [rel_stop(d) for d in new_dead]
        if new_dead:
            del fr.dead[ndead0:]
            fr.dead.append(Op("exists", Const(L.lid), or_(*new_dead)))
        new_rd = fr.rdead[nrd0:]
        if new_rd:
            del fr.rdead[nrd0:]
            ex = Op("exists", Const(L.lid), or_(*new_rd))
            fr.rdead.append(ex)
            rl = getattr(fr, "raised", None)
            if rl is not None:
                for d in new_rd:
                    if d in rl:
                        rl.remove(d)
                        if ex not in rl:
                            rl.append(ex)
        # post-loop values
        may_exit_early = bool(brk) or bool(new_dead)
        n = L.trip if not may_exit_early else Sym("n%d" % L.lid, "trip", L)
        L.iterations = n
        # a loop that is always left in its first iteration (unconditional break / return at the end of the body) runs at
        # most once: the values after it are those of that single iteration, or the initial ones when it did not run at all
        single = kind == "for" and any(b == TRUE for b in L.stops) and any(b == TRUE for b in brk)
        if single:
            L.iterations = n = Sym("n%d" % L.lid, "trip", L)
            once = Op("exists", Const(L.lid), TRUE)
            first = {L.idx: Const(0)}
            for w in locs:
                first[lv[w]] = init[w]
            finals = {w: self.loc_get(w) for w in locs}
        for w in locs:
            if single:
                val = ite(once, subst(finals[w], first), init[w])
            elif w in closed and closed[w] == Const(0):
                val = init[w]
            elif w in closed and not may_exit_early:
                val = add(init[w], mul(n, closed[w]))
            else:
                val = Sym("lo%d:%s" % (L.lid, self.loc_name(w)), "loopout", (L.lid, w))
            if w[0] == "attr":
                g = self.rel_guard(self.heap[w[1]].born)
            elif w[0] == "local":
                g = self.local_guard() if id(self.frames[-1]) == w[1] else self.cur_guard()
            else:
                g = and_(*self.cur_guard_list(state=True))
            self.loc_set(w, ite(g, val, init[w]))
        self.writelog = outer_log
        if outer_log is not None:
            outer_log.update(writes)
        if kind == "while" and not may_exit_early:
            # the loop was left because its condition became false
            c_post = self.ev_bool(st.test)
            if not isinstance(c_post, Const):
                fr.rdead.append(c_post)
            L.exit_cond = c_post
        self.event("loop_summarised", (L,), st)
        if getattr(st, "orelse", None):
            self.exec_block(st.orelse)

    def target_names_of(self, t):
        return [x.id for x in ast.walk(t) if isinstance(x, ast.Name)]

    def subst_deep(self, term, m, depth=0):
        """substitute in a term; tuples / lists it refers to are copied with the substitution applied to their elements"""
        if isinstance(term, Ref) and depth < 4:
            o = self.heap.get(term.oid)
            if isinstance(o, ListObj) and o.concrete() and any(k in set(walk(it[1])) or isinstance(it[1], Ref) for it in o.items for k in m):
                items = [("v", self.subst_deep(it[1], m, depth + 1), subst(it[2], m)) for it in o.items]
                if all(a[1] is b[1] or a[1] == b[1] for a, b in zip(items, o.items)):
                    return term
                ref = self.alloc(ListObj(self.born_now(), items, o.typ))
                if getattr(o, "fields", None):
                    self.heap[ref.oid].fields = o.fields
                if getattr(o, "ntclass", None) is not None:
                    self.heap[ref.oid].ntclass = o.ntclass
                return ref
            return term
        return subst(term, m)

    def iter_sig(self, it):
        """what the tracked containers an iterable refers to hold right now (to notice a later mutation)"""
        sig = []
        for x in (walk(it) if it is not None else ()):
            if isinstance(x, Ref):
                o = self.heap.get(x.oid)
                if isinstance(o, ListObj):
                    sig.append((x.oid, tuple(o.items)))
                elif isinstance(o, DictObj):
                    sig.append((x.oid, tuple(o.entries)))
        return tuple(sig)

    def fusable(self, it):
        """a list / generator that holds exactly the elements one earlier loop produced under a per-element condition"""
        if not isinstance(it, Ref):
            return None
        o = self.heap.get(it.oid)
        if not (isinstance(o, ListObj) and len(o.items) == 1 and o.items[0][0] == "rep"):
            return None
        _, L0, term, g = o.items[0]
        if L0.kind != "for" or L0.iter is None or L0.stops or L0 in self.loop_ctx:
            return None
        if getattr(L0, "iter_sig", None) != self.iter_sig(L0.iter):
            return None             # the source was modified since the comprehension ran
        gs = list(walk(g))
        if not any(x == L0.idx for x in gs):
            return None             # unconditional: elem_of re-indexes it
        if any(isinstance(x, Sym) and x.kind in ("loopvar", "loopout") for x in gs + list(walk(term))):
            return None
        if isinstance(term, Op) and term.op == "splat":
            return None
        return L0, term, g

    def elem_of(self, it, L):
        """i-th element of the iterated object.  A list that was filled by exactly one
        unconditional append per iteration of an earlier loop yields that loop's
        element term (re-indexed); anything else stays opaque."""
        if isinstance(it, Op) and it.op == "zip":
            return self.mk_list([self.elem_of(a, L) for a in it.args], "tuple")
        if isinstance(it, Op) and it.op == "zipl":
            # zip_longest: a sequence that has run out contributes the fill value
            return self.mk_list([ite(compare("lt", L.idx, self.x_len([a], {}, None)), self.elem_of(a, L), it.args[0])
                                 for a in it.args[1:]], "tuple")
        if isinstance(it, Op) and it.op == "reversed":
            return Op("elem", it, L.idx)
        if isinstance(it, Ref):
            o = self.heap.get(it.oid)
            if isinstance(o, ListObj) and len(o.items) == 1 and o.items[0][0] == "rep":
                _, L0, term, g = o.items[0]
                inv = not any(isinstance(x, Sym) and (x == L0.idx or x.kind == "loopvar") for x in walk(g))
                if inv:
                    return self.subst_deep(term, {L0.idx: L.idx})
        return Op("elem", it, L.idx)

    def delta_of(self, nxt, lvsym, L, lv):
        """next = lv + delta with delta independent of this loop's carried state -> delta"""
        if nxt == lvsym:
            return Const(0)
        try:
            d = sub(nxt, lvsym)
        except Exception:
            return None
        mine = set(lv.values())
        for x in walk(d):
            if x in mine or x == L.idx:
                return None
            if isinstance(x, Sym) and x.kind == "loopvar" and x.info and x.info[0] == L.lid:
                return None
            if isinstance(x, Undef):
                return None
        if not (isinstance(d, (Const, Lin)) or isinstance(d, (Op, Ite, Sym))):
            return None
        if isinstance(d, Const) and not isinstance(d.v, int):
            return None
        # only integer-like accumulations qualify
        if isinstance(nxt, (Ref,)) or isinstance(d, Ref):
            return None
        if isinstance(d, Op) and d.op in ("concat", "fmt", "sub", "add"):
            return None
        return d

    def run_body(self, st, L, elem, start_vals, final=False):
        fr = self.frames[-1]
        for w, v in start_vals.items():
            self.loc_set(w, v)
        ctl = LoopCtl()
        fr.loop_stack.append(ctl)
        self.loop_ctx.append(L)
        pushed = 0
        pre_set = flat_set(self.cur_guard_list(state=True))
        L.entry_guard_set = pre_set
        try:
            if L.kind == "while":
                c = self.ev_bool(st.test)
                if final:
                    L.cond = c
                self.guard.append(c)
                pushed += 1
            elif elem is not None:
                self.assign(st.target, elem, st)
            if final:
                L.body_guard = self.cur_guard()
            L.body_guard_set = flat_set(self.cur_guard_list(state=True))
            L.own_conds = L.body_guard_set - pre_set
            L.body_guard_full = flat_set(self.cur_guard_list())
            ctl.base_set = L.body_guard_set
            if getattr(L, "filter", None) is not None:
                ctl.cont.append(not_(L.filter))
            if self.feasible():
                self.exec_block(st.body)
        finally:
            for _ in range(pushed):
                self.guard.pop()
            self.loop_ctx.pop()
            fr.loop_stack.pop()
        return list(ctl.brk)


EXIT_FUNCS = {"sys.exit", "builtins.exit", "builtins.quit", "os._exit", "os.abort"}


class _ExtMixin:
    def call_ext(self, name, args, kwargs, node):
        short = name[len("builtins."):] if name.startswith("builtins.") else name
        kw = tuple(sorted(kwargs.items()))
        h = getattr(self, "x_" + short.replace(".", "_"), None)
        if h is not None:
            r = h(args, kwargs, node)
            if r is not None:
                return r
        if name in EXIT_FUNCS:
            self.event("exit", (name, tuple(args)), node)
            fr = self.frames[-1]
            g = self.local_guard(state=True)
            if not hasattr(fr, "raised"):
                fr.raised = []
            fr.raised.append(g)
            fr.rdead.append(g)
            return Undef()
        if any(isinstance(self.simp(a_), GenV) for a_ in args):
            # a generator object handed to a library function (itertools.groupby(gen, ...)): the elements it yields
            args = list(args)
            for i_, a_ in enumerate(args):
                if isinstance(self.simp(a_), GenV):
                    its_ = self.seq_items(a_, node)
                    lst_ = self.mk_list([])
                    self.heap[lst_.oid].items = list(its_)
                    self.heap[lst_.oid].comp = "gen"
                    args[i_] = lst_
        self.event("extcall", (name, tuple(args), kw), node)
        if kw:
            return Op("call:" + short, *args, *[Op("kv", Const(k), v) for k, v in kw])
        return Op("call:" + short, *args)

    # -- builtins ------------------------------------------------------------
    def x_len(self, a, k, n):
        v = self.simp(a[0])
        if isinstance(v, Const):
            try:
                return Const(len(v.v))
            except Exception:
                return Op("len", v)
        if isinstance(v, Op) and v.op == "range" and all(is_int(x) for x in v.args):
            return Const(len(range(*[x.v for x in v.args])))
        if isinstance(v, Ref):
            o = self.heap[v.oid]
            if isinstance(o, Instance) and isinstance(self.class_attr(o.cls, "__len__"), FuncV):
                return self.call_method(v, "__len__", [], {}, n)
            if isinstance(o, ListObj) and o.prev_iter is not None:
                Lc = o.prev_iter
                gr = getattr(Lc, "list_growth", {}).get(v.oid)
                if gr is not None and Lc in self.loop_ctx:
                    sofar = len([it for it in o.items if it[0] == "rep" and it[1] is Lc])
                    return add(Const(gr[0] + sofar), mul(Lc.idx, Const(gr[1])))
                return Sym("lv%d:len#%d@%d" % (Lc.lid, v.oid, len(o.items)), "loopvar", (Lc.lid, ("len", v.oid)))
            if isinstance(o, ListObj) and o.concrete():
                return Const(len(o.items))
            if isinstance(o, DictObj) and o.concrete():
                return Const(len(self.dedup(o)))
            if isinstance(o, ListObj):
                # constant part + repeated parts
                total = Const(0)
                for it in o.items:
                    if it[0] == "v" and isinstance(it[1], Op) and it[1].op == "splat":
                        inner = it[1].args[0]
                        if isinstance(inner, Op) and inner.op == "listrep":
                            ln = mul(self.x_len([inner.args[0]], {}, None), Op("max", inner.args[1], Const(0)))
                        else:
                            ln = Op("len", inner)
                        total = add(total, ln if it[2] == TRUE else ite(it[2], ln, Const(0)))
                    elif it[0] == "v" and isinstance(it[1], Op) and it[1].op.startswith("listmut:"):
                        return Op("len", v)
                    elif it[0] == "v" and it[2] == TRUE:
                        total = add(total, Const(1))
                    elif it[0] == "rep":
                        L, g = it[1], it[3]
                        inv = not any((isinstance(x, Sym) and (x == L.idx or (x.kind == "loopvar" and x.info
                                       and x.info[0] == L.lid))) for x in walk(g))
                        n_it = getattr(L, "iterations", None)
                        if inv and n_it is not None:
                            total = add(total, ite(g, n_it, Const(0)) if g != TRUE else n_it)
                        else:
                            total = add(total, Op("count", Const(L.lid), g))
                    else:
                        total = add(total, Op("b2i", it[2]))
                return pad_norm(total)
        if isinstance(v, Op) and v.op == "getslice" and len(v.args) == 3 and v.args[1] != NONE and v.args[2] != NONE:
            # a slice that is known to lie inside its source (a successful range check on this path) has its nominal width
            base, lo, hi = v.args
            inside = compare("le", hi, self.x_len([base], {}, n))
            if nonneg(lo) and (inside == TRUE or inside in set(self.cur_guard_list())):
                w = sub(hi, lo)
                if nonneg(w) or is_int(w):
                    return w
            return Op("len", v)
        return Op("len", v)

    def x_int(self, a, k, n):
        if not a:
            return Const(0)
        base = a[1] if len(a) > 1 else k.get("base")
        if isinstance(a[0], Const) and (base is None or isinstance(base, Const)):
            try:
                return Const(int(a[0].v, base.v) if base is not None else int(a[0].v))
            except Exception:
                pass
        return Op("int", a[0], base) if base is not None else Op("int", a[0])

    def x_str(self, a, k, n):
        if not a:
            return Const("")
        if len(a) > 1 or k:
            return Op("strdecode", a[0], *a[1:], *[Op("kv", Const(x), y) for x, y in sorted(k.items())])
        v0 = self.simp(a[0])
        from .terms import _boolish
        if isinstance(v0, Op) and v0.op == "bool":
            return ite(v0.args[0], Const("True"), Const("False"))
        if isinstance(v0, (Op, Ite)) and _boolish(v0) and not isinstance(v0, Const):
            return ite(v0, Const("True"), Const("False"))
        o0 = self.heap.get(v0.oid) if isinstance(v0, Ref) else None
        cls0 = getattr(o0, "ntclass", None) or (o0.cls if isinstance(o0, Instance) else None)
        if cls0 is not None and isinstance(self.class_attr(cls0, "__str__"), FuncV):
            return self.call_method(v0, "__str__", [], {}, n)       # a class that defines its own text form
        if isinstance(a[0], Const):
            return Const(str(a[0].v))
        from .terms import _stringy
        if _stringy(a[0]):
            return a[0]
        return Op("str", a[0])

    def x_format(self, a, k, n):
        # format(value[, spec]) is '{:spec}'.format(value)
        spec = a[1] if len(a) > 1 else Const("")
        return fmt([fv(a[0], spec if not is_const(spec, str) else spec.v, "")])

    def x_hex(self, a, k, n):
        if is_int(a[0]):
            return Const(hex(a[0].v))
        return Op("hex", a[0])

    def x_chr(self, a, k, n):
        if is_int(a[0]):
            try:
                return Const(chr(a[0].v))
            except Exception:
                pass
        return Op("chr", a[0])

    def x_ord(self, a, k, n):
        if is_const(a[0], str) and len(a[0].v) == 1:
            return Const(ord(a[0].v))
        return Op("ord", a[0])

    def x_bool(self, a, k, n):
        if not a:
            return FALSE
        t = self.truth(a[0])
        from .terms import _boolish
        if isinstance(t, Const) or _boolish(t):
            return t
        if isinstance(t, Lin) or (isinstance(t, Op) and t.op in ("bitand", "bitor", "bitxor", "rshift", "lshift", "int_from_bytes", "len", "mod",
                                                                 "mul", "add", "sub", "floordiv", "int", "count", "b2i", "max", "min", "abs")):
            return not_(compare("eq", t, Const(0)))     # the truth value of a number, as a boolean of its own
        return Op("truthy", t)

    def x_repr(self, a, k, n):
        return Op("repr", a[0])

    def x_memoryview(self, a, k, n):
        return a[0]          # transparent view of the same bytes

    def x_bytearray(self, a, k, n):
        if not a and not k:
            # an empty buffer that is filled step by step: tracked like a list of byte values
            return self.mk_list([], "bytearray")
        return None

    def x_bytes(self, a, k, n):
        if not a:
            return Const(b"")
        if isinstance(a[0], Const) and isinstance(a[0].v, (bytes, tuple)):
            try:
                return Const(bytes(a[0].v))
            except Exception:
                pass
        return Op("bytes", *a)

    def x_bytes_decode(self, a, k, n):
        return Op("m:decode", *a)

    def x_bytes_fromhex(self, a, k, n):
        return Op("fromhex", *a)

    def x_int_from_bytes(self, a, k, n):
        bo = a[1] if len(a) > 1 else k.get("byteorder", Const("big"))
        sg = k.get("signed", FALSE)
        return Op("int_from_bytes", a[0], bo, sg)

    def x_range(self, a, k, n):
        return Op("range", *a)

    def x_enumerate(self, a, k, n):
        return Op("enumerate", *a, *([k["start"]] if "start" in k else []))

    def x_zip(self, a, k, n):
        cells = [self.iter_cell(x) for x in a]
        if len(a) >= 2 and cells[0] is not None and all(c is cells[0] for c in cells):
            # zip(*[iter(xs)] * n): one iterator in every position - the groups of n consecutive elements (an incomplete last
            # group is dropped), i.e. zip(xs[0::n], xs[1::n], ..)
            rest = self.drain(a[0])
            return Op("zip", *[self.getslice(rest, Const(i), NONE, Const(len(a)), n) for i in range(len(a))])
        return Op("zip", *[self.drain(x) for x in a])

    def x_itertools_zip_longest(self, a, k, n):
        if set(k) - {"fillvalue"} or not a:
            return None
        return Op("zipl", k.get("fillvalue", NONE), *[self.drain(x) for x in a])

    def x_reversed(self, a, k, n):
        return Op("reversed", *a)

    def x_sorted(self, a, k, n):
        lo = self.as_list(self.simp(a[0]))
        if lo is not None and lo.concrete() and all(isinstance(i[1], Const) for i in lo.items) and not k:
            try:
                return self.mk_list([Const(x) for x in sorted(i[1].v for i in lo.items)])
            except Exception:
                pass
        self.event("sorted", (a[0], tuple(sorted(k.items()))), n)
        res = Op("sorted", a[0], *[Op("kv", Const(x), y) for x, y in sorted(k.items())])
        return self.alloc(ListObj(self.born_now(), [("v", Op("splat", res), TRUE)], "list"))

    def x_list(self, a, k, n):
        if not a:
            return self.mk_list([])
        els = self.concrete_iter(self.simp(a[0]))
        if els is not None:
            return self.mk_list(els)
        lo = self.as_list(self.simp(a[0]))
        if lo is not None:
            # a copy of a tracked sequence (also: the elements a generator expression produces)
            return self.alloc(ListObj(lo.born, list(lo.items), "list"))
        return Op("list", a[0])

    def x_tuple(self, a, k, n):
        if not a:
            return Const(())
        v = self.simp(self.drain(a[0]))
        lo = self.as_list(v)
        if lo is not None:
            if lo.concrete():
                return self.mk_list([i[1] for i in lo.items], "tuple")
            return self.alloc(ListObj(lo.born, list(lo.items), "tuple"))
        return Op("tuple_of", v)

    def x_set(self, a, k, n):
        """sets are modelled as tracked collections (element order / duplicates are not observable through the
        operations modelled: add, membership, truth, iteration over constants)"""
        if not a:
            return self.mk_list([], "set")
        els = self.concrete_iter(self.simp(a[0]))
        if els is not None and len(els) <= UNROLL_MAX:
            return self.mk_list(els, "set")
        return self.alloc(ListObj(self.born_now(), [("v", Op("splat", a[0]), TRUE)], "set"))

    def x_dict(self, a, k, n, typ=None):
        d = DictObj(self.born_now(), typ) if typ else DictObj(self.born_now())
        ref = self.alloc(d)
        if a:
            self.fill_dict(ref, d, a[0], n)
        for kk, v in k.items():
            d.entries.append((Const(kk), v, TRUE, ()))
        return ref

    def fill_dict(self, ref, d, src, n):
        """dict(<mapping or iterable of (key, value) pairs>)"""
        src = self.simp(src)

        def store_pair(pair):
            lo = self.as_list(pair)
            if lo is not None and lo.concrete() and len(lo.items) == 2:
                kx, vx = lo.items[0][1], lo.items[1][1]
            elif isinstance(pair, Const) and isinstance(pair.v, tuple) and len(pair.v) == 2:
                kx, vx = Const(pair.v[0]), Const(pair.v[1])
            else:
                kx, vx = Op("getitem", pair, Const(0)), Op("getitem", pair, Const(1))
            self.setitem(ref, kx, vx, n)
        if isinstance(src, GenV):
            self.run_generator(src, store_pair, n)
            return
        so = self.heap.get(src.oid) if isinstance(src, Ref) else None
        if isinstance(so, DictObj):
            d.entries.extend(so.entries)
            return
        if isinstance(so, ListObj):
            for it in so.items:
                if it[0] == "v" and it[2] == TRUE and not (isinstance(it[1], Op) and it[1].op == "splat"):
                    store_pair(it[1])
                elif it[0] == "v" and it[2] == TRUE:
                    # a run of pairs the analysis keeps symbolic (sorted(d.items()), ...): merged like dict.update(<opaque>)
                    d.entries.append((Op("**"), Op("dict", it[1].args[0]), TRUE, ()))
                elif it[0] == "rep":
                    _, L, term, g = it
                    lo = self.as_list(term)
                    if lo is not None and lo.concrete() and len(lo.items) == 2:
                        kx, vx = lo.items[0][1], lo.items[1][1]
                    else:
                        kx, vx = Op("getitem", term, Const(0)), Op("getitem", term, Const(1))
                    d.entries.append((kx, vx, g, (L,)))
                else:
                    raise AnalysisError("dict() of a sequence with conditional / spliced elements (line %s)" % getattr(n, "lineno", "?"))
            return
        if isinstance(src, Const) and isinstance(src.v, (tuple, list)):
            for x in src.v:
                store_pair(Const(x))
            return
        if isinstance(src, Const) and isinstance(src.v, dict):
            for kk, vv in src.v.items():
                d.entries.append((Const(kk), Const(vv), TRUE, ()))
            return
        if isinstance(src, Op) and src.op == "zip" and len(src.args) == 2:
            cols = []
            for a_ in src.args:
                its = self.seq_items(a_, n)
                if its is None or any(it[0] != "v" or it[2] != TRUE or (isinstance(it[1], Op) and it[1].op == "splat") for it in its):
                    cols = None
                    break
                cols.append([it[1] for it in its])
            if cols is not None:
                for kx, vx in zip(*cols):
                    self.setitem(ref, kx, vx, n)
                return
        els = self.concrete_iter(src)          # enumerate(...) / zip(...) / dict views / chains of known elements
        if els is not None and len(els) <= 4 * UNROLL_MAX:
            for e_ in els:
                store_pair(e_)
            return
        if isinstance(src, Op) and src.op in ("call:itertools.chain", "call:itertools.chain.from_iterable"):
            parts = src.args if src.op == "call:itertools.chain" else (self.concrete_iter(self.simp(src.args[0])) or None)
            if parts is not None:
                for part in parts:
                    self.fill_dict(ref, d, part, n)
                return
        if isinstance(src, Ite):
            # one of two known sources: each under its condition
            for c_, alt in ((src.c, src.a), (not_(src.c), src.b)):
                self.guard.append(c_)
                try:
                    if self.feasible():
                        self.fill_dict(ref, d, alt, n)
                finally:
                    self.guard.pop()
            return
        raise AnalysisError("dict() of a value the analysis does not track (%r, line %s)" % (src, getattr(n, "lineno", "?")))

    def x_collections_OrderedDict(self, a, k, n):
        return self.x_dict(a, k, n, "OrderedDict")

    def x_collections_namedtuple(self, a, k, n):
        return Op("namedtuple", *a)

    def x_isinstance(self, a, k, n):
        v = self.simp(a[0])
        if isinstance(v, Ref) and isinstance(a[1], Ext):
            o = self.heap[v.oid]
            tn = a[1].name.split(".")[-1]
            if isinstance(o, DictObj):
                return Const(tn in ("dict", "OrderedDict"))
            if isinstance(o, ListObj):
                return Const(tn == o.typ)
        if isinstance(v, Const) and isinstance(a[1], Ext):
            tn = a[1].name.split(".")[-1]
            if tn in ("str", "int", "bytes", "bool", "dict", "list", "tuple"):
                return Const(type(v.v).__name__ == tn or (tn == "int" and isinstance(v.v, bool)))
        return Op("isinstance", v, a[1])

    def x_print(self, a, k, n):
        self.event("print", (tuple(a), tuple(sorted(k.items()))), n)
        return NONE

    def x_open(self, a, k, n):
        mode = a[1] if len(a) > 1 else k.get("mode", Const("r"))
        self.event("open", (a[0], mode), n)
        return Op("file", a[0], mode)

    def x_min(self, a, k, n):
        if all(is_int(x) for x in a) and len(a) > 1:
            return Const(min(x.v for x in a))
        return Op("min", *a)

    def x_max(self, a, k, n):
        if all(is_int(x) for x in a) and len(a) > 1:
            return Const(max(x.v for x in a))
        return Op("max", *a)

    def x_importlib_import_module(self, a, k, n):
        self.event("import_module", (a[0],), n)
        return Op("import_module", a[0])

    def x_json_dumps(self, a, k, n):
        return Op("json.dumps", a[0], *[Op("kv", Const(x), y) for x, y in sorted(k.items())])

    def x_json_loads(self, a, k, n):
        return Op("json.loads", a[0])

    def _run_callback_once(self, f, n):
        """a repository function handed to a library routine as callback (re.sub(pattern, fn, text)): it may run, any number
        of times - its effects (writes into shared / caller-owned containers, raises) are recorded by interpreting it once
        on an opaque argument under a fresh 'callback runs' condition"""
        f = self.simp(f)
        if not (isinstance(f, FuncV) or (isinstance(f, Op) and f.op in ("lambda", "bound", "partial"))):
            return
        c = self.fresh("exc@cb%s" % getattr(n, "lineno", "?"), "exc", n)
        self.guard.append(c)
        try:
            if self.feasible():
                self.call_value(f, [Sym("cbarg@%s" % getattr(n, "lineno", "?"))], {}, n)
        except AnalysisError:
            pass
        finally:
            self.guard.pop()

    def x_re_sub(self, a, k, n):
        if len(a) >= 2:
            self._run_callback_once(a[1], n)
        return None

    x_re_subn = x_re_sub

    def x_re_compile(self, a, k, n):
        return Op("re.compile", *a)

    def x_math_ceil(self, a, k, n):
        return Op("ceil", a[0])

    def x_setattr(self, a, k, n):
        name = self.simp(self.fold_under_guard(a[1]))
        if isinstance(name, Ite):
            for c, alt in ((name.c, name.a), (not_(name.c), name.b)):
                self.guard.append(c)
                if self.feasible() and not isinstance(alt, Undef):
                    self.x_setattr([a[0], alt, a[2]], k, n)
                self.guard.pop()
            return NONE
        if isinstance(name, Op) and name.op == "keyerror":
            return NONE      # this path raised KeyError before the store
        if is_const(name, str):
            self.set_attr(a[0], name.v, a[2], n)
            return NONE
        raise AnalysisError("setattr with a non-constant attribute name: %r" % (name,))

    def seq_items(self, v, n):
        """items of a list / comprehension / generator argument of next(), any(), all()"""
        v = self.simp(self.drain(v))
        if isinstance(v, GenV):
            res = self.mk_list([])
            o = self.heap[res.oid]
            o.comp = "gen"
            self.run_generator(v, lambda val: self.list_method(res, o, "append", [val], {}, n), n)
            return o.items
        lo = self.as_list(v)
        if lo is not None:
            return lo.items
        if isinstance(v, Const) and isinstance(v.v, (tuple, list)):
            return [("v", Const(x), TRUE) for x in v.v]
        return None

    def lazy_stop(self, src, items, want):
        """any()/all()/next() over a generator expression consume it lazily: the iteration (and the side effects of producing
        the elements) ends at the first hit.  Recorded as a stop condition of the comprehension's loop."""
        v = self.simp(src)
        o = self.heap.get(v.oid) if isinstance(v, Ref) else None
        if getattr(o, "comp", None) != "gen" or not items:
            return
        for it in items:
            if it[0] == "rep":
                t = self.truth(it[2])
                hit = it[3] if want is None else and_(it[3], t if want else not_(t))
                if hit != FALSE and hit not in it[1].stops:
                    it[1].stops.append(hit)

    def x_iter(self, a, k, n):
        if len(a) == 1 and not k:
            v = self.simp(a[0])
            if isinstance(v, Ref) and isinstance(self.heap.get(v.oid), IterObj):
                return v                    # iter(iterator) is the iterator
            if self.as_list(v) is not None or (isinstance(v, Const) and isinstance(v.v, (tuple, list, str, bytes))) or \
                    (isinstance(v, Op) and v.op == "getslice"):
                return self.alloc(IterObj(self.born_now(), v, Const(0)))
        if len(a) == 2 and not k:
            # iter(callable, sentinel): calls until the sentinel comes back - unrolled where a bound is known (islice)
            return Op("calliter", a[0], a[1])
        return None

    def iter_cell(self, v):
        v = self.simp(v)
        o = self.heap.get(v.oid) if isinstance(v, Ref) else None
        return o if isinstance(o, IterObj) else None

    def drain(self, v):
        """the rest of a positional iterator as a sequence value (the iterator is exhausted afterwards)"""
        o = self.iter_cell(v)
        if o is None:
            return v
        src, pos = o.attrs["src"], self.simp(o.attrs["pos"])
        rest = src if pos == Const(0) else self.getslice(src, pos, NONE, NONE, None)
        g = self.rel_guard(o.born)
        end = self.x_len([src], {}, None)
        o.attrs["pos"] = end if g == TRUE else ite(g, end, pos)
        return rest

    def x_itertools_islice(self, a, k, n):
        src = self.simp(a[0]) if a else None
        if isinstance(src, Op) and src.op == "calliter" and len(a) == 2 and is_int(a[1]) and 0 <= a[1].v <= UNROLL_MAX:
            f, sentinel = src.args
            res = self.mk_list([])
            o = self.heap[res.oid]
            live = []
            for _ in range(a[1].v):
                self.guard.extend(live)
                try:
                    if not self.feasible():
                        break
                    v = self.call_value(f, [], {}, n)
                finally:
                    for _x in live:
                        self.guard.pop()
                more = not_(self.cmp("eq", v, sentinel))
                live.append(more)
                g = and_(*live)
                if g == FALSE:
                    break
                o.items.append(("v", v, g))
            return res
        if a:
            a = [self.drain(a[0])] + list(a[1:])
            if a[0] is not src:
                return Op("call:itertools.islice", *a)
        return None

    def x_next(self, a, k, n):
        cell = self.iter_cell(a[0])
        if cell is not None:
            src, pos = cell.attrs["src"], self.simp(cell.attrs["pos"])
            ln = self.x_len([src], {}, n)
            out = compare("ge", pos, ln)
            if len(a) == 1 and out != FALSE:
                self.guard.append(out)
                try:
                    if self.feasible():
                        self.event("raise", (Op("call:StopIteration"),), n)
                        self.note_raise(self.local_guard(state=True))
                finally:
                    self.guard.pop()
            val = self.getitem(src, pos, n)
            g = self.rel_guard(cell.born)
            step = add(pos, Const(1)) if out == FALSE or len(a) == 1 else ite(out, pos, add(pos, Const(1)))
            cell.attrs["pos"] = step if g == TRUE else ite(g, step, pos)
            if len(a) > 1 and out != FALSE:
                return ite(out, a[1], val)
            return val
        items = self.seq_items(a[0], n)
        if items is not None:
            self.lazy_stop(a[0], items, None)
        if items is None:
            src = self.simp(a[0])
            if len(a) == 1 and isinstance(src, Op) and src.op.startswith("call:"):
                # first element of a fresh external iterable (next(os.walk(p))); an empty one raises StopIteration
                return Op("elem", src, Const(0))
            return Op("call:next", *a)
        has_default = len(a) > 1
        res = a[1] if has_default else Undef("StopIteration")
        none = []
        for it in reversed(items):
            if it[0] == "v":
                res = ite(it[2], it[1], res)
                none.append(not_(it[2]))
            else:
                ex = Op("exists", Const(it[1].lid), it[3])
                if getattr(it[1], "ret_cond", None) is None:
                    it[1].ret_cond = it[3]          # the iteration whose element next() hands out
                res = ite(ex, Op("loopret", Const(it[1].lid), it[2]), res)
                none.append(not_(ex))
        if not has_default:
            empty = and_(*none)
            if empty != FALSE:
                self.event("raise", (Op("call:StopIteration"),), n)
                self.note_raise(and_(self.local_guard(state=True), empty))
        return res

    def _quant(self, a, n, want):
        items = self.seq_items(a[0], n)
        if items is None:
            return None
        self.lazy_stop(a[0], items, want)
        hits = []
        for it in items:
            if it[0] == "v":
                t = self.truth(it[1])
                hits.append(and_(it[2], t if want else not_(t)))
            else:
                t = self.truth(it[2])
                hits.append(Op("exists", Const(it[1].lid), and_(it[3], t if want else not_(t))))
        return or_(*hits)

    def synth_comp(self, f, src, n, as_filter):
        """map(f, xs) / filter(f, xs) over an iterable that is not a tracked list: the generator expression it abbreviates"""
        fr = self.frames[-1]
        uid = self.next_loop
        nf, ns, nx = "<mapf%d>" % uid, "<mapsrc%d>" % uid, "<mapx%d>" % uid
        fr.env[nf], fr.env[ns] = f, src
        x = ast.Name(id=nx, ctx=ast.Load())
        call = x if (isinstance(f, Const) and f.v is None) else ast.Call(func=ast.Name(id=nf, ctx=ast.Load()), args=[x], keywords=[])
        gen = ast.comprehension(target=ast.Name(id=nx, ctx=ast.Store()), iter=ast.Name(id=ns, ctx=ast.Load()),
                                ifs=[call] if as_filter else [], is_async=0)
        node = ast.GeneratorExp(elt=x if as_filter else call, generators=[gen])
        if n is not None:
            ast.copy_location(node, n)
        ast.fix_missing_locations(node)
        try:
            return self.ev(node)
        finally:
            for nm in (nf, ns, nx):
                fr.env.pop(nm, None)

    def x_itertools_starmap(self, a, k, n):
        """starmap(f, xs) is (f(*x) for x in xs)"""
        if len(a) != 2 or k:
            return None
        fr = self.frames[-1]
        uid = self.next_loop
        nf, ns, nx = "<smapf%d>" % uid, "<smapsrc%d>" % uid, "<smapx%d>" % uid
        fr.env[nf], fr.env[ns] = a[0], a[1]
        call = ast.Call(func=ast.Name(id=nf, ctx=ast.Load()), args=[ast.Starred(value=ast.Name(id=nx, ctx=ast.Load()), ctx=ast.Load())], keywords=[])
        gen = ast.comprehension(target=ast.Name(id=nx, ctx=ast.Store()), iter=ast.Name(id=ns, ctx=ast.Load()), ifs=[], is_async=0)
        node = ast.GeneratorExp(elt=call, generators=[gen])
        if n is not None:
            ast.copy_location(node, n)
        ast.fix_missing_locations(node)
        try:
            return self.ev(node)
        finally:
            for nm in (nf, ns, nx):
                fr.env.pop(nm, None)

    def x_filter(self, a, k, n):
        if len(a) == 2 and self.seq_items(a[1], n) is None and not isinstance(self.simp(a[1]), Undef):
            return self.synth_comp(a[0], a[1], n, True)
        if len(a) == 2:
            items = self.seq_items(a[1], n)
            if items is not None and len(items) <= UNROLL_MAX and all(it[0] in ("v", "rep") and not (
                    isinstance(it[1 if it[0] == "v" else 2], Op) and it[1 if it[0] == "v" else 2].op == "splat") for it in items):
                res = self.mk_list([])
                o = self.heap[res.oid]
                src = self.as_list(self.simp(a[1]))
                if getattr(src, "comp", None):
                    o.comp = src.comp
                for it in items:
                    e = it[1] if it[0] == "v" else it[2]
                    g0 = it[2] if it[0] == "v" else it[3]
                    keep = self.truth(e) if (isinstance(a[0], Const) and a[0].v is None) else self.truth(self.call_value(a[0], [e], {}, n))
                    keep = and_(g0, keep)
                    if keep == FALSE:
                        continue
                    o.items.append(("v", e, keep) if it[0] == "v" else ("rep", it[1], e, keep))
                return res
        return None

    def x_map(self, a, k, n):
        if len(a) == 2 and self.seq_items(a[1], n) is None and not isinstance(self.simp(a[1]), Undef):
            return self.synth_comp(a[0], a[1], n, False)
        if len(a) == 2:
            items = self.seq_items(a[1], n)
            if items is not None and len(items) <= UNROLL_MAX and all(it[0] in ("v", "rep") and not (
                    isinstance(it[1 if it[0] == "v" else 2], Op) and it[1 if it[0] == "v" else 2].op == "splat") for it in items):
                res = self.mk_list([])
                o = self.heap[res.oid]
                src = self.as_list(self.simp(a[1]))
                if getattr(src, "comp", None):
                    o.comp = src.comp
                for it in items:
                    if it[0] == "v":
                        o.items.append(("v", self.call_value(a[0], [it[1]], {}, n), it[2]))
                    else:
                        o.items.append(("rep", it[1], self.call_value(a[0], [it[2]], {}, n), it[3]))
                return res
            if items is not None and isinstance(self.simp(a[0]), (FuncV,)) or (isinstance(self.simp(a[0]), Op) and self.simp(a[0]).op in ("lambda", "partial", "bound")):
                # a tracked list with spliced / sorted parts: the generator expression map() abbreviates, as a loop over it
                return self.synth_comp(a[0], a[1], n, False)
        return None

    def x_sum(self, a, k, n):
        items = self.seq_items(a[0], n)
        from .terms import _boolish
        if items is not None and items and all(it[0] == "rep" and (_boolish(self.simp(it[2])) or isinstance(self.simp(it[2]), Const) and
                                                                   isinstance(self.simp(it[2]).v, bool)) for it in items):
            # sum(<truth value per element>): the number of elements for which it holds
            total = a[1] if len(a) > 1 else k.get("start", Const(0))
            for it in items:
                total = add(total, Op("count", Const(it[1].lid), and_(it[3], self.truth(it[2]))))
            return total
        if items is None or any(it[0] != "v" or (isinstance(it[1], Op) and it[1].op == "splat") for it in items):
            return Op("call:sum", *a)
        total = a[1] if len(a) > 1 else k.get("start", Const(0))
        for it in items:
            total = add(total, it[1] if it[2] == TRUE else ite(it[2], it[1], Const(0)))
        return total

    def x_any(self, a, k, n):
        q = self._quant(a, n, True)
        return Op("call:any", *a) if q is None else q

    def x_all(self, a, k, n):
        q = self._quant(a, n, False)
        return Op("call:all", *a) if q is None else not_(q)

    def x_functools_partial(self, a, k, n):
        return Op("partial", *a, *[Op("kv", Const(x), y) for x, y in sorted(k.items())])

    def x_itertools_chain(self, a, k, n):
        lists = [self.as_list(self.simp(x)) for x in a]
        if all(l is not None for l in lists):
            return self.alloc(ListObj(self.born_now(), [it for l in lists for it in l.items], "list"))
        return None

    def x_struct_Struct(self, a, k, n):
        if len(a) == 1 and is_const(a[0], str) and self.struct_layout(a[0].v) is not None:
            return Op("structobj", a[0])
        return None

    def x_struct_calcsize(self, a, k, n):
        if len(a) == 1 and is_const(a[0], str):
            lay = self.struct_layout(a[0].v)
            if lay is not None:
                return Const(lay[1])
        return None

    def struct_layout(self, f):
        """(byte order, total size, [(offset, width, signed) | (offset, n, 'bytes')]) for the format codes modelled"""
        order = "big"
        if f[:1] in "><!=@":
            if f[0] in "=@":
                return None
            order = "little" if f[0] == "<" else "big"
            f = f[1:]
        sizes = {"B": (1, False), "b": (1, True), "H": (2, False), "h": (2, True), "I": (4, False), "i": (4, True),
                 "L": (4, False), "l": (4, True), "Q": (8, False), "q": (8, True)}
        fields = []
        num = ""
        off = 0
        for ch in f:
            if ch.isdigit():
                num += ch
                continue
            cnt = int(num) if num else 1
            num = ""
            if ch in sizes:
                for _ in range(cnt):
                    fields.append((off, sizes[ch][0], sizes[ch][1]))
                    off += sizes[ch][0]
            elif ch == "x":
                off += cnt
            elif ch == "s":
                fields.append((off, cnt, "bytes"))
                off += cnt
            elif ch == "c":
                for _ in range(cnt):
                    fields.append((off, 1, "bytes"))
                    off += 1
            elif ch == " ":
                continue
            else:
                return None
        if num:
            return None
        return order, off, fields

    def len_multiple_of(self, ln, total):
        """len - len % total (the idiom that cuts a buffer to its complete records) is a multiple of total"""
        try:
            from .pelx import equivalent
            return bool(equivalent(binop("mod", ln, Const(total)), Const(0))[0])
        except Exception:
            return False

    def struct_unpack(self, fmtstr, data, start, n, exact=True, check=True):
        lay = self.struct_layout(fmtstr)
        if lay is None:
            return None
        order, total, fields = lay
        ln = self.x_len([data], {}, n)
        bad = compare("ne", ln, add(start, Const(total))) if exact else compare("lt", ln, add(start, Const(total)))
        if not check:
            bad = FALSE
        if bad != FALSE:
            self.guard.append(bad)
            try:
                if self.feasible():
                    self.event("raise", (Op("call:struct.error"),), n)
                    self.note_raise(self.local_guard(state=True))
            finally:
                self.guard.pop()
        vals = []
        for off, w, kind in fields:
            sl = self.getslice(data, add(start, Const(off)), add(start, Const(off + w)), NONE, n)
            vals.append(Op("m:tobytes", sl) if kind == "bytes" and False else (sl if kind == "bytes" else
                        Op("int_from_bytes", sl, Const(order), Const(kind))))
        return self.mk_list(vals, "tuple")

    def x_struct_unpack_from(self, a, k, n):
        if len(a) >= 2 and is_const(a[0], str):
            start = a[2] if len(a) > 2 else k.get("offset", Const(0))
            return self.struct_unpack(a[0].v, a[1], start, n, exact=False)
        return None

    def x_struct_unpack(self, a, k, n):
        """struct.unpack with a constant big/little-endian format of fixed-size integer codes = one integer field per code"""
        if len(a) == 2 and is_const(a[0], str):
            r = self.struct_unpack(a[0].v, a[1], Const(0), n)
            if r is not None:
                return r
        if len(a) != 2 or not is_const(a[0], str):
            return None
        f = a[0].v
        order = "big"
        if f[:1] in "><!=@":
            order = "little" if f[0] == "<" else "big"
            if f[0] in "=@":
                return None
            f = f[1:]
        sizes = {"B": (1, False), "b": (1, True), "H": (2, False), "h": (2, True), "I": (4, False), "i": (4, True),
                 "L": (4, False), "l": (4, True), "Q": (8, False), "q": (8, True)}
        codes = []
        num = ""
        for ch in f:
            if ch.isdigit():
                num += ch
            elif ch in sizes:
                codes += [ch] * (int(num) if num else 1)
                num = ""
            elif ch == "x":
                codes += ["x"] * (int(num) if num else 1)
                num = ""
            else:
                return None
        if num:
            return None
        total = sum(1 if c == "x" else sizes[c][0] for c in codes)
        data = a[1]
        # wrong length raises struct.error
        ln = self.x_len([data], {}, n)
        bad = compare("ne", ln, Const(total))
        if bad != FALSE:
            self.guard.append(bad)
            try:
                if self.feasible():
                    self.event("raise", (Op("call:struct.error"),), n)
                    self.note_raise(self.local_guard(state=True))
            finally:
                self.guard.pop()
        vals = []
        off = 0
        for c in codes:
            if c == "x":
                off += 1
                continue
            w, signed = sizes[c]
            vals.append(Op("int_from_bytes", self.getslice(data, Const(off), Const(off + w), NONE, n), Const(order), Const(signed)))
            off += w
        return self.mk_list(vals, "tuple")

    def x_operator_methodcaller(self, a, k, n):
        if k:
            return None
        return Op("methodcaller", *a)

    def x_operator_attrgetter(self, a, k, n):
        return Op("attrgetter", *a)

    def x_staticmethod(self, a, k, n):
        # staticmethod(f) / classmethod(f) used as plain calls (alias = staticmethod(module_function)): the function itself
        return Op("staticfn", a[0]) if len(a) == 1 and isinstance(self.simp(a[0]), FuncV) else None

    def x_operator_getitem(self, a, k, n):
        if len(a) == 2:
            return self.getitem(a[0], a[1], n)
        return None

    def x_operator_contains(self, a, k, n):
        if len(a) == 2:
            return self.call_value(Op("bound", a[0], Const("__contains__")), [a[1]], {}, n)
        return None

    def x_functools_reduce(self, a, k, n):
        if len(a) in (2, 3):
            els = self.concrete_iter(self.simp(a[1]))
            if els is not None and len(els) <= UNROLL_MAX and (len(a) == 3 or els):
                acc = a[2] if len(a) == 3 else els[0]
                for e in (els if len(a) == 3 else els[1:]):
                    acc = self.call_value(a[0], [acc, e], {}, n)
                return acc
        return None

    def _operator_binop(op, inplace=False):
        def f(self, a, k, n):
            if len(a) != 2 or k:
                return None
            if op == "add":
                lo = self.as_list(a[0])
                if lo is not None and inplace:
                    self.list_method(a[0], lo, "extend", [a[1]], {}, n)
                    return a[0]
            return binop(op, a[0], a[1])
        return f
    for _nm, _op in (("add", "add"), ("sub", "sub"), ("mul", "mul"), ("and_", "bitand"), ("or_", "bitor"), ("xor", "bitxor"),
                     ("lshift", "lshift"), ("rshift", "rshift"), ("floordiv", "floordiv"), ("mod", "mod")):
        locals()["x_operator_" + _nm] = _operator_binop(_op)
        locals()["x_operator_i" + _nm.rstrip("_")] = _operator_binop(_op, True)
        locals()["x_int___%s__" % _nm.rstrip("_")] = _operator_binop(_op)       # int.__and__(a, b) is a & b for integers
    del _nm, _op

    def x_operator_itemgetter(self, a, k, n):
        return Op("itemgetter", *a)

    def x_super(self, a, k, n):
        fr = self.frames[-1]
        if a or fr.finfo is None or fr.finfo.cls is None or not fr.finfo.params:
            raise AnalysisError("super() form not modelled (line %s)" % getattr(n, "lineno", "?"))
        selfv = fr.env.get(fr.finfo.params[0])
        return Op("superobj", selfv, Const(fr.finfo.cls.qual))

    def x_slice(self, a, k, n):
        if len(a) == 1:
            return Op("sliceobj", NONE, a[0], NONE)
        return Op("sliceobj", a[0], a[1], a[2] if len(a) > 2 else NONE)

    def x_divmod(self, a, k, n):
        return self.mk_list([binop("floordiv", a[0], a[1]), binop("mod", a[0], a[1])], "tuple")

    def x_getattr(self, a, k, n):
        name = self.simp(self.fold_under_guard(a[1]))
        if isinstance(name, Ite):
            # the attribute name is one of a few constants chosen by conditions
            self.guard.append(name.c)
            x = self.x_getattr([a[0], name.a] + list(a[2:]), k, n) if self.feasible() else Undef()
            self.guard.pop()
            self.guard.append(not_(name.c))
            y = self.x_getattr([a[0], name.b] + list(a[2:]), k, n) if self.feasible() else Undef()
            self.guard.pop()
            return ite(name.c, x, y)
        if isinstance(name, Undef):
            return name
        if is_const(name, str):
            return self.get_attr(a[0], name.v, n)
        self.event("reflect", ("getattr", tuple(a)), n)
        return Op("getattr", *a)


class Interpreter(_ExprMixin, _CallMixin, _StmtMixin, _LoopMixin, _ExtMixin, Interp):
    """Public entry points."""

    def call(self, qual, args=(), kwargs=None, selfv=None):
        """Interpret function `qual` on the given argument terms (module-level call)."""
        fi = self.prog.func(qual)
        root = Frame(None, {}, fi.module.name)
        self.frames.append(root)
        try:
            self.module_ns(fi.module.name)
            return self.call_func(fi, selfv, list(args), kwargs or {}, None)
        finally:
            self.frames.pop()

    def new(self, cls_qual, args=(), kwargs=None):
        ci = self.prog.cls(cls_qual)
        root = Frame(None, {}, ci.module.name)
        self.frames.append(root)
        try:
            self.module_ns(ci.module.name)
            return self.instantiate(ci, list(args), kwargs or {}, None)
        finally:
            self.frames.pop()

    def method(self, ref, name, args=(), kwargs=None):
        o = self.heap[ref.oid]
        root = Frame(None, {}, o.cls.module.name)
        self.frames.append(root)
        try:
            return self.call_method(ref, name, list(args), kwargs or {}, None)
        finally:
            self.frames.pop()

    def global_value(self, modname, name):
        ns = self.module_ns(modname)
        if ns is None or name not in ns:
            raise AnalysisError("anchor %s.%s not found" % (modname, name))
        return ns[name]

    def obj(self, ref):
        return self.heap[ref.oid]


# ---------------------------------------------------------------- generators
def _run_generator(self, gen, consume, node):
    """execute the generator function's body; at every yield run consume(value) in the consumer's frame"""
    consumer = self.frames[-1]
    self._gen_consumer = (consume, consumer)
    self._running_gen = True
    try:
        self.call_func(gen.finfo, gen.selfv, list(gen.args), dict(gen.kwargs), node)
    finally:
        self._running_gen = False
        self._gen_consumer = None


def _ev_Yield(self, n):
    v = self.ev(n.value) if n.value is not None else NONE
    self.do_yield(v, n)
    return NONE


def _ev_YieldFrom(self, n):
    src = self.simp(self.ev(n.value))
    if isinstance(src, GenV):
        self.run_generator(src, lambda v: self.do_yield(v, n), n)
        return NONE
    els = self.concrete_iter(src)
    if els is not None and len(els) <= UNROLL_MAX:
        for e in els:
            self.do_yield(e, n)
        return NONE
    # any other iterable:  yield from xs  is  for <v> in xs: yield <v>
    tmp = "<yf%d>" % getattr(n, "lineno", 0)
    src_name = "<yfsrc%d>" % getattr(n, "lineno", 0)
    self.frames[-1].env[src_name] = src
    loop = ast.For(target=ast.Name(id=tmp, ctx=ast.Store()), iter=ast.Name(id=src_name, ctx=ast.Load()),
                   body=[ast.Expr(value=ast.Yield(value=ast.Name(id=tmp, ctx=ast.Load())))], orelse=[])
    ast.copy_location(loop, n)
    ast.fix_missing_locations(loop)
    try:
        self.exec_block([loop])
    finally:
        self.frames[-1].env.pop(tmp, None)
        self.frames[-1].env.pop(src_name, None)
    return NONE


def _do_yield(self, v, node):
    gfr = None
    for f in reversed(self.frames):
        if getattr(f, "on_yield", None) is not None:
            gfr = f
            break
    if gfr is None:
        raise AnalysisError("yield outside a driven generator (line %s)" % getattr(node, "lineno", "?"))
    consumer = gfr.consumer_frame
    self.event("yield", (v,), node)
    saved_guard = self.guard
    flat = self.raw_guard_list()
    nd0, nr0 = len(consumer.dead), len(consumer.rdead)
    ctl_state = [(len(c.brk), len(c.cont)) for c in consumer.loop_stack]
    self.guard = flat
    self.frames.append(consumer)
    try:
        gfr.on_yield(v)
    finally:
        self.frames.pop()
        self.guard = saved_guard
    # whatever made the consumer stop iterating (break / return / raise) also stops the generator
    if getattr(gfr, "gen_cm", False):
        # a context manager: leaving the with-body by return / break / continue resumes the generator after the yield
        # (__exit__ without an exception); only an exception stops it there
        stop = list(consumer.rdead[nr0:])
    else:
        stop = list(consumer.dead[nd0:]) + list(consumer.rdead[nr0:])
        for c, (nb, nc) in zip(consumer.loop_stack, ctl_state):
            stop += c.brk[nb:]
    for cnd in stop:
        gfr.dead.append(cnd)


Interpreter.run_generator = _run_generator
Interpreter.ev_Yield = _ev_Yield
Interpreter.ev_YieldFrom = _ev_YieldFrom
Interpreter.do_yield = _do_yield

_orig_st_For = _LoopMixin.st_For


def _iter_protocol(self, it, node, depth=0):
    """what a for statement iterates: an object with __iter__ hands over what that returns; iter(x) of a plain iterable is x"""
    it = self.simp(it)
    if depth < 3 and isinstance(it, Ref):
        o = self.heap.get(it.oid)
        if isinstance(o, Instance) and not isinstance(o, IterObj) and getattr(o, "cls", None) is not None and \
                isinstance(self.class_attr(o.cls, "__iter__"), FuncV):
            r = self.call_value(FuncV(self.class_attr(o.cls, "__iter__").info, it), [], {}, node)
            return _iter_protocol(self, self.drain(r), node, depth + 1)
    if depth < 3 and isinstance(it, Op) and it.op == "call:iter" and len(it.args) == 1:
        return _iter_protocol(self, it.args[0], node, depth + 1)
    return it


def _st_For_gen(self, st):
    it = self.simp(self.drain(self.ev(st.iter)))
    it = _iter_protocol(self, it, st)
    if isinstance(it, Op) and it.op in ("call:itertools.takewhile", "call:itertools.starmap") and len(it.args) == 2 and not st.orelse:
        # for x in takewhile(pred, xs): body   is   for x in xs: if not pred(x): break; body
        # for r in starmap(f, xs): body        is   for <a> in xs: r = f(*<a>); body
        fr = self.frames[-1]
        k_ = getattr(st, "lineno", 0)
        fn_name, src_name, tmp = "<itf%d>" % k_, "<its%d>" % k_, "<ita%d>" % k_
        fr.env[fn_name], fr.env[src_name] = it.args[0], it.args[1]
        L_, S_ = ast.Load(), ast.Store()
        if it.op == "call:itertools.takewhile":
            test = ast.UnaryOp(op=ast.Not(), operand=ast.Call(func=ast.Name(id=fn_name, ctx=L_), args=[st.target_load if hasattr(st, "target_load") else
                                                                                                    _target_as_load(st.target)], keywords=[]))
            body = [ast.If(test=test, body=[ast.Break()], orelse=[])] + list(st.body)
            loop = ast.For(target=st.target, iter=ast.Name(id=src_name, ctx=L_), body=body, orelse=[])
        else:
            call = ast.Call(func=ast.Name(id=fn_name, ctx=L_), args=[ast.Starred(value=ast.Name(id=tmp, ctx=L_), ctx=L_)], keywords=[])
            body = [ast.Assign(targets=[st.target], value=call)] + list(st.body)
            loop = ast.For(target=ast.Name(id=tmp, ctx=S_), iter=ast.Name(id=src_name, ctx=L_), body=body, orelse=[])
        ast.copy_location(loop, st)
        ast.fix_missing_locations(loop)
        try:
            return _st_For_gen(self, loop)
        finally:
            for nm in (fn_name, src_name, tmp):
                fr.env.pop(nm, None)
    if isinstance(it, GenV):
        fr = self.frames[-1]
        ctl = LoopCtl()
        ctl.base_set = flat_set(self.cur_guard_list(state=True))
        fr.loop_stack.append(ctl)
        self.event("for_generator", (it.finfo.qual,), st)

        def consume(v):
            ctl.cont = []
            self.assign(st.target, v, st)
            if self.feasible():
                self.exec_block(st.body)
            ctl.cont = []
        try:
            self.run_generator(it, consume, st)
        finally:
            brk = list(ctl.brk)
            fr.loop_stack.pop()
        if st.orelse:
            self.guard.append(and_(*[not_(b) for b in brk]))
            if self.feasible():
                self.exec_block(st.orelse)
            self.guard.pop()
        return
    # re-use the evaluated iterable (avoid evaluating the expression twice)
    return _orig_st_For_with(self, st, it)


def _target_as_load(t):
    """the loop target as an expression (to hand the current element to a predicate)"""
    if isinstance(t, ast.Name):
        return ast.Name(id=t.id, ctx=ast.Load())
    if isinstance(t, (ast.Tuple, ast.List)):
        return ast.Tuple(elts=[_target_as_load(e) for e in t.elts], ctx=ast.Load())
    raise AnalysisError("takewhile over a loop target that is not a name / tuple of names")


def _const_leaves(t):
    if isinstance(t, Ite):
        a, b = _const_leaves(t.a), _const_leaves(t.b)
        return None if a is None or b is None else a + b
    if is_int(t):
        return [t.v]
    return None


def _orig_st_For_with(self, st, it):
    elems = self.concrete_iter(it)
    fr = self.frames[-1]
    if elems is None and isinstance(it, Op) and it.op == "range" and len(it.args) == 1:
        # range(n) where n is one of a few known small numbers chosen by conditions (a match counter): iteration k runs iff n > k
        lv = _const_leaves(it.args[0])
        if lv is not None and 0 <= max(lv) <= 8:
            ctl = LoopCtl()
            fr.loop_stack.append(ctl)
            self.event("loop_unrolled", (max(lv),), st)
            ctl.base_set = flat_set(self.cur_guard_list(state=True))
            for kk in range(max(lv)):
                ctl.cont = []
                self.guard.append(self.truth(compare("gt", it.args[0], Const(kk))))
                try:
                    if self.feasible():
                        self.assign(st.target, Const(kk), st)
                        self.exec_block(st.body)
                finally:
                    self.guard.pop()
            ctl.cont = []
            brk = list(ctl.brk)
            fr.loop_stack.pop()
            if st.orelse:
                self.guard.append(and_(*[not_(b) for b in brk]))
                if self.feasible():
                    self.exec_block(st.orelse)
                self.guard.pop()
            return
    if elems is None and isinstance(it, Op) and it.op == "range" and len(it.args) == 1 and not isinstance(it.args[0], Const):
        # range(<0..3 made of truth values: int(c), sums of 1 if c else 0>): iteration i runs when the count exceeds i
        gs = self.small_count_guards(it.args[0])
        if gs is not None:
            ctl = LoopCtl()
            fr.loop_stack.append(ctl)
            self.event("loop_unrolled", (len(gs),), st)
            ctl.base_set = flat_set(self.cur_guard_list(state=True))
            for kk, g in enumerate(gs):
                ctl.cont = []
                self.guard.append(g)
                try:
                    if self.feasible():
                        self.assign(st.target, Const(kk), st)
                        self.exec_block(st.body)
                finally:
                    self.guard.pop()
            ctl.cont = []
            brk = list(ctl.brk)
            fr.loop_stack.pop()
            if st.orelse:
                self.guard.append(and_(*[not_(b) for b in brk]))
                if self.feasible():
                    self.exec_block(st.orelse)
                self.guard.pop()
            return
    if elems is None and isinstance(it, Ref):
        # a short list whose elements are individually known but present only under conditions
        # ([x for x in (a, b, c) if x]): one guarded iteration per possible element
        o = self.heap.get(it.oid)
        if isinstance(o, ListObj) and o.prev_iter is None and 0 < len(o.items) <= UNROLL_MAX and \
                all(i[0] == "v" and not (isinstance(i[1], Op) and (i[1].op == "splat" or i[1].op.startswith("listmut:"))) for i in o.items):
            ctl = LoopCtl()
            fr.loop_stack.append(ctl)
            self.event("loop_unrolled", (len(o.items),), st)
            ctl.base_set = flat_set(self.cur_guard_list(state=True))
            for _, e, g in list(o.items):
                ctl.cont = []
                self.guard.append(g)
                try:
                    if self.feasible():
                        self.assign(st.target, e, st)
                        self.exec_block(st.body)
                finally:
                    self.guard.pop()
            ctl.cont = []
            brk = list(ctl.brk)
            fr.loop_stack.pop()
            if st.orelse:
                self.guard.append(and_(*[not_(b) for b in brk]))
                if self.feasible():
                    self.exec_block(st.orelse)
                self.guard.pop()
            return
    if elems is not None and len(elems) <= UNROLL_MAX:
        ctl = LoopCtl()
        fr.loop_stack.append(ctl)
        self.event("loop_unrolled", (len(elems),), st)
        ctl.base_set = flat_set(self.cur_guard_list(state=True))
        for e in elems:
            ctl.cont = []
            if not self.feasible():
                break
            self.assign(st.target, e, st)
            self.exec_block(st.body)
        ctl.cont = []
        brk = list(ctl.brk)
        fr.loop_stack.pop()
        if st.orelse:
            self.guard.append(and_(*[not_(b) for b in brk]))
            if self.feasible():
                self.exec_block(st.orelse)
            self.guard.pop()
        return
    self.summarise(st, "for", it)


Interpreter.st_For = _st_For_gen
Interpreter.st_AsyncFor = _st_For_gen

_orig_x_list = _ExtMixin.x_list


def _x_list_gen(self, a, k, n):
    if a:
        a = [self.drain(a[0])] + list(a[1:])
        v = self.simp(a[0])
        if isinstance(v, GenV):
            res = self.mk_list([])
            o = self.heap[res.oid]
            self.run_generator(v, lambda val: self.list_method(res, o, "append", [val], {}, n), n)
            return res
    return _orig_x_list(self, a, k, n)


Interpreter.x_list = _x_list_gen
