"""Term domain of the abstract interpreter (E4/E5).

Values are immutable terms.  Leaves: Const, Sym, Ext (something outside the
repository), Undef.  Inner nodes: Op(name, args), Ite(c, a, b), Lin (linear
integer normal form).  Heap objects are referenced through Ref(oid).

Smart constructors fold constants, normalise linear arithmetic and simplify
conditionals so that two different ways of writing the same computation give
the same (or evaluation-equivalent) term.
"""
import operator
import string
import re

MAX_REPR = 400


class V:
    __slots__ = ()

    def children(self):
        return ()


class Const(V):
    __slots__ = ("v", "_h")

    def __init__(self, v):
        self.v = v
        try:
            self._h = hash((type(v).__name__, v))
        except TypeError:
            self._h = hash(repr(v))

    def __eq__(self, o):
        return isinstance(o, Const) and type(o.v) is type(self.v) and o.v == self.v

    def __hash__(self):
        return self._h

    def __repr__(self):
        r = repr(self.v)
        return r if len(r) < 80 else r[:77] + "..."


class Sym(V):
    """A free symbol: parameter, opaque input, loop index, exception flag."""
    __slots__ = ("name", "kind", "info")

    def __init__(self, name, kind="sym", info=None):
        self.name = name
        self.kind = kind
        self.info = info

    def __eq__(self, o):
        return isinstance(o, Sym) and o.name == self.name and o.kind == self.kind

    def __hash__(self):
        return hash(("Sym", self.name, self.kind))

    def __repr__(self):
        return "$" + self.name


class Ext(V):
    """A value that lives outside the analysed repository (os, json, print...)."""
    __slots__ = ("name",)

    def __init__(self, name):
        self.name = name

    def __eq__(self, o):
        return isinstance(o, Ext) and o.name == self.name

    def __hash__(self):
        return hash(("Ext", self.name))

    def __repr__(self):
        return "<" + self.name + ">"


class Undef(V):
    __slots__ = ("name",)

    def __init__(self, name=""):
        self.name = name

    def __eq__(self, o):
        return isinstance(o, Undef)

    def __hash__(self):
        return hash("Undef")

    def __repr__(self):
        return "UNDEF"


class Ref(V):
    """Reference to a heap object of the interpreter."""
    __slots__ = ("oid", "kind")

    def __init__(self, oid, kind="obj"):
        self.oid = oid
        self.kind = kind

    def __eq__(self, o):
        return isinstance(o, Ref) and o.oid == self.oid

    def __hash__(self):
        return hash(("Ref", self.oid))

    def __repr__(self):
        return "&%s%d" % (self.kind, self.oid)


class FuncV(V):
    __slots__ = ("info", "selfv")

    def __init__(self, info, selfv=None):
        self.info = info
        self.selfv = selfv

    def __eq__(self, o):
        return isinstance(o, FuncV) and o.info is self.info and o.selfv == self.selfv

    def __hash__(self):
        return hash(("FuncV", id(self.info), self.selfv))

    def __repr__(self):
        return "fn:" + self.info.qual


class ClassV(V):
    __slots__ = ("info",)

    def __init__(self, info):
        self.info = info

    def __eq__(self, o):
        return isinstance(o, ClassV) and o.info is self.info

    def __hash__(self):
        return hash(("ClassV", id(self.info)))

    def __repr__(self):
        return "class:" + self.info.qual


class ModuleV(V):
    __slots__ = ("name",)

    def __init__(self, name):
        self.name = name

    def __eq__(self, o):
        return isinstance(o, ModuleV) and o.name == self.name

    def __hash__(self):
        return hash(("ModuleV", self.name))

    def __repr__(self):
        return "mod:" + self.name


class Op(V):
    """hash-consed: structurally equal terms are the same object"""
    __slots__ = ("op", "args", "_h", "__weakref__")
    _table = {}

    def __new__(cls, op, *args):
        key = (op, args)
        t = cls._table.get(key)
        if t is None:
            t = object.__new__(cls)
            t.op = op
            t.args = args
            t._h = hash(key)
            cls._table[key] = t
        return t

    def __eq__(self, o):
        return self is o

    def __hash__(self):
        return self._h

    def children(self):
        return self.args

    def __repr__(self):
        return brepr(self)


class Ite(V):
    __slots__ = ("c", "a", "b", "_h")
    _table = {}

    def __new__(cls, c, a, b):
        key = (c, a, b)
        t = cls._table.get(key)
        if t is None:
            t = object.__new__(cls)
            t.c, t.a, t.b = c, a, b
            t._h = hash(("Ite",) + key)
            cls._table[key] = t
        return t

    def __eq__(self, o):
        return self is o

    def __hash__(self):
        return self._h

    def children(self):
        return (self.c, self.a, self.b)

    def __repr__(self):
        return brepr(self)


class Lin(V):
    """const + sum(coeff * term) over integer-valued terms (coeff != 0)."""
    __slots__ = ("const", "terms", "_h")
    _table = {}

    def __new__(cls, const, terms):
        terms = tuple(sorted(terms, key=lambda tc: _sort_key(tc[0])))
        key = (const, terms)
        t = cls._table.get(key)
        if t is None:
            t = object.__new__(cls)
            t.const = const
            t.terms = terms
            t._h = hash(("Lin",) + key)
            cls._table[key] = t
        return t

    def __eq__(self, o):
        return self is o

    def __hash__(self):
        return self._h

    def children(self):
        return tuple(t for t, _ in self.terms)

    def __repr__(self):
        return brepr(self)


_SK = {}


def _sort_key(t):
    """deterministic total order for canonical forms (cached structural key)"""
    k = _SK.get(id(t))
    if k is None or k[0] is not t:
        if isinstance(t, Op):
            sk = ("O", t.op, len(t.args), tuple(_sort_key(a) for a in t.args))
        elif isinstance(t, Ite):
            sk = ("I", _sort_key(t.c), _sort_key(t.a), _sort_key(t.b))
        elif isinstance(t, Lin):
            sk = ("L", t.const, tuple((_sort_key(x), c) for x, c in t.terms))
        else:
            sk = ("Z", type(t).__name__, repr(t))
        sk = hash(sk), sk if not isinstance(t, (Op, Ite, Lin)) else None
        _SK[id(t)] = (t, sk)
        return sk
    return k[1]


def brepr(t, budget=None):
    """size-bounded rendering (terms are DAGs: a naive repr is exponential)"""
    if budget is None:
        budget = [MAX_REPR]

    def rec(x, depth):
        if budget[0] <= 0:
            return "..."
        if isinstance(x, Op):
            if depth > 12:
                r = x.op + "(...)"
            else:
                parts = []
                for a in x.args:
                    if budget[0] <= 0:
                        parts.append("...")
                        break
                    parts.append(rec(a, depth + 1))
                r = "%s(%s)" % (x.op, ", ".join(parts))
                return r
        elif isinstance(x, Ite):
            if depth > 12:
                r = "ite(...)"
            else:
                return "ite(%s, %s, %s)" % (rec(x.c, depth + 1), rec(x.a, depth + 1), rec(x.b, depth + 1))
        elif isinstance(x, Lin):
            parts = []
            for y, c in x.terms:
                ry = rec(y, depth + 1)
                parts.append(ry if c == 1 else "%d*%s" % (c, ry))
            if x.const or not parts:
                parts.append(str(x.const))
            return "(" + " + ".join(parts) + ")"
        else:
            r = repr(x)
        budget[0] -= len(r)
        return r
    return rec(t, 0)


TRUE = Const(True)
FALSE = Const(False)
NONE = Const(None)


def is_const(v, *types):
    return isinstance(v, Const) and (not types or isinstance(v.v, types))


def is_int(v):
    return isinstance(v, Const) and isinstance(v.v, int) and not isinstance(v.v, bool)


# --------------------------------------------------------------------------
# linear arithmetic

def _lin_parts(v):
    if isinstance(v, Lin):
        return v.const, dict(v.terms)
    if is_int(v) or is_const(v, bool):
        return int(v.v), {}
    return 0, {v: 1}


def _mk_lin(const, d):
    d = {t: c for t, c in d.items() if c != 0}
    if not d:
        return Const(const)
    if const == 0 and len(d) == 1:
        (t, c), = d.items()
        if c == 1:
            return t
    return Lin(const, d.items())


def _numeric(v):
    """Could this term be an integer (so that + means arithmetic)?"""
    if isinstance(v, Const):
        return isinstance(v.v, int)
    if isinstance(v, Lin):
        return True
    if isinstance(v, Op):
        return v.op in NUMERIC_OPS or v.op.startswith("int") or v.op in ("len", "ord", "m:index", "m:find")
    if isinstance(v, Ite):
        return _numeric(v.a) and _numeric(v.b)
    if isinstance(v, Sym):
        return v.kind in ("int", "idx", "trip", "loopvar_int")
    return False


NUMERIC_OPS = {"mul", "floordiv", "mod", "lshift", "rshift", "bitand", "bitor", "bitxor",
               "neg", "int_from_bytes", "len", "pow", "sum"}


def add(a, b):
    if isinstance(a, Const) and isinstance(b, Const):
        try:
            return Const(a.v + b.v)
        except Exception:
            return Op("add", a, b)
    if _numeric(a) and _numeric(b):
        ca, da = _lin_parts(a)
        cb, db = _lin_parts(b)
        d = dict(da)
        for t, c in db.items():
            d[t] = d.get(t, 0) + c
        return _mk_lin(ca + cb, d)
    if (is_int(a) and a.v == 0 and _numeric(b)):
        return b
    if (is_int(b) and b.v == 0 and _numeric(a)):
        return a
    # string / list concatenation or unknown
    if isinstance(a, Op) and a.op == "concat":
        return Op("concat", *(a.args + (b.args if isinstance(b, Op) and b.op == "concat" else (b,))))
    if isinstance(b, Op) and b.op == "concat":
        return Op("concat", a, *b.args)
    if _stringy(a) or _stringy(b):
        return Op("concat", a, b)
    # default: assume arithmetic when one side is numeric and other is a plain symbol
    if _numeric(a) or _numeric(b):
        ca, da = _lin_parts(a)
        cb, db = _lin_parts(b)
        d = dict(da)
        for t, c in db.items():
            d[t] = d.get(t, 0) + c
        return _mk_lin(ca + cb, d)
    return Op("add", a, b)


def _stringy(v):
    if isinstance(v, Const):
        return isinstance(v.v, (str, bytes))
    if isinstance(v, Op):
        return v.op in ("concat", "fmt", "str", "hex", "chr", "decode", "strmul", "m:hex", "m:strip", "m:rstrip",
                        "m:lstrip", "m:lower", "m:upper", "m:join", "m:format", "m:ljust", "m:rjust",
                        "m:replace", "getslice_str", "m:encode", "m:decode", "repr")
    if isinstance(v, Ite):
        return _stringy(v.a) or _stringy(v.b)
    return False


def neg(a):
    if is_int(a):
        return Const(-a.v)
    c, d = _lin_parts(a)
    return _mk_lin(-c, {t: -k for t, k in d.items()})


def sub(a, b):
    if isinstance(a, Const) and isinstance(b, Const):
        try:
            return Const(a.v - b.v)
        except Exception:
            return Op("sub", a, b)
    if isinstance(a, Ref) or isinstance(b, Ref):
        return Op("sub", a, b)
    return add(a, neg(b))


def mul(a, b):
    if isinstance(a, Const) and isinstance(b, Const):
        try:
            return Const(a.v * b.v)
        except Exception:
            return Op("mul", a, b)
    if is_int(b) and not is_int(a):
        a, b = b, a
    if is_int(a) and _numeric(b):
        c, d = _lin_parts(b)
        return _mk_lin(a.v * c, {t: a.v * k for t, k in d.items()})
    if is_int(a) and not _stringy(b) and not isinstance(b, (Ref,)):
        # symbol * int: treat as numeric unless evidently a string
        c, d = _lin_parts(b)
        return _mk_lin(a.v * c, {t: a.v * k for t, k in d.items()})
    if _sort_key(a) > _sort_key(b):
        a, b = b, a
    return Op("mul", a, b)


_BIN = {
    "floordiv": operator.floordiv, "mod": operator.mod, "lshift": operator.lshift,
    "rshift": operator.rshift, "bitand": operator.and_, "bitor": operator.or_,
    "bitxor": operator.xor, "pow": operator.pow, "truediv": operator.truediv,
    "matmul": None,
}
_CMP = {"eq": operator.eq, "ne": operator.ne, "lt": operator.lt, "le": operator.le,
        "gt": operator.gt, "ge": operator.ge}
_CMP_NEG = {"eq": "ne", "ne": "eq", "lt": "ge", "ge": "lt", "gt": "le", "le": "gt",
            "in": "notin", "notin": "in", "is": "isnot", "isnot": "is"}
_CMP_SWAP = {"lt": "gt", "gt": "lt", "le": "ge", "ge": "le", "eq": "eq", "ne": "ne"}


def binop(op, a, b):
    if op == "add":
        return add(a, b)
    if op == "sub":
        return sub(a, b)
    if op == "mul":
        return mul(a, b)
    if op == "mod" and (_stringy(a) or (isinstance(a, Const) and isinstance(a.v, (str, bytes)))):
        return pct_format(a, b)
    if isinstance(a, Const) and isinstance(b, Const) and _BIN.get(op):
        try:
            return Const(_BIN[op](a.v, b.v))
        except Exception:
            pass
    if op in ("bitand", "bitor", "bitxor") and _sort_key(a) > _sort_key(b):
        a, b = b, a
    return Op(op, a, b)


_NEVER_NONE = frozenset((
    "int_from_bytes", "len", "bitand", "bitor", "bitxor", "rshift", "lshift", "mul", "add", "sub", "mod", "floordiv", "fmt", "concat",
    "int", "str", "m:hex", "m:decode", "m:strip", "m:rstrip", "m:lstrip", "m:upper", "m:lower", "chr", "ord", "b2i", "max", "min",
    "count", "fv", "hex", "strdecode", "m:tobytes", "bytes", "abs"))


def compare(op, a, b):
    if isinstance(a, Const) and isinstance(b, Const):
        try:
            if op in _CMP:
                return Const(bool(_CMP[op](a.v, b.v)))
            if op == "in":
                return Const(a.v in b.v)
            if op == "notin":
                return Const(a.v not in b.v)
            if op == "is":
                return Const(a.v is b.v or (a.v == b.v and type(a.v) is type(b.v) and a.v in (None, True, False)))
            if op == "isnot":
                return Const(not (a.v is b.v or (a.v == b.v and type(a.v) is type(b.v) and a.v in (None, True, False))))
        except Exception:
            pass
    if op in ("is", "isnot", "eq", "ne"):
        # a Ref is never None / never equals a different Ref
        if isinstance(a, Ref) and isinstance(b, Ref):
            same = a.oid == b.oid
            if op in ("is", "eq") and same:
                return TRUE
            if op in ("isnot", "ne") and same:
                return FALSE
            if op == "is":
                return FALSE
            if op == "isnot":
                return TRUE
        for x, y in ((a, b), (b, a)):
            if isinstance(x, (Ref, FuncV, ClassV, ModuleV)) and is_const(y) and y.v is None:
                return Const(op in ("isnot", "ne"))
            # a number / text computed from the data is not None either
            if is_const(y) and y.v is None and (isinstance(x, Lin) or (isinstance(x, Op) and x.op in _NEVER_NONE)):
                return Const(op in ("isnot", "ne"))
        if isinstance(a, Ite) and isinstance(b, Const):
            return ite(a.c, compare(op, a.a, b), compare(op, a.b, b))
        if isinstance(b, Ite) and isinstance(a, Const):
            return ite(b.c, compare(op, a, b.a), compare(op, a, b.b))
    if op in ("lt", "le", "gt", "ge") and isinstance(a, Ite) and isinstance(b, Const) and isinstance(a.a, (Const, Ite)) \
            and isinstance(a.b, (Const, Ite)):
        # a conditional between constants compared with a constant: decide each alternative
        return ite(a.c, compare(op, a.a, b), compare(op, a.b, b))
    # boolean-valued term compared with a bool constant
    if op in ("is", "isnot", "eq", "ne"):
        for x, y in ((a, b), (b, a)):
            if isinstance(y, Const) and isinstance(y.v, bool) and _boolish(x):
                same = op in ("is", "eq")
                return x if (y.v is True) == same else not_(x)
    # max(c, x) compared with a constant not above c
    if op in ("lt", "ge") and isinstance(a, Op) and a.op == "max" and is_int(b) and any(is_int(x) and x.v >= b.v for x in a.args):
        return Const(op == "ge")
    # canonical orientation: constant on the right
    if isinstance(a, Const) and not isinstance(b, Const) and op in _CMP_SWAP:
        a, b, op = b, a, _CMP_SWAP[op]
    if op in ("eq", "ne") and a == b and not isinstance(a, Undef):
        return Const(op == "eq")
    if op in ("eq", "ne") and not isinstance(a, Const) and not isinstance(b, Const) and _sort_key(b) < _sort_key(a):
        a, b = b, a          # == and != are symmetric: one canonical argument order
    if op in ("lt", "le", "gt", "ge") and not isinstance(a, Const) and not isinstance(b, Const) and _sort_key(b) < _sort_key(a):
        a, b, op = b, a, _CMP_SWAP[op]      # a < b is b > a: one canonical argument order
    return Op(op, a, b)


_BOOL_OPS = {"eq", "ne", "lt", "le", "gt", "ge", "in", "notin", "is", "isnot", "not", "and", "or",
             "truthy", "exists", "isinstance"}


def _boolish(x):
    if isinstance(x, Op):
        return x.op in _BOOL_OPS
    if isinstance(x, Ite):
        return _boolish(x.a) and _boolish(x.b)
    if isinstance(x, Const):
        return isinstance(x.v, bool)
    return isinstance(x, Sym) and x.kind == "exc"


def truthy(v):
    """Term for bool(v) with constant folding; comparisons are returned as is."""
    if isinstance(v, Const):
        try:
            return Const(bool(v.v))
        except Exception:
            return v
    if isinstance(v, (Ref,)):
        return None  # caller must consult the heap
    if isinstance(v, (FuncV, ClassV, ModuleV)):
        return TRUE
    if isinstance(v, Ite):
        a, b = truthy(v.a), truthy(v.b)
        if a is not None and b is not None:
            return ite(v.c, a, b)
        return None
    return v


def not_(v):
    if isinstance(v, Const):
        try:
            return Const(not v.v)
        except Exception:
            pass
    if isinstance(v, Op):
        if v.op == "not":
            return v.args[0]
        if v.op in _CMP_NEG:
            return Op(_CMP_NEG[v.op], *v.args)
    if isinstance(v, Ite) and isinstance(v.a, Const) and isinstance(v.b, Const):
        return Ite(v.c, not_(v.a), not_(v.b))
    return Op("not", v)


def and_(*cs):
    out = []
    seen = set()
    for c in cs:
        if isinstance(c, Const):
            if not c.v:
                return FALSE
            continue
        if isinstance(c, Op) and c.op == "and":
            for x in c.args:
                if x not in seen:
                    seen.add(x)
                    out.append(x)
        elif c not in seen:
            seen.add(c)
            out.append(c)
    for c in out:
        if isinstance(c, Op) and c.op == "not":
            if c.args[0] in seen:
                return FALSE
        elif isinstance(c, Op) and c.op in _CMP_NEG:
            if Op(_CMP_NEG[c.op], *c.args) in seen:
                return FALSE
    if not out:
        return TRUE
    if len(out) == 1:
        return out[0]
    return Op("and", *out)


def or_(*cs):
    out = []
    for c in cs:
        if isinstance(c, Const):
            if c.v:
                return TRUE
            continue
        if isinstance(c, Op) and c.op == "or":
            for x in c.args:
                if x not in out:
                    out.append(x)
        elif c not in out:
            out.append(c)
    for c in out:
        if not_(c) in out:
            return TRUE
    if not out:
        return FALSE
    if len(out) == 1:
        return out[0]
    return Op("or", *out)


def ite(c, a, b):
    if isinstance(c, Const):
        return a if c.v else b
    if a == b:
        return a
    if isinstance(c, Op) and c.op == "not":
        return ite(c.args[0], b, a)
    # ite(c, x, ite(c, y, z)) -> ite(c, x, z);  ite(c, x, ite(not c, y, z)) -> ite(c, x, y)
    if isinstance(b, Ite):
        if b.c == c:
            return ite(c, a, b.b)
        if b.c == not_(c):
            return ite(c, a, b.a)
    if isinstance(a, Ite):
        if a.c == c:
            return ite(c, a.a, b)
        if a.c == not_(c):
            return ite(c, a.b, b)
    if isinstance(a, Const) and isinstance(b, Const) and a.v is True and b.v is False:
        return c
    if isinstance(a, Const) and isinstance(b, Const) and a.v is False and b.v is True:
        return not_(c)
    # ite(c, c, b) = c or b ;  ite(c, a, c) = c and a   (the value forms of `x or y` / `x and y` used as conditions)
    if a == c and _boolish(c) and _boolish(b):
        return or_(c, b)
    if b == c and _boolish(c) and _boolish(a):
        return and_(c, a)
    # boolean alternatives: a conditional whose one arm is a truth constant is a conjunction / disjunction
    if isinstance(b, Const) and b.v is False and _boolish(a):
        return and_(c, a)
    if isinstance(a, Const) and a.v is False and _boolish(b):
        return and_(not_(c), b)
    return Ite(c, a, b)


# --------------------------------------------------------------------------
# formatting: everything is normalised to Op("fmt", part...) where a part is a
# Const(str) literal or Op("fv", value, Const(spec), Const(conv))

_PCT = re.compile(r"%(?:\((?P<key>[^)]*)\))?(?P<flags>[-+ #0]*)(?P<width>\*|\d+)?(?:\.(?P<prec>\*|\d+))?"
                  r"(?P<len>[hlL])?(?P<type>[diouxXeEfFgGcrsa%])")


def fmt(parts):
    out = []
    for p in parts:
        if is_const(p, str):
            if p.v == "":
                continue
            if out and is_const(out[-1], str):
                out[-1] = Const(out[-1].v + p.v)
            else:
                out.append(p)
        elif isinstance(p, Op) and p.op == "fmt":
            for q in p.args:
                out.append(q)
        else:
            out.append(p)
    # merge adjacent literals again
    merged = []
    for p in out:
        if merged and is_const(p, str) and is_const(merged[-1], str):
            merged[-1] = Const(merged[-1].v + p.v)
        else:
            merged.append(p)
    if all(is_const(p, str) for p in merged):
        return Const("".join(p.v for p in merged))
    if len(merged) == 1 and not (isinstance(merged[0], Op) and merged[0].op == "fv"):
        return merged[0]
    if not any(isinstance(p, Op) and p.op == "fv" for p in merged):
        # pure concatenation of string terms: same canonical form as a + b + c
        flat = []
        for p in merged:
            if isinstance(p, Op) and p.op == "concat":
                flat.extend(p.args)
            else:
                flat.append(p)
        return Op("concat", *flat)
    return Op("fmt", *merged)


def fv(value, spec="", conv=""):
    """One formatted value.  Constant values are rendered when possible."""
    if isinstance(spec, V) and not is_const(spec, str):
        return Op("fv", value, spec, Const(conv))
    sp = spec.v if isinstance(spec, V) else spec
    if sp == "c" and conv == "":
        # '%c' / '{:c}' of an integer is chr()
        if is_int(value):
            try:
                return Const(chr(value.v))
            except Exception:
                pass
        if not (isinstance(value, Const) and isinstance(value.v, str)):
            return Op("chr", value)
    if isinstance(value, Const) and not isinstance(value.v, (tuple, list, dict)):
        try:
            x = value.v
            if conv == "r":
                x = repr(x)
            elif conv == "s":
                x = str(x)
            return Const(format(x, sp))
        except Exception:
            pass
    # a plain {} / %s of a string term is the term itself
    if sp in ("", "s") and conv in ("", "s") and _stringy(value):
        return value
    if sp in ("", "s") and conv == "s":
        sp, conv = "", ""           # str(x) and format(x, '') agree for the built-in types rendered here
    return Op("fv", value, Const(sp), Const(conv))


def pct_format(f, args):
    """'...%08X...' % args  ->  fmt parts.  args: term or Op('tuple', ...)."""
    if not is_const(f, str):
        return Op("pct", f, args)
    if isinstance(args, Op) and args.op == "tuple":
        argl = list(args.args)
    elif isinstance(args, Const) and isinstance(args.v, tuple):
        argl = [Const(x) for x in args.v]
    else:
        argl = [args]
    s = f.v
    parts, pos, i = [], 0, 0
    for m in _PCT.finditer(s):
        parts.append(Const(s[pos:m.start()]))
        pos = m.end()
        t = m.group("type")
        if t == "%":
            parts.append(Const("%"))
            continue
        if m.group("key") is not None or m.group("prec") == "*":
            return Op("pct", f, args)
        star = None
        if m.group("width") == "*":
            # '%0*X' % (width, value): the width is the preceding argument
            if i >= len(argl) or t in "sra":
                return Op("pct", f, args)
            star = argl[i]
            i += 1
        if i >= len(argl):
            return Op("pct", f, args)
        a = argl[i]
        i += 1
        flags = m.group("flags") or ""
        spec = ""
        if "-" in flags:
            spec += "<"
        if "+" in flags:
            spec += "+"
        elif " " in flags:
            spec += " "
        if "#" in flags:
            spec += "#"
        if "0" in flags and "-" not in flags:
            spec += "0"
        pre_star = spec
        spec += (m.group("width") or "") if star is None else ""
        if star is not None:
            spec = ""
        if m.group("prec"):
            spec += "." + m.group("prec")
        if t in "di" or t == "u":
            spec += "d"
        elif t in "sra":
            conv = {"s": "s", "r": "r", "a": "a"}[t]
            parts.append(fv(a, spec, conv) if (spec or conv != "s") else fv(a, "", "s"))
            continue
        else:
            spec += t
        if star is not None:
            parts.append(fv(a, fmt([Const(pre_star), fv(star, "", ""), Const(spec)])))
            continue
        parts.append(fv(a, spec))
    parts.append(Const(s[pos:]))
    if i != len(argl):
        return Op("pct", f, args)
    return fmt(parts)


def str_format(f, args, kwargs, resolve=None):
    """'...{:08X}...'.format(*args, **kwargs) -> fmt parts.  resolve(value, [(is_attr, key), ...]) follows the
    '.attr' / '[key]' part of a replacement field ('{0.month}')."""
    if not is_const(f, str):
        return Op("m:format", f, *args)
    parts = []
    auto = 0
    try:
        parsed = list(string.Formatter().parse(f.v))
    except Exception:
        return Op("m:format", f, *args)
    for lit, field, spec, conv in parsed:
        if lit:
            parts.append(Const(lit))
        if field is None:
            continue
        if field == "":
            idx = auto
            auto += 1
            val = args[idx] if idx < len(args) else None
        elif field.isdigit():
            val = args[int(field)] if int(field) < len(args) else None
        elif field in kwargs:
            val = kwargs[field]
        elif resolve is not None and ("." in field or "[" in field):
            import _string
            try:
                first, rest = _string.formatter_field_name_split(field)
                rest = list(rest)
            except Exception:
                return Op("m:format", f, *args)
            if first == "":
                base = args[auto] if auto < len(args) else None
                auto += 1
            elif isinstance(first, int):
                base = args[first] if first < len(args) else None
            else:
                base = kwargs.get(first)
            val = resolve(base, rest) if base is not None else None
        else:
            val = None
        if val is None:
            return Op("m:format", f, *args)
        if spec and "{" in spec:
            # nested replacement fields inside the format spec ('{:0{}X}'): automatic numbering continues
            sp_parts = []
            try:
                nested = list(string.Formatter().parse(spec))
            except Exception:
                return Op("m:format", f, *args)
            for l2, f2, s2, c2 in nested:
                if l2:
                    sp_parts.append(Const(l2))
                if f2 is None:
                    continue
                if s2 or c2:
                    return Op("m:format", f, *args)
                if f2 == "":
                    v2 = args[auto] if auto < len(args) else None
                    auto += 1
                elif f2.isdigit():
                    v2 = args[int(f2)] if int(f2) < len(args) else None
                else:
                    v2 = kwargs.get(f2)
                if v2 is None:
                    return Op("m:format", f, *args)
                sp_parts.append(fv(v2, "", ""))
            spec_t = fmt(sp_parts)
            parts.append(fv(val, spec_t if not is_const(spec_t, str) else spec_t.v, conv or ""))
            continue
        parts.append(fv(val, spec or "", conv or ""))
    return fmt(parts)


# --------------------------------------------------------------------------
# generic traversal helpers

def walk(t, seen=None):
    """Pre-order traversal of a term (DAG-aware)."""
    if seen is None:
        seen = set()
    stack = [t]
    while stack:
        x = stack.pop()
        if id(x) in seen:
            continue
        seen.add(id(x))
        yield x
        if isinstance(x, V):
            stack.extend(x.children())


def subst(t, mapping, memo=None):
    """Replace sub-terms according to mapping {term: term}."""
    if memo is None:
        memo = {}
    k = id(t)
    if k in memo:
        return memo[k]
    if t in mapping:
        r = mapping[t]
    elif isinstance(t, Op):
        args = tuple(subst(a, mapping, memo) for a in t.args)
        if all(x is y for x, y in zip(args, t.args)):
            r = t
        else:
            r = rebuild(t.op, args)
    elif isinstance(t, Ite):
        c, a, b = subst(t.c, mapping, memo), subst(t.a, mapping, memo), subst(t.b, mapping, memo)
        r = t if (c is t.c and a is t.a and b is t.b) else ite(c, a, b)
    elif isinstance(t, Lin):
        r = Const(t.const)
        changed = False
        for x, c in t.terms:
            y = subst(x, mapping, memo)
            changed = changed or (y is not x)
            r = add(r, mul(Const(c), y))
        if not changed:
            r = t
    else:
        r = t
    memo[k] = r
    return r


def rebuild(op, args):
    if op in ("add", "sub", "mul", "floordiv", "mod", "lshift", "rshift", "bitand", "bitor",
              "bitxor", "pow", "truediv") and len(args) == 2:
        return binop(op, args[0], args[1])
    if op in ("eq", "ne", "lt", "le", "gt", "ge", "in", "notin", "is", "isnot") and len(args) == 2:
        return compare(op, args[0], args[1])
    if op == "not":
        return not_(args[0])
    if op == "and":
        return and_(*args)
    if op == "or":
        return or_(*args)
    if op == "fmt":
        return fmt(list(args))
    return Op(op, *args)


def contains(t, pred):
    for x in walk(t):
        if pred(x):
            return True
    return False


def leaves(t, cls):
    return [x for x in walk(t) if isinstance(x, cls)]


# --------------------------------------------------------------------------
# concrete evaluation of a term under a valuation of its symbols / opaque
# sub-terms (used to compare two summaries over a finite domain; this
# evaluates extracted *summaries*, never repository code)

class CannotEval(Exception):
    pass


_PURE_METHODS = {"lower", "upper", "strip", "rstrip", "lstrip", "startswith", "endswith", "to_bytes", "replace", "zfill", "rjust",
                 "ljust", "center", "decode", "encode", "title", "capitalize", "split", "rsplit", "splitlines", "isdecimal", "isdigit",
                 "isalpha", "isalnum", "find", "rfind", "count", "bit_length", "removeprefix", "removesuffix", "partition",
                 "rpartition", "tobytes", "swapcase", "casefold", "isspace", "isupper", "islower", "expandtabs"}


import string as _string
_STDLIB_CONSTANTS = {"string." + n: getattr(_string, n) for n in ("hexdigits", "digits", "ascii_letters", "ascii_lowercase", "ascii_uppercase",
                                                                   "octdigits", "punctuation", "printable", "whitespace")}
_ITERTOOLS_PURE = {"call:itertools.pairwise", "call:itertools.accumulate", "call:itertools.batched", "call:itertools.islice",
                   "call:itertools.zip_longest", "call:itertools.product", "call:itertools.chain", "call:itertools.repeat",
                   "call:itertools.combinations", "call:itertools.permutations", "call:itertools.compress"}


def evaluate(t, env, memo=None):
    """env maps terms (Sym / opaque Op) -> python value."""
    if memo is None:
        memo = {}
    k = id(t)
    if k in memo:
        return memo[k]
    if t in env:
        r = env[t]
    elif isinstance(t, Const):
        r = t.v
    elif isinstance(t, Ext):
        r = _STDLIB_CONSTANTS.get(t.name, t)
    elif isinstance(t, Ref):
        hook = env.get("__ref__")
        if hook is None:
            raise CannotEval(repr(t)[:120])
        r = hook(t, env)
    elif isinstance(t, Lin):
        r = t.const
        for x, c in t.terms:
            r += c * int(evaluate(x, env, memo))
    elif isinstance(t, Ite):
        cexc = t.c if isinstance(t.c, Sym) and t.c.kind == "exc" else None
        if cexc is not None and env.get("__exc_as_try__") and cexc not in env:
            # value of  try: <b>  except <look-up failure>: <a>   - the handler's alternative applies when computing the
            # normal one fails the way a missing key / index does
            try:
                r = evaluate(t.b, env, dict(memo))
            except (LookupError, TypeError, ValueError):
                r = evaluate(t.a, env, memo)
        else:
            r = evaluate(t.a, env, memo) if evaluate(t.c, env, memo) else evaluate(t.b, env, memo)
    elif isinstance(t, Op):
        op = t.op
        hooks = env.get("__ops__")
        if hooks and op in hooks:
            h_ = hooks[op]
            if getattr(h_, "lazy", False):
                r = h_(env, t)                   # the stub decides itself what to evaluate
            else:
                vals_ = [evaluate(a, env, memo) for a in t.args]
                r = h_(env, *vals_) if getattr(h_, "wants_env", False) else h_(*vals_)
            memo[k] = r
            return r
        if op == "and":
            r = True
            for a in t.args:
                r = evaluate(a, env, memo)
                if not r:
                    break
        elif op == "or":
            r = False
            for a in t.args:
                r = evaluate(a, env, memo)
                if r:
                    break
        elif op == "not":
            r = not evaluate(t.args[0], env, memo)
        elif op in _BIN and _BIN[op]:
            r = _BIN[op](evaluate(t.args[0], env, memo), evaluate(t.args[1], env, memo))
        elif op in _CMP:
            r = _CMP[op](evaluate(t.args[0], env, memo), evaluate(t.args[1], env, memo))
        elif op in ("add",):
            r = evaluate(t.args[0], env, memo) + evaluate(t.args[1], env, memo)
        elif op == "in":
            r = evaluate(t.args[0], env, memo) in evaluate(t.args[1], env, memo)
        elif op == "notin":
            r = evaluate(t.args[0], env, memo) not in evaluate(t.args[1], env, memo)
        elif op == "is":
            r = evaluate(t.args[0], env, memo) is evaluate(t.args[1], env, memo)
        elif op == "isnot":
            r = evaluate(t.args[0], env, memo) is not evaluate(t.args[1], env, memo)
        elif op == "truthy":
            r = bool(evaluate(t.args[0], env, memo))
        elif op == "len":
            r = len(evaluate(t.args[0], env, memo))
        elif op in ("concat", "fmt"):
            r = "".join(str(evaluate(a, env, memo)) for a in t.args)
        elif op.startswith(("call:str.", "call:bytes.")) and op.split(".", 1)[1] in _PURE_METHODS and t.args:
            # an unbound method used as a function: str.isdecimal(c), str.strip(s), ...
            vals = [evaluate(a, env, memo) for a in t.args]
            cls_ = str if op.startswith("call:str.") else bytes
            if not isinstance(vals[0], cls_):
                raise CannotEval(repr(t)[:120])
            r = getattr(cls_, op.split(".", 1)[1])(*vals)
        elif op in ("call:re.findall", "call:re.sub", "call:re.subn", "call:re.split") and len(t.args) >= 2:
            # module-level re functions with evaluated arguments: the standard library's engine on the sample text
            import re as _re
            vals = []
            kw = {}
            for a in t.args:
                if isinstance(a, Op) and a.op in ("kv", "kw"):
                    for kvp in (a.args if a.op == "kw" else (a,)):
                        kw[evaluate(kvp.args[0], env, memo)] = evaluate(kvp.args[1], env, memo)
                else:
                    vals.append(evaluate(a, env, memo))
            if not isinstance(vals[0], (str, bytes)):
                raise CannotEval(repr(t)[:120])
            r = getattr(_re, op.split(".")[-1])(*vals, **kw)
        elif op == "pct" and len(t.args) == 2:
            # a %-format whose format string is itself computed: python's own % on the sample values (a stray '%' in the
            # format raises ValueError / TypeError there - callers decide what that means)
            f_ = evaluate(t.args[0], env, memo)
            a_ = evaluate(t.args[1], env, memo)
            if not isinstance(f_, (str, bytes)):
                raise CannotEval(repr(t)[:120])
            r = f_ % (tuple(a_) if isinstance(a_, list) else a_)
        elif op == "fv":
            v = evaluate(t.args[0], env, memo)
            conv = evaluate(t.args[2], env, memo)
            if conv == "r":
                v = repr(v)
            elif conv == "s":
                v = str(v)
            r = format(v, evaluate(t.args[1], env, memo))
        elif op == "str":
            r = str(evaluate(t.args[0], env, memo))
        elif op == "strdecode" and t.args:
            # str(bytes, encoding[, errors]) / bytes.decode(...): the decoding error policy is part of the behaviour
            pos = [evaluate(a, env, memo) for a in t.args[1:] if not (isinstance(a, Op) and a.op == "kv")]
            kw = {evaluate(a.args[0], env, memo): evaluate(a.args[1], env, memo) for a in t.args[1:] if isinstance(a, Op) and a.op == "kv"}
            b = evaluate(t.args[0], env, memo)
            if not isinstance(b, (bytes, bytearray, memoryview)):
                raise CannotEval(repr(t)[:120])
            r = str(bytes(b), *pos, **kw)        # may raise UnicodeDecodeError: callers decide what that means
        elif op == "hex":
            r = hex(evaluate(t.args[0], env, memo))
        elif op == "chr":
            r = chr(evaluate(t.args[0], env, memo))
        elif op == "ord":
            r = ord(evaluate(t.args[0], env, memo))
        elif op == "int_from_bytes":
            b = evaluate(t.args[0], env, memo)
            r = int.from_bytes(bytes(b), evaluate(t.args[1], env, memo), signed=bool(evaluate(t.args[2], env, memo)))
        elif op == "m:hex" and len(t.args) == 1:
            r = bytes(evaluate(t.args[0], env, memo)).hex()
        elif op[:2] == "m:" and op[2:] in _PURE_METHODS:
            kw = {}
            pos = []
            for a in t.args:
                if isinstance(a, Op) and a.op == "kw":
                    for kvp in a.args:
                        kw[evaluate(kvp.args[0], env, memo)] = evaluate(kvp.args[1], env, memo)
                else:
                    pos.append(evaluate(a, env, memo))
            recv = pos[0]
            if isinstance(recv, memoryview):
                recv = bytes(recv)
            if not isinstance(recv, (str, bytes, int, bytearray)) or isinstance(recv, bool):
                raise CannotEval(repr(t)[:120])
            try:
                if op == "m:tobytes" and isinstance(recv, (bytes, bytearray)):
                    r = bytes(recv)          # memoryview.tobytes() of the sample bytes
                else:
                    r = getattr(recv, op[2:])(*pos[1:], **kw)
            except CannotEval:
                raise
            except UnicodeError:
                raise
            except Exception as e:
                raise CannotEval("%s raises %s" % (repr(t)[:80], type(e).__name__))
        elif op == "re.compile" and t.args and all(isinstance(a, (Const, Ext)) for a in t.args[1:]):
            # the meaning of a constant regular expression is that of the standard library's engine
            import re as _re
            flags = 0
            for a in t.args[1:]:
                name = getattr(a, "name", None) or ""
                fl = getattr(_re, name.split(".")[-1], None) if name.startswith("re.") else None
                if fl is None:
                    raise CannotEval(repr(t)[:120])
                flags |= fl
            patt = evaluate(t.args[0], env, memo)
            if not isinstance(patt, (str, bytes)):
                raise CannotEval(repr(t)[:120])
            try:
                r = _re.compile(patt, flags)
            except _re.error:
                raise CannotEval("invalid regular expression %r" % (patt,))
        elif op in ("m:fullmatch", "m:match", "m:search") and len(t.args) == 2:
            pat, subj = evaluate(t.args[0], env, memo), evaluate(t.args[1], env, memo)
            if not hasattr(pat, "fullmatch") or not isinstance(subj, (str, bytes)):
                raise CannotEval(repr(t)[:120])
            r = getattr(pat, op[2:])(subj)
        elif op in ("m:sub", "m:subn", "m:findall") and len(t.args) >= 2:
            vals_ = [evaluate(a, env, memo) for a in t.args]
            if not hasattr(vals_[0], "fullmatch") or not all(isinstance(x, (str, bytes, int)) for x in vals_[1:]):
                raise CannotEval(repr(t)[:120])
            r = getattr(vals_[0], op[2:])(*vals_[1:])
        elif op in ("m:groups", "m:group", "m:end", "m:start", "m:span") and t.args:
            mo = evaluate(t.args[0], env, memo)
            if mo is None or not hasattr(mo, "groups"):
                raise CannotEval(repr(t)[:120])
            r = getattr(mo, op[2:])(*[evaluate(a, env, memo) for a in t.args[1:]])
        elif op == "sorted" and len(t.args) == 1:
            r = sorted(evaluate(t.args[0], env, memo))
        elif op == "reversed" and len(t.args) == 1:
            r = list(reversed(evaluate(t.args[0], env, memo)))
        elif op in ("list", "tuple_of") and len(t.args) == 1:
            r = list(evaluate(t.args[0], env, memo))
            if op == "tuple_of":
                r = tuple(r)
        elif op in ("min", "max") and t.args:
            vals = [evaluate(a, env, memo) for a in t.args]
            r = (min if op == "min" else max)(*vals) if len(vals) > 1 else (min if op == "min" else max)(vals[0])
        elif op == "getslice" and len(t.args) == 3:
            b, lo, hi = (evaluate(a, env, memo) for a in t.args)
            r = b[lo:hi]
        elif op == "getslice" and len(t.args) == 4:
            b, lo, hi, st_ = (evaluate(a, env, memo) for a in t.args)
            r = b[lo:hi:st_]
        elif op == "b2i" and len(t.args) == 1:
            r = int(bool(evaluate(t.args[0], env, memo)))
        elif op == "sliceobj" and len(t.args) == 3:
            r = slice(*[evaluate(a, env, memo) for a in t.args])
        elif op in ("elem",) and len(t.args) == 2 and (not isinstance(t.args[0], Ref) or env.get("__ref__")):
            b, i = (evaluate(a, env, memo) for a in t.args)
            r = b[i]
        elif op == "getitem" and len(t.args) == 2 and (not isinstance(t.args[0], Ref) or env.get("__ref__")):
            b, i = (evaluate(a, env, memo) for a in t.args)
            r = b[i]
        elif op == "int" and len(t.args) == 1:
            r = int(evaluate(t.args[0], env, memo))
        elif op == "int" and len(t.args) == 2:
            s_, b_ = evaluate(t.args[0], env, memo), evaluate(t.args[1], env, memo)
            if not isinstance(s_, (str, bytes)) or not isinstance(b_, int):
                raise CannotEval(repr(t)[:120])
            r = int(s_, b_)
        elif op in ("bytes", "bytearray", "memoryview") and len(t.args) == 1:
            v_ = evaluate(t.args[0], env, memo)
            if not isinstance(v_, (bytes, bytearray, memoryview, list, tuple, int)):
                raise CannotEval(repr(t)[:120])
            r = bytes(v_)
        elif op in ("call:struct.unpack", "call:struct.unpack_from", "call:struct.calcsize") and t.args:
            import struct as _struct
            vals_ = [evaluate(a, env, memo) for a in t.args if not (isinstance(a, Op) and a.op == "kv")]
            kw_ = {a.args[0].v: evaluate(a.args[1], env, memo) for a in t.args if isinstance(a, Op) and a.op == "kv"}
            if not isinstance(vals_[0], str) or any(not isinstance(x, (bytes, bytearray, memoryview, int)) for x in vals_[1:]):
                raise CannotEval(repr(t)[:120])
            r = getattr(_struct, op.rsplit(".", 1)[1])(*vals_, **kw_)       # (a struct.error propagates: the code would raise it too)
        elif op in ("itemgetter", "attrgetter", "methodcaller") and t.args:
            import operator as _operator
            r = getattr(_operator, op)(*[evaluate(a, env, memo) for a in t.args])
        elif op == "call:itertools.groupby" and t.args:
            import itertools as _it
            seq_ = evaluate(t.args[0], env, memo)
            key_ = None
            for a in t.args[1:]:
                if isinstance(a, Op) and a.op == "kv" and a.args[0] == Const("key"):
                    key_ = evaluate(a.args[1], env, memo)
                elif not (isinstance(a, Op) and a.op == "kv"):
                    key_ = evaluate(a, env, memo)
            if not isinstance(seq_, (list, tuple)) or not (key_ is None or callable(key_)):
                raise CannotEval(repr(t)[:120])
            r = [(k_, list(g_)) for k_, g_ in _it.groupby(seq_, key_)]
        elif op in ("call:frozenset", "call:set", "frozenset", "set") and len(t.args) <= 1:
            v_ = evaluate(t.args[0], env, memo) if t.args else ()
            if not isinstance(v_, (str, bytes, list, tuple, range, frozenset, set)):
                raise CannotEval(repr(t)[:120])
            r = frozenset(v_)
        elif op == "fromhex" and len(t.args) == 1:
            v_ = evaluate(t.args[0], env, memo)
            if not isinstance(v_, str):
                raise CannotEval(repr(t)[:120])
            r = bytes.fromhex(v_)             # (ValueError for non-hex text propagates, as in the code)
        elif op.startswith("attr:") and len(t.args) == 1:
            v_ = evaluate(t.args[0], env, memo)
            if isinstance(v_, tuple) and op[5:] in getattr(v_, "_fields", ()):
                r = getattr(v_, op[5:])          # a field of a named tuple
            else:
                raise CannotEval(repr(t)[:120])
        elif op in ("call:bytearray", "call:bytes", "bytes", "bytearray") and not t.args:
            r = b""
        elif op == "rangelen" and len(t.args) == 3:
            r = len(range(*[evaluate(a, env, memo) for a in t.args]))
        elif op == "strmul" and len(t.args) == 2:
            a_, b_ = evaluate(t.args[0], env, memo), evaluate(t.args[1], env, memo)
            r = a_ * b_
        elif op == "enumerate":
            r = list(enumerate(evaluate(t.args[0], env, memo), *[evaluate(a, env, memo) for a in t.args[1:]]))
        elif op == "zip":
            r = list(zip(*[evaluate(a, env, memo) for a in t.args]))
        elif op == "zipl":
            import itertools as _it
            r = list(_it.zip_longest(*[evaluate(a, env, memo) for a in t.args[1:]], fillvalue=evaluate(t.args[0], env, memo)))
        elif op == "range":
            r = range(*[evaluate(a, env, memo) for a in t.args])
        elif op == "call:itertools.chain.from_iterable" and len(t.args) == 1:
            import itertools as _it
            src_ = evaluate(t.args[0], env, memo)
            if not isinstance(src_, (list, tuple)):
                raise CannotEval(repr(t)[:120])
            r = list(_it.chain.from_iterable(src_))
        elif op in ("call:bytearray", "call:bytes") and len(t.args) == 1:
            src_ = evaluate(t.args[0], env, memo)
            if isinstance(src_, (list, tuple)) and all(isinstance(x_, int) and not isinstance(x_, bool) for x_ in src_) or \
                    isinstance(src_, (bytes, bytearray, memoryview)):
                r = bytearray(src_) if op == "call:bytearray" else bytes(src_)
            else:
                raise CannotEval(repr(t)[:120])
        elif op in _ITERTOOLS_PURE and t.args:
            import itertools as _it
            vals_ = []
            kw_ = {}
            for a in t.args:
                if isinstance(a, Op) and a.op == "kv":
                    kw_[a.args[0].v] = evaluate(a.args[1], env, memo)
                else:
                    vals_.append(evaluate(a, env, memo))
            for v_ in vals_[:1]:
                if not isinstance(v_, (list, tuple, bytes, bytearray, str, range, memoryview)) and op != "call:itertools.repeat":
                    raise CannotEval(repr(t)[:120])
            if op == "call:itertools.repeat" and len(vals_) < 2 and "times" not in kw_:
                raise CannotEval("unbounded repeat")
            if op == "call:itertools.accumulate" and (len(vals_) > 1 or "func" in kw_):
                raise CannotEval("accumulate with a function")
            r = list(getattr(_it, op.rsplit(".", 1)[1])(*vals_, **kw_))
        elif op == "ceil" and len(t.args) == 1:
            import math as _math
            r = _math.ceil(evaluate(t.args[0], env, memo))
        elif op == "truediv" and len(t.args) == 2:
            r = evaluate(t.args[0], env, memo) / evaluate(t.args[1], env, memo)
        elif op == "dictget" and len(t.args) == 3:
            d, key = evaluate(t.args[0], env, memo), evaluate(t.args[1], env, memo)
            if not isinstance(d, dict):
                raise CannotEval(repr(t)[:120])
            r = d[key] if key in d else evaluate(t.args[2], env, memo)
        elif op == "keyerror":
            raise CannotEval("KeyError " + repr(t)[:100])
        elif op == "m:join" and len(t.args) == 2:
            sep, seq = evaluate(t.args[0], env, memo), evaluate(t.args[1], env, memo)
            if not isinstance(sep, (str, bytes)):
                raise CannotEval(repr(t)[:120])
            r = sep.join(seq)
        elif op == "json.dumps" and t.args:
            import json as _json
            kw = {}
            for a in t.args[1:]:
                if isinstance(a, Op) and a.op == "kv":
                    kw[evaluate(a.args[0], env, memo)] = evaluate(a.args[1], env, memo)
            r = _json.dumps(evaluate(t.args[0], env, memo), **kw)
        elif env.get("__op__") is not None:
            r = env["__op__"](t, env)
        else:
            raise CannotEval(repr(t)[:120])
    elif isinstance(t, Sym) and env.get("__sym__") is not None:
        r = env["__sym__"](t, env)
    else:
        raise CannotEval(repr(t)[:120])
    memo[k] = r
    return r
