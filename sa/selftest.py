"""Thorough tier: self-validation of a checker on scratch copies of the repository's working tree.

  * every confirmed breaking change kept under /verif/seeded/<pid>-k (patch.diff) and every repaired defect of that
    property (reverse of its 'fix:' commit) must be REPORTED (exit 1) by the property's check;
  * every behaviour-preserving refactoring kept under /verif/twins/* must leave the check SILENT (exit 0).
Scratch copies live under tempfile.mkdtemp() (outside /repo and /verif) and are removed immediately."""
import json
import os
import re
import shutil
import subprocess
import sys
import tempfile
from concurrent.futures import ThreadPoolExecutor

from .core import VERIF, REPO

CHECK = os.path.join(VERIF, "sa", "check.py")


def copy_tree(dst):
    def ign(d, names):
        return [n for n in names if n in (".git", "__pycache__", ".pytest_cache") or n.endswith(".egg-info")]
    shutil.copytree(REPO, dst, ignore=ign, dirs_exist_ok=True)


def run_variant(pid, kind, name, patch_bytes, reverse=False):
    tmp = tempfile.mkdtemp(prefix="verif-selftest-")
    try:
        copy_tree(tmp)
        cmd = ["git", "apply"] + (["-R"] if reverse else []) + ["-"]
        r = subprocess.run(cmd, input=patch_bytes, cwd=tmp, capture_output=True)
        if r.returncode:
            return kind, name, "skipped (patch does not apply to the current tree)", None
        env = dict(os.environ, VERIF_REPO=tmp, VERIF_OUT=os.path.join(tmp, "_out"), VERIF_TIER="quick")
        r = subprocess.run([sys.executable, CHECK, pid], env=env, capture_output=True, text=True, timeout=1200)
        first = [l.strip() for l in r.stdout.splitlines() if l.strip().startswith("[") or "ANALYSIS-ERROR" in l][:1]
        return kind, name, r.returncode, (first[0][:240] if first else "")
    finally:
        shutil.rmtree(tmp, ignore_errors=True)


def variants(pid):
    out = []
    sd = os.path.join(VERIF, "seeded")
    if os.path.isdir(sd):
        for d in sorted(os.listdir(sd)):
            p = os.path.join(sd, d, "patch.diff")
            if d.startswith(pid + "-") and os.path.exists(p):
                out.append(("seeded", d, open(p, "rb").read(), False))
    kf = os.path.join(VERIF, "known_findings.json")
    if os.path.exists(kf) and os.path.isdir(os.path.join(REPO, ".git")):
        for line in json.load(open(kf)).get("fixed", []):
            m = re.match(r"fixed: property=(C\d+) ([0-9a-f]{7,}) ", line)
            if m and m.group(1) == pid:
                try:
                    patch = subprocess.check_output(["git", "-C", REPO, "show", "--format=", m.group(2)], stderr=subprocess.DEVNULL)
                    out.append(("reverted-fix", m.group(2), patch, True))
                except Exception:
                    pass
    td = os.path.join(VERIF, "twins")
    if os.path.isdir(td):
        for d in sorted(os.listdir(td)):
            p = os.path.join(td, d, "patch.diff")
            if os.path.exists(p):
                out.append(("twin", d, open(p, "rb").read(), False))
    return out


def selftest(pid, jobs=14):
    vs = variants(pid)
    res = []
    with ThreadPoolExecutor(jobs) as ex:
        for r in ex.map(lambda v: run_variant(pid, *v), vs):
            res.append(r)
    summary = {"breaking variants": 0, "breaking variants reported": 0, "twins": 0, "twins silent": 0, "skipped": 0}
    problems = []
    for kind, name, rc, first in res:
        if isinstance(rc, str):
            summary["skipped"] += 1
            continue
        if kind in ("seeded", "reverted-fix"):
            summary["breaking variants"] += 1
            if rc == 1:
                summary["breaking variants reported"] += 1
            else:
                problems.append("%s %s: check exited %s instead of reporting a violation %s" % (kind, name, rc, first))
        else:
            summary["twins"] += 1
            if rc == 0:
                summary["twins silent"] += 1
            else:
                problems.append("twin %s: check exited %s on a behaviour-preserving refactoring: %s" % (name, rc, first))
    return summary, problems, [(k, n, rc, f) for k, n, rc, f in res]
