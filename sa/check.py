#!/usr/bin/env python3
"""Driver:  /venv/bin/python /verif/sa/check.py <property id> [--thorough] [--replay <file>]

Re-parses the repository's current working tree (VERIF_REPO, default /repo) on
every run; nothing under the repository is imported or executed."""
import importlib
import json
import os
import sys

sys.path.insert(0, os.path.dirname(os.path.dirname(os.path.abspath(__file__))))
sys.setrecursionlimit(20000)

from sa.core import run_check, AnalysisError, REPO  # noqa: E402
from sa.model import Program  # noqa: E402


def main(argv):
    if len(argv) < 2:
        print("usage: check.py <Cxx> [--thorough] [--replay file]")
        return 2
    pid = argv[1].upper()
    thorough = "--thorough" in argv or os.environ.get("VERIF_TIER") == "thorough"
    replay = None
    if "--replay" in argv:
        replay = argv[argv.index("--replay") + 1]
        data = json.load(open(replay))
        print("replaying %d recorded violation(s) of %s against %s" % (
            len(data.get("violations", [])), data.get("property"), REPO))
        for v in data.get("violations", []):
            print("  recorded:", v.get("key"))
    try:
        mod = importlib.import_module("sa.props." + pid.lower())
    except ModuleNotFoundError:
        print("ANALYSIS-ERROR property=%s no checker for this property" % pid)
        return 2

    def body(rep):
        prog = Program(REPO)
        rep.count("modules parsed", len(prog.modules))
        rep.count("functions parsed", sum(1 for _ in prog.all_functions()))
        mod.run(rep, prog, thorough)
        if thorough and not rep.violations and not os.environ.get("VERIF_NO_SELFTEST"):
            # self-validation of the checker on scratch copies (breaking variants must be reported, twins must stay silent)
            from sa.selftest import selftest
            summary, problems, detail = selftest(pid)
            rep.extra_cov["selftest"] = summary
            rep.extra_cov["selftest_detail"] = [{"kind": k, "name": n, "exit": rc, "first_line": f} for k, n, rc, f in detail]
            for k, v in summary.items():
                rep.count("selftest: " + k, v)
            if problems:
                for p_ in problems:
                    print("SELFTEST-PROBLEM " + p_)
                raise AnalysisError("checker self-validation failed (%d problem(s)): the verdict on the tree is not trusted" % len(problems))

    return run_check(pid, body, "thorough" if thorough else "quick")


if __name__ == "__main__":
    rc = main(sys.argv)
    sys.stdout.flush()
    os._exit(rc)
