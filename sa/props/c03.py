"""C03 - SRC sections display the encoded words, flags and every callout faithfully."""
from ..core import AnalysisError
from ..interp import Interpreter, Instance
from ..terms import (Const, Sym, Op, Ite, Ref, Lin, TRUE, FALSE, NONE, is_int, is_const, add, sub, mul, walk, ite,
                     compare, and_, or_, not_, binop, subst, evaluate)
from .. import pelx
from ..pelx import (F, IntF, DATA, equivalent, env_str, list_items, dict_entries, table_of, table_lookup, hex_render,
                    text_render, strips_nul, final_entries, flat_parts, as_int_field, as_slice)
from .c02 import spec_table, run_section, check_hex, check_num, check_compid, CREATOR, SPEC_TABLES

SRCQ = "pel.peltool.src."
WHERE = "SRC.toJSON"


def bool_render(val):
    """'True' if cond else 'False' -> cond"""
    if isinstance(val, Ite) and is_const(val.a, str) and is_const(val.b, str):
        if (val.a.v, val.b.v) == ("True", "False"):
            return val.c
        if (val.a.v, val.b.v) == ("False", "True"):
            return not_(val.c)
    return None


ASCII = Op("m:decode", F(48, 32))
TYPE2 = Op("getslice", ASCII, Const(0), Const(2))


def type_guard(types):
    return or_(*[compare("eq", TYPE2, Const(t)) for t in types])


def guard_equiv(g, want):
    """guards over the SRC type characters: compare by enumerating the type string"""
    dom = {TYPE2: ["BD", "11", "BC", "B7", "00"]}
    e, env, n = equivalent(ite(g, Const(1), Const(0)), ite(want, Const(1), Const(0)), domain=dom)
    return e, env


def check_flagbit(rep, key, ents, field, mask, guard_types):
    rule = "C03.R1.words-flags"
    if key not in ents:
        rep.fail(rule, WHERE, "out[%r]" % key, "flag %r is never displayed" % key)
        return
    k, val, g, lc = ents[key][-1]
    c = bool_render(val)
    if c is None:
        rep.fail(rule, WHERE, "out[%r]" % key, "not rendered as 'True'/'False' of a flag bit: %r" % (val,))
        return
    want = compare("ne", binop("bitand", field, Const(mask)), Const(0))
    e, env, n = equivalent(ite(pelx_truth(c), Const(1), Const(0)), ite(want, Const(1), Const(0)))
    rep.check(e, rule, "%s <- bit 0x%X of %r" % (key, mask, field), WHERE, "out[%r]" % key,
              "%s is not bit 0x%X of %s (e.g. %s): %r" % (key, mask, pelx.field_str(as_int_field(field)[:2]), env_str(env), c))
    if guard_types is None:
        rep.check(g == TRUE, rule, "%s shown for every SRC type" % key, WHERE, "out[%r]" % key,
                  "%s is only displayed under %r" % (key, g))
    else:
        e, env = guard_equiv(g, type_guard(guard_types))
        rep.check(e, rule, "%s shown exactly for SRC types %s" % (key, guard_types), WHERE, "out[%r]" % key,
                  "%s is displayed for the wrong SRC types (guard %r)" % (key, g))


def pelx_truth(c):
    return c


def check_src_header(rep, prog):
    spec = {"sid": 0x5053, "name": "Primary SRC"}
    I, st, out, (skey, sref, sg, slc) = run_section(prog, "PS", spec)
    ents, order = final_entries(I, sref)
    rule = "C03.R1.words-flags"
    # every SRC is described from its own bytes: nothing decoded may be parked in state that outlives this decode
    from .c19 import shared_write_problems
    for e_, why in shared_write_problems(I):
        rep.fail("C03.R6.own-bytes-only", e_.func, e_.node, why, node=e_.node)
    flags = IntF(9, 1)
    words = [IntF(16 + 4 * i, 4) for i in range(8)]
    for key, off, w in (("Section Version", 4, 1), ("Sub-section type", 5, 1)):
        if key in ents:
            check_num(rep, rule, WHERE, key, ents[key][-1][1], off, w)
    if "Created by" in ents:
        check_compid(I, rep, rule, WHERE, "Created by", ents["Created by"][-1][1], ("compid", 6, 2, "creator"))
    # SRC Version: '0x' + 2 hex digits of byte @8
    v = ents.get("SRC Version")
    h = hex_render(v[-1][1]) if v else None
    okv = h is not None and h["prefix"] == "0x" and h["min_digits"] == 2 and (
        as_slice(h["value"]) == (Const(8), Const(9)) or (as_int_field(h["value"]) or (None,))[:2] == (Const(8), Const(9)))
    rep.check(okv, rule, "SRC Version = 0x + byte @8", WHERE, "out['SRC Version']", "SRC Version is not the byte at offset 8: %r" % (v,))
    f = ents.get("SRC Format")
    h = hex_render(f[-1][1]) if f else None
    okf = h is not None and h["prefix"] == "0x" and h["min_digits"] == 2 and h["upper"] and \
        equivalent(h["value"], binop("bitand", words[0], Const(0xFF)))[0]
    rep.check(okf, rule, "SRC Format = 0x%02X of low byte of hex word 2", WHERE, "out['SRC Format']",
              "SRC Format is not the low byte of hex word 2: %r" % (f,))
    check_flagbit(rep, "Virtual Progress SRC", ents, flags, 0x80, None)
    check_flagbit(rep, "I5/OS Service Event Bit", ents, flags, 0x10, None)
    check_flagbit(rep, "Hypervisor Dump Initiated", ents, flags, 0x04, None)
    check_flagbit(rep, "Terminate FW Error", ents, words[3], 0x20000000, ["BD", "11"])
    check_flagbit(rep, "Deconfigured", ents, words[3], 0x02000000, ["BD", "11", "BC"])
    check_flagbit(rep, "Guarded", ents, words[3], 0x01000000, ["BD", "11", "BC"])
    b = ents.get("Backplane CCIN")
    h = hex_render(b[-1][1]) if b else None
    okb = h is not None and h["prefix"] == "" and h["min_digits"] == 4 and h["upper"] and \
        equivalent(h["value"], binop("rshift", words[1], Const(16)))[0] and guard_equiv(b[-1][2], type_guard(["BD", "11"]))[0]
    rep.check(okb, rule, "Backplane CCIN = %04X of high half of hex word 3 (BMC/power SRCs)", WHERE, "out['Backplane CCIN']",
              "Backplane CCIN is not the upper 16 bits of hex word 3 for BMC/power SRCs: %r" % (b,))
    wc = ents.get("Valid Word Count")
    h = hex_render(wc[-1][1]) if wc else None
    okw = h is not None and h["prefix"] == "0x" and h["min_digits"] == 2 and h["upper"] and h["value"] == IntF(11, 1)
    rep.check(okw, rule, "Valid Word Count = 0x%02X of byte @11", WHERE, "out['Valid Word Count']",
              "Valid Word Count is not byte @11 rendered as 0x%%02X: %r" % (wc,))
    rc = ents.get("Reference Code")
    okr = False
    if rc:
        val = rc[-1][1]
        inner = val
        while isinstance(inner, Op) and inner.op in ("m:strip", "m:rstrip"):
            inner = inner.args[0]
        okr = inner == ASCII and rc[-1][2] == TRUE
    rep.check(okr, rule, "Reference Code = the 32 ASCII bytes @48 (blank padding stripped)", WHERE, "out['Reference Code']",
              "Reference Code is not the 32-byte ASCII string at offset 48: %r" % (rc,))
    # hex words
    hw = [e for e in ents.get(None, [])]
    rule2 = "C03.R2.hexwords"
    if len(hw) != 1 or not hw[0][3]:
        rep.fail(rule2, WHERE, "out['Hex Word ' + str(i)]", "hex words are not displayed by one loop over the valid word count")
    else:
        k, val, g, lc = hw[0]
        L = lc[-1]
        trip_ok = L.trip is not None and equivalent(L.trip, sub(IntF(11, 1), Const(1)))[0] and not L.breaks and g == TRUE
        rep.check(trip_ok, rule2, "hex words 2..wordCount are displayed (trip = wordCount - 1, no early exit)", WHERE, L.node,
                  "the hex word loop does not cover words 2..wordCount: trip %r breaks %r guard %r" % (L.trip, L.breaks, g), node=L.node)
        h = hex_render(val)
        good = h is not None and h["prefix"] == "" and h["min_digits"] == 8 and h["upper"]
        bad = None
        if good:
            v = h["value"]
            for i in range(8):
                env = {L.idx: i}
                try:
                    kk = evaluate(k, env)
                except Exception as e:
                    bad = "key not evaluable: %r" % (k,)
                    break
                if kk != "Hex Word %d" % (i + 2):
                    bad = "iteration %d is labelled %r" % (i, kk)
                    break
                w = word_at(I, v, env)
                if w != words[i]:
                    bad = "Hex Word %d shows %r, encoded word is %r" % (i + 2, w, words[i])
                    break
        else:
            bad = "not an 8-digit upper-case hex rendering: %r" % (val,)
        rep.check(bad is None, rule2, "Hex Word i = %08X of bytes[16+4(i-2) : +4] for i = 2..9", WHERE, "out['Hex Word ' + str(i)]", bad)
    # callout section present iff flag 0x01
    cs = ents.get("Callout Section")
    okc = cs is not None and equivalent(ite(cs[-1][2], Const(1), Const(0)),
                                        ite(compare("ne", binop("bitand", flags, Const(1)), Const(0)), Const(1), Const(0)))[0]
    rep.check(okc, "C03.R3.callouts", "Callout Section shown iff header flag 0x01", WHERE, "out['Callout Section']",
              "callout section is not displayed exactly when header flag 0x01 is set: %r" % (cs[-1][2] if cs else None,))
    # error details call: reason code = ascii[4:8], type = ascii[0:2]
    calls = [e for e in I.events if e.kind == "call" and e.data[0].endswith("Registry.getErrorMessage")]
    okd = len(calls) >= 1
    for e in calls:
        a = e.data[1]
        code, typ = a[1], a[2]
        okd = okd and code == Op("concat", Const("0x"), Op("getslice", ASCII, Const(4), Const(8))) and typ == TYPE2
    rep.check(okd, "C03.R5.registry", "registry looked up with '0x'+refcode[4:8] and type refcode[0:2]", "SRC.getErrorDetails",
              "registry.getErrorMessage(code, srcType)", "registry is not queried with the reason code characters 4..7 and the two type "
              "characters of the reference code: %s" % [repr(e.data[1][1:])[:200] for e in calls])
    shared = [e for e in I.events if e.kind == "shared_mutation" and
              (e.data[0].startswith("class ") or e.data[0].startswith("default argument"))]
    for e in shared:
        rep.fail("C03.R6.per-log-accumulators", e.func, e.node,
                 "SRC decoder accumulates log values in an object shared by all instances (%s, %s): a later SRC shows the "
                 "words of an earlier one" % (e.data[0], e.data[1]), node=e.node)
    if not shared:
        rep.ok("C03.R6.per-log-accumulators", "hex words / callouts are accumulated in per-instance containers")
    return I


def word_at(I, v, env):
    """resolve getitem(&hexData, idx-expr) under a loop index valuation"""
    if isinstance(v, Op) and v.op == "getitem" and isinstance(v.args[0], Ref):
        items = list_items(I, v.args[0])
        try:
            idx = evaluate(v.args[1], env)
        except Exception:
            return None
        if items is not None and all(it[0] == "v" and it[2] == TRUE for it in items) and 0 <= idx < len(items):
            return items[idx][1]
    return None


def check_substructures(rep, prog):
    rule = "C03.R3.callouts"
    I = Interpreter(prog)
    st = pelx.new_stream(I)
    B = Sym("B", "int")

    def at(k, w):
        return IntF(add(B, Const(k)), w)

    def txt(lo, hi):
        return (add(B, Const(lo)) if not isinstance(lo, (Op, Ite, Lin, Sym)) else lo,
                add(B, Const(hi)) if not isinstance(hi, (Op, Ite, Lin, Sym)) else hi)
    # ---- FRU identity
    I.obj(st).attrs["index"] = B
    fru = I.obj(I.new(SRCQ + "FRUIdentity", [st]))
    fl = at(3, 1)
    rep.check(fru.attrs.get("flags") == fl, rule, "FRU flags = byte @+3", "FRUIdentity", "self.flags = ...",
              "FRU identity flags are read from %r" % (fru.attrs.get("flags"),))
    has_pn = compare("ne", binop("bitand", fl, Const(0x0A)), Const(0))
    has_cc = compare("ne", binop("bitand", fl, Const(0x04)), Const(0))
    has_sn = compare("ne", binop("bitand", fl, Const(0x01)), Const(0))
    pn_lo = add(B, Const(4))
    cc_lo = add(pn_lo, ite(has_pn, Const(8), Const(0)))
    sn_lo = add(cc_lo, ite(has_cc, Const(4), Const(0)))
    for attr, cond, lo, width, label in (("pnOrProcedureID", has_pn, pn_lo, 8, "part number / procedure (flags 0x08|0x02)"),
                                         ("ccin", has_cc, cc_lo, 4, "CCIN (flag 0x04)"),
                                         ("sn", has_sn, sn_lo, 12, "serial number (flag 0x01)")):
        v = fru.attrs.get(attr)
        ok, why = False, "shape"
        if isinstance(v, Ite):
            present, absent, c = v.a, v.b, v.c
            if is_const(present, str):
                present, absent, c = absent, present, not_(c)
            t = text_render(present)
            if t is not None and is_const(absent, str) and absent.v == "":
                e1 = equivalent(ite(c, Const(1), Const(0)), ite(cond, Const(1), Const(0)))[0]
                e2 = equivalent(t["slice"][0], lo)[0] and sub(t["slice"][1], t["slice"][0]) == Const(width)
                ok = e1 and e2 and strips_nul(t["strips"])
                why = "present-iff-flag=%s position/width=%s nul-stripped=%s" % (e1, e2, strips_nul(t["strips"]))
        rep.check(ok, rule, "FRU %s: %d bytes at the running offset, NUL-stripped, present iff its flag" % (label, width),
                  "FRUIdentity", "self.%s = ..." % attr, "FRU %s is not decoded from its %d bytes under its flag (%s): %r" % (label, width, why, v))
    # ---- PCE identity
    I.obj(st).attrs["index"] = B
    pce = I.obj(I.new(SRCQ + "PCEIdentity", [st]))
    for attr, lo, w in (("machineType", 4, 8), ("serialNumber", 12, 12)):
        t = text_render(pce.attrs.get(attr))
        ok = t is not None and t["slice"] == (add(B, Const(lo)), add(B, Const(lo + w))) and strips_nul(t["strips"])
        rep.check(ok, rule, "PCE %s = %d bytes @+%d" % (attr, w, lo), "PCEIdentity", "self.%s = ..." % attr,
                  "PCE %s is not the NUL-stripped text of bytes +%d..+%d: %r" % (attr, lo, lo + w, pce.attrs.get(attr)))
    nm = pce.attrs.get("pceName")
    szb = at(2, 1)
    okn = False
    if isinstance(nm, Ite):
        t = text_render(nm.a) or text_render(nm.b)
        if t is not None:
            okn = t["slice"][0] == add(B, Const(24)) and equivalent(sub(t["slice"][1], B), szb)[0] and strips_nul(t["strips"])
    rep.check(okn, rule, "PCE name = bytes @+24 up to the size byte", "PCEIdentity", "self.pceName = ...",
              "PCE name is not the text from +24 to the structure size: %r" % (nm,))
    # ---- MRU
    I.obj(st).attrs["index"] = B
    mru = I.obj(I.new(SRCQ + "MRU", [st]))
    items = list_items(I, mru.attrs.get("mrus"))
    okm = items is not None and len(items) == 1 and items[0][0] == "rep"
    if okm:
        _, L, ref, g = items[0]
        okm = equivalent(L.trip, binop("bitand", at(3, 1), Const(0x0F)))[0] and g == TRUE and not L.breaks
        o = I.heap.get(ref.oid) if isinstance(ref, Ref) else None
        want_id = IntF(add(add(B, Const(12)), mul(Const(8), L.idx)), 4)
        want_pr = IntF(add(add(B, Const(8)), mul(Const(8), L.idx)), 4)
        if okm and isinstance(o, Instance):
            okm = o.attrs.get("id") == want_id and o.attrs.get("priority") == want_pr
        elif okm and getattr(o, "fields", None) and {"id", "priority"} <= set(o.fields):
            # (a named tuple instead of a class with two attributes)
            vals = dict(zip(o.fields, [it[1] for it in o.items]))
            okm = vals.get("id") == want_id and vals.get("priority") == want_pr
        else:
            okm = False
    rep.check(okm, rule, "MRU list: (flags & 0xF) entries of (priority @+8+8i, id @+12+8i)", "MRU", "self.mrus.append(...)",
              "MRU callouts are not (priority, id) word pairs, flags&0xF of them, in order: %r" % (items,))
    # ---- callout fixed part
    I.obj(st).attrs["index"] = B
    co = I.obj(I.new(SRCQ + "Callout", [st]))
    rep.check(co.attrs.get("priority") == at(2, 1) and co.attrs.get("flags") == at(1, 1) and co.attrs.get("size") == at(0, 1),
              rule, "callout size/flags/priority = bytes @+0,+1,+2", "Callout", "self.priority = ...",
              "callout fixed fields are read from the wrong bytes: size=%r flags=%r priority=%r" % (
                  co.attrs.get("size"), co.attrs.get("flags"), co.attrs.get("priority")))
    loc = co.attrs.get("locationCode")
    ll = at(3, 1)
    okl = False
    if isinstance(loc, Ite):
        t = text_render(loc.a) or text_render(loc.b)
        if t is not None:
            okl = t["slice"][0] == add(B, Const(4)) and equivalent(sub(t["slice"][1], t["slice"][0]), ll)[0] and strips_nul(t["strips"])
    rep.check(okl, rule, "location code = byte@+3 bytes of text @+4", "Callout", "self.locationCode = ...",
              "location code is not the length-prefixed text at +4: %r" % (loc,))
    # substructure dispatch on the peeked type id
    loops = [L for L in I.loops.values() if L.func.endswith("Callout.__init__")]
    if loops:
        L = loops[0]
        body = I.events[L.events[0]:L.events[1]]
        news = {e.data[0].split(".")[-1]: e.guard for e in body if e.kind == "new"}
        idxk = [k for k in L.carried if k.endswith(".index")]
        lvi = None
        if idxk:
            for x in walk(L.carried[idxk[0]][1]):
                if isinstance(x, Sym) and x.kind == "loopvar" and x.name.endswith(idxk[0]):
                    lvi = x
        okd = lvi is not None
        if okd:
            typ = IntF(lvi, 2)
            for cls, code in (("FRUIdentity", 0x4944), ("PCEIdentity", 0x5045), ("MRU", 0x4D52)):
                g = news.get(cls)
                if g is None:
                    okd = False
                    continue
                dom = {typ: [0x4944, 0x5045, 0x4D52, 0x1234]}
                want = and_(L.cond, compare("eq", typ, Const(code)))
                # compare only on the type dimension: strip everything but the type test from g
                tests = [c for c in (g.args if isinstance(g, Op) and g.op == "and" else [g]) if any(x == typ for x in walk(c))]
                e, env, n = equivalent(ite(and_(*tests), Const(1), Const(0)), ite(compare("eq", typ, Const(code)), Const(1), Const(0)), domain=dom)
                okd = okd and e
        rep.check(okd, rule, "substructures dispatched on ids 'ID'/'PE'/'MR' read at the current position", "Callout", L.node,
                  "substructure kind is not selected by the two id bytes at the current stream position: %s" % {k: repr(v)[:100] for k, v in news.items()},
                  node=L.node)


def fake_callout_hook(I, finfo, selfv, args, kwargs, node):
    if finfo.qual != SRCQ + "Callout.__init__":
        return None
    o = I.heap[selfv.oid]
    prog = I.prog

    def inst(cls, **attrs):
        ci = prog.cls(SRCQ + cls)
        x = Instance(ci, I.born_now())
        x.attrs.update(attrs)
        return I.alloc(x)
    o.attrs.update(size=Sym("c.size", "int"), flags=Sym("c.flags", "int"), priority=Sym("c.priority", "int"),
                   locationCode=Sym("c.locationCode"), locationCodeSize=Sym("c.locationCodeSize", "int"))
    o.attrs["fruIdentity"] = ite(Sym("hasFRU", "exc"), inst("FRUIdentity", flags=Sym("fru.flags", "int"),
                                 pnOrProcedureID=Sym("fru.pn"), ccin=Sym("fru.ccin"), sn=Sym("fru.sn"),
                                 flattenedSize=Sym("fru.size", "int")), NONE)
    o.attrs["pceIdentity"] = ite(Sym("hasPCE", "exc"), inst("PCEIdentity", machineType=Sym("pce.mt"),
                                 serialNumber=Sym("pce.sn"), pceName=Sym("pce.name"), flattenedSize=Sym("pce.size", "int")), NONE)
    o.attrs["mru"] = ite(Sym("hasMRU", "exc"), inst("MRU", mrus=Sym("mru.mrus"), flattenedSize=Sym("mru.size", "int")), NONE)
    return NONE


from .c01 import callout_walk_loops


def check_callout_rendering(rep, prog):
    rule = "C03.R4.callout-json"
    where = "SRC.getCallouts"
    I = Interpreter(prog, hooks={"on_call": fake_callout_hook, "opaque": {SRCQ + "SRC.getProcedureDesc"}})
    st = pelx.new_stream(I)
    src = I.new(SRCQ + "SRC", [st, Const(0x5053), Sym("len"), Sym("v"), Sym("s"), Sym("c"), Sym("cr")])
    cfg = I.new("pel.peltool.config.Config")
    # whether parser plug-ins are enabled must not decide which encoded fields are shown
    I.obj(cfg).attrs["allow_plugins"] = Sym("plugins", "exc")
    out = I.x_collections_OrderedDict([], {}, None)
    I.method(src, "getCallouts", [out, cfg])
    ents, _ = final_entries(I, out)
    cs = ents.get("Callout Section")
    if not cs or dict_entries(I, cs[-1][1]) is None:
        rep.fail(rule, where, "out['Callout Section']", "callout section dictionary is not stored")
        return
    sec, _ = final_entries(I, cs[-1][1])
    cnt = sec.get("Callout Count")
    lst = sec.get("Callouts")
    if not cnt or not lst:
        rep.fail(rule, where, "od[...]", "Callout Count / Callouts missing")
        return
    items = list_items(I, lst[-1][1])
    walk_loops = callout_walk_loops(I)
    ok = items is not None and len(items) == 1 and items[0][0] == "rep" and items[0][3] == TRUE and walk_loops
    if ok:
        Lr = items[0][1]
        src_list = Lr.iter
        # the list iterated for rendering is the list the walk appended to, and the count is its len()
        walk_apps = [e for e in I.events[walk_loops[0].events[0]:walk_loops[0].events[1]] if e.kind == "append" and not pelx.is_temp(I, e.data[0])]
        same = len(walk_apps) == 1 and walk_apps[0].data[0] == src_list and not Lr.breaks
        cnt_ok = cnt[-1][1] == I.x_len([src_list], {}, None)
        rep.check(same, "C03.R3.callouts", "Callouts renders one entry per walked callout, in order, no early exit", where, Lr.node,
                  "the rendered callout list is not built one-for-one from the list the walk filled", node=Lr.node)
        rep.check(cnt_ok, "C03.R3.callouts", "Callout Count = len() of that same list", where, "od['Callout Count'] = ...",
                  "Callout Count is %r, not the number of callouts walked" % (cnt[-1][1],))
    else:
        rep.fail("C03.R3.callouts", where, "od['Callouts']", "callouts are not rendered by one loop over the walked list: %r" % (items,))
        return
    cj, _ = final_entries(I, items[0][2])
    hasFRU, hasPCE, hasMRU = Sym("hasFRU", "exc"), Sym("hasPCE", "exc"), Sym("hasMRU", "exc")
    fflags = Sym("fru.flags", "int")
    dom = {hasFRU: [False, True], hasPCE: [False, True], hasMRU: [False, True], Sym("plugins", "exc"): [False, True]}

    def need(key, want_val, want_guard, desc):
        e = cj.get(key)
        if not e:
            rep.fail(rule, where, "json[%r]" % key, "callout field %r is never displayed" % key)
            return
        k, v, g, lc = e[-1]
        okv = want_val(v)
        eg, env, n = equivalent(ite(pelx.len_truth_norm(g), Const(1), Const(0)), ite(pelx.len_truth_norm(want_guard), Const(1), Const(0)), domain=dom)
        rep.check(okv and eg, rule, "%s: %s" % (key, desc), where, "json[%r]" % key,
                  "callout %s is not %s (value ok=%s, shown-when ok=%s%s): %r | %r" % (
                      key, desc, okv, eg, (" e.g. " + env_str(env)) if env else "", v, g))

    def tbl(name, keyterm, fb="Invalid"):
        def f(v):
            tl = table_lookup(I, v)
            return tl is not None and tl["table"] == spec_table(name) and tl["default"] == Const(fb) and \
                equivalent(tl["key"], keyterm)[0]
        return f
    bit = lambda m: compare("ne", binop("bitand", fflags, Const(m)), Const(0))
    need("FRU Type", tbl("failingComponentType", binop("bitand", fflags, Const(0xF0))), hasFRU, "failingComponentType[fru flags & 0xF0]")
    need("Priority", tbl("calloutPriorityValues", Sym("c.priority", "int")), hasFRU, "calloutPriorityValues[priority byte]")
    need("Location Code", lambda v: v == Sym("c.locationCode"),
         and_(hasFRU, compare("gt", Op("len", Sym("c.locationCode")), Const(0))), "the location code when non-empty")
    need("Part Number", lambda v: v == Sym("fru.pn"), and_(hasFRU, bit(0x08)), "the 8-byte id when flag 0x08")
    need("Procedure", lambda v: v == Sym("fru.pn"), and_(hasFRU, bit(0x02)), "the 8-byte id when flag 0x02")
    need("CCIN", lambda v: v == Sym("fru.ccin"), and_(hasFRU, bit(0x04)), "the CCIN when flag 0x04")
    need("Serial Number", lambda v: v == Sym("fru.sn"), and_(hasFRU, bit(0x01)), "the serial number when flag 0x01")
    unfv = lambda x: x.args[0] if isinstance(x, Op) and x.op == "fv" and x.args[1] == Const("") and x.args[2] == Const("") else x
    need("PCE MTMS", lambda v: [unfv(x) for x in flat_parts(v)] == [Sym("pce.mt"), Const("_"), Sym("pce.sn")],
         and_(hasPCE, compare("gt", Op("len", Sym("pce.mt")), Const(0))), "machine type _ serial number of the PCE")
    need("PCE Name", lambda v: v == Sym("pce.name"), and_(hasPCE, compare("ne", Op("len", Sym("pce.name")), Const(0))), "the PCE name")
    # MRU ids
    e = cj.get("MRU Id")
    okm = False
    why = ""
    if e:
        k, v, g, lc = e[-1]
        eg = equivalent(ite(g, Const(1), Const(0)), ite(hasMRU, Const(1), Const(0)), domain=dom)[0]
        mrus = Sym("mru.mrus")
        # accumulate-and-trim idiom:  s += "%08X" % m.id + ","  ...  s[:-1]     or   ",".join("%08X" % m.id ...)
        if isinstance(v, Op) and v.op == "getslice" and v.args[2] == Const(-1) and isinstance(v.args[0], Sym) and v.args[0].kind == "loopout":
            lid = v.args[0].info[0]
            L = I.loops[lid]
            (init, nxt, d, w), = [c for kk, c in L.carried.items() if v.args[0].name.endswith(":" + kk)]
            lv = [x for x in walk(nxt) if isinstance(x, Sym) and x.kind == "loopvar"]
            parts = flat_parts(nxt) if not isinstance(nxt, Ite) else flat_parts(nxt.a if not isinstance(nxt.a, Sym) else nxt.b)
            el = Op("elem", mrus, L.idx)
            want_piece = Op("fv", Op("attr:id", el), Const("08X"), Const(""))
            okm = len(parts) == 3 and lv and parts[0] == lv[0] and parts[1] == want_piece and parts[2] == Const(",") \
                and L.iter == mrus and not L.breaks and (init == Const("") or (isinstance(init, Ite) and Const("") in (init.a, init.b)))
            why = "accumulation %r over %r" % (nxt, L.iter)
        elif isinstance(v, Op) and v.op == "m:join" and v.args[0] == Const(","):
            ls = v.args[1]
            okm = isinstance(ls, Op) and ls.op == "listsummary" and len(ls.args) == 1 and ls.args[0].op == "rep" and \
                any(isinstance(x, Op) and x.op == "attr:id" for x in walk(ls.args[0]))
            why = "join %r" % (v,)
        okm = okm and eg
    rep.check(okm, rule, "MRU Id = comma separated %08X of every MRU id, in order", where, "json['MRU Id']",
              "MRU ids are not all listed as %%08X joined by commas (%s): %r" % (why, e[-1][1] if e else None))
    # one dict appended per callout
    Lr = items[0][1]
    apps = [ev for ev in I.events[Lr.events[0]:Lr.events[1]] if ev.kind == "append" and ev.data[0] == lst[-1][1]]
    rep.check(len(apps) == 1, "C03.R3.callouts", "exactly one JSON object appended per callout", where, Lr.node,
              "%d appends per callout" % len(apps), node=Lr.node)
    # a callout is rendered from its own substructures only: nothing but the result list is collected across callouts
    carried = []
    for ev in I.events[Lr.events[0]:Lr.events[1]]:
        if ev.kind in ("append", "extend", "dict_store", "list_setitem", "dictmut", "listmut", "dict_update") and Lr in ev.loops and \
                isinstance(ev.data[0], Ref) and ev.data[0] != lst[-1][1]:
            o_ = I.heap.get(ev.data[0].oid)
            if o_ is not None and Lr not in getattr(o_, "born_loops", ()) and getattr(o_, "shared", None) is None:
                carried.append(ev)
    rep.check(not carried, rule, "no container other than the result list is filled across callouts", where, carried[0].node if carried else Lr.node,
              "a list / dictionary created before the per-callout loop is filled inside it (%s): a later callout shows values of the "
              "earlier ones" % (carried[0].kind if carried else ""), node=carried[0].node if carried else None)


def check_registry(rep, prog):
    rule = "C03.R5.registry"
    I = Interpreter(prog)
    st = pelx.new_stream(I)
    src = I.new(SRCQ + "SRC", [st, Const(0x5053), Sym("len"), Sym("v"), Sym("s"), Sym("c"), Sym("cr")])
    ws = [Sym("w%d" % i, "int") for i in range(2, 10)]
    I.obj(src).attrs["hexData"] = I.mk_list(ws)
    hx = I.obj(src).attrs["hexData"]
    det = Sym("details")
    I.method(src, "buildMessage", [det])
    apps = [e for e in I.events if e.kind == "append" and e.func.endswith("buildMessage")]
    ok = len(apps) == 1
    if ok:
        v = apps[0].data[1]
        gi = [x for x in walk(v) if isinstance(x, Op) and x.op == "getitem" and x.args[0] == hx]
        ok = len(gi) == 1
        if ok:
            idx = gi[0].args[1]
            ints = [x for x in walk(idx) if isinstance(x, Op) and x.op == "int"]
            ok = len(ints) == 1 and equivalent(idx, sub(ints[0], Const(2)))[0]
            # the digit must be the last character of the SRCWordN source name
            ok = ok and isinstance(ints[0].args[0], Op) and ints[0].args[0].op == "getitem" and ints[0].args[0].args[1] == Const(-1)
    rep.check(ok, rule, "message argument SRCWordN -> hexData[N-2]", "SRC.buildMessage", "hexword_args.append(...)",
              "registry message arguments are not taken from hex word N (index N-2): %s" % [repr(e.data[1])[:160] for e in apps])
    I.method(src, "buildHexwordDescs", [det])
    sts = [e for e in I.events if e.kind == "dict_store" and e.func.endswith("buildHexwordDescs")]
    ok = len(sts) == 1
    if ok:
        val = sts[0].data[2]
        items = list_items(I, val)
        ok = items is not None and len(items) == 2
        if ok:
            gi = items[0][1]
            ok = isinstance(gi, Op) and gi.op == "getitem" and gi.args[0] == hx
            if ok:
                ints = [x for x in walk(gi.args[1]) if isinstance(x, Op) and x.op == "int"]
                ok = len(ints) == 1 and equivalent(gi.args[1], sub(ints[0], Const(2)))[0]
    rep.check(ok, rule, "Words6To9 descriptions use hexData[N-2]", "SRC.buildHexwordDescs", "descriptions[...] = [self.hexData[index], ...]",
              "hex word descriptions do not show hex word N (index N-2)")
    # first matching registry entry
    reg = I.new("pel.peltool.registry.Registry")
    I.obj(reg).attrs["pels"] = Sym("PELS")
    r = I.method(reg, "getErrorMessage", [Sym("code"), Sym("typ")])
    loops = [L for L in I.loops.values() if L.func.endswith("getErrorMessage")]
    if not loops:
        # index idiom: the registry is looked up through a dictionary.  The key must identify an entry by BOTH its SRC type
        # and its reason code (or the value must be scanned further); a key made of the reason code alone lets an entry of
        # another type shadow the right one.
        code, typ = Sym("code"), Sym("typ")
        looks = [x for x in walk(r) if isinstance(x, Op) and x.op in ("m:get", "getitem", "dictget") and any(y == code for y in walk(x.args[1]))]
        conds = [c for e in I.events if e.func.endswith("getErrorMessage") for c in walk(e.guard)]
        looks += [x for x in conds if isinstance(x, Op) and x.op in ("m:get", "getitem", "dictget") and len(x.args) > 1 and any(y == code for y in walk(x.args[1]))]
        if not looks:
            raise AnalysisError("Registry.getErrorMessage: look-up idiom not recognised (neither a scan nor a dictionary keyed by the code)")
        both = all(any(y == typ for y in walk(x.args[1])) for x in looks)
        rep.check(both, rule, "registry index is keyed by SRC type and reason code together", "Registry.getErrorMessage", "index lookup",
                  "the registry is indexed by reason code alone and the SRC type is only compared afterwards: when two entries of different "
                  "types share a reason code, the one listed later is never found (its message is dropped)")
        return
    first = isinstance(r, Ite) and any(isinstance(x, Op) and x.op == "loopret" for x in walk(r)) and len(loops) == 1 \
        and loops[0].iter == Sym("PELS")
    rep.check(first, rule, "getErrorMessage returns at the first matching registry entry (search over self.pels in order)",
              "Registry.getErrorMessage", "for pel in self.pels: ... return output",
              "registry search is not a first-match scan over the registry entries in order")
    if first:
        L = loops[0]
        ex = [x for x in walk(r) if isinstance(x, Op) and x.op == "exists"]
        cond = ex[0].args[1] if ex else TRUE
        el = Op("elem", Sym("PELS"), L.idx)
        srcd = Op("getitem", el, Const("SRC"))
        want_atoms = [compare("in", Sym("code"), Op("getitem", srcd, Const("ReasonCode")))]
        has_code = any(x == want_atoms[0] or x == not_(want_atoms[0]) for x in walk(cond))
        typ_cmp = any(isinstance(x, Op) and x.op in ("ne", "eq") and Sym("typ") in x.args for x in walk(cond))
        rep.check(has_code and typ_cmp, rule, "an entry matches iff its type equals the SRC type and its ReasonCode contains the code",
                  "Registry.getErrorMessage", "if srcType != entryType / if code not in ...",
                  "match condition does not test both the SRC type and the reason code: %r" % (cond,))


def run(rep, prog, thorough):
    rep.explanation = (
        "SRC decode summarised by abstract interpretation: header/word/flag keys matched against the PEL SRC layout "
        "(byte range, mask, rendering, SRC-type condition), the hex-word loop evaluated for all 8 indices, the FRU/PCE/MRU/"
        "callout constructors' layouts, the callout JSON renderer interpreted over symbolic callout objects (value and "
        "shown-when condition per key), count/list built from the same walked list, registry word indexing and first-match search.")
    check_src_header(rep, prog)
    check_substructures(rep, prog)
    check_callout_rendering(rep, prog)
    check_registry(rep, prog)
    from .c01 import check_callout_accounting, check_getcallouts_progress
    check_callout_accounting(rep, prog, pfx="C03.R3.callouts-bounded-walk")
    # every value of the flag / type fields is displayed: no conversion or sanity test rejects an SRC for what a field holds
    from .c01 import check_no_value_rejection
    check_no_value_rejection(rep, prog, "C03.R1.words-flags", sids=[0x5053, 0x5353])
    rep.floor("obligations", len(rep.obligations), 40)
