"""C08 - list, count and display-all agree on the same PELs in file-name order."""
from ..core import AnalysisError
from ..interp import Interpreter
from ..terms import (Const, Sym, Op, Ite, Ref, TRUE, FALSE, NONE, walk, and_, or_, not_, is_const, is_int, subst, compare, ite)
from .. import pelx
from ..pelx import implies, env_str, unsat, IntF, F, hex_render, equivalent, list_items
from ..cli import FullMain, Cli, PT, ARGS
from .c09 import conj, is_stdout_print
from .c02 import check_bcd

MODES = {"listOption": "list", "extractAllPELsData": "all", "printPELCount": "show_pel_count",
         "parsePelFromPLID": "plID", "parsePelFromSRCID": "src"}


def cfg_attr(fm, cfg, name):
    o = fm.I.obj(cfg)
    return fm.norm(o.attrs.get(name))


def candidate_source(fm, L):
    """Decompose the list a per-file loop iterates into sorted(<one pass over a directory's file names, filtered>).
    Works on the value, however it was assembled (append loop + list.sort, sorted(generator), helper functions)."""
    I = fm.I
    it = fm.norm(L.iter)
    if isinstance(it, Op) and it.op == "enumerate":
        it = it.args[0]
    if isinstance(it, Ite):
        # "filter only when an extension was given, then sort in place": each alternative is a list sorted in place - one a
        # filtered pass over the file names, the other the file names themselves
        alts0 = []

        def lv0(t, cs):
            t = fm.norm(t)
            if isinstance(t, Ite):
                lv0(t.a, cs + [t.c]), lv0(t.b, cs + [not_(t.c)])
            else:
                alts0.append((t, and_(*cs)))
        lv0(it, [])
        passes0, raw0, kws0 = [], [], []
        for t, c in alts0:
            its0 = list_items(I, t) if isinstance(t, Ref) else None
            bad0 = (None, "it iterates %r, which is not one sorted list" % (it,))
            if not its0:
                return bad0
            first = its0[0]
            if len(its0) == 2 and its0[1][0] == "v" and isinstance(its0[1][1], Op) and its0[1][1].op == "listmut:sort" and \
                    (fm.norm(its0[1][2]) == TRUE or implies(c, fm.norm(its0[1][2]))[0]):
                # filled, then sorted in place
                kws0.append({kv.args[0].v: fm.norm(kv.args[1]) for kv in its0[1][1].args if isinstance(kv, Op) and kv.op == "kv"})
                if first[0] == "rep":
                    passes0.append((first, c))
                elif first[0] == "v" and isinstance(first[1], Op) and first[1].op == "splat" and fm.norm(first[2]) == TRUE:
                    raw0.append((fm.norm(first[1].args[0]), c))
                else:
                    return bad0
            elif len(its0) == 1 and first[0] == "v" and fm.norm(first[2]) == TRUE and isinstance(fm.norm(first[1]), Op) and \
                    fm.norm(first[1]).op == "splat" and isinstance(fm.norm(first[1]).args[0], Op) and fm.norm(first[1]).args[0].op == "sorted":
                # the canonical form of "a list sorted in place": splat(sorted(source))
                srt0 = fm.norm(first[1]).args[0]
                kws0.append({kv.args[0].v: fm.norm(kv.args[1]) for kv in srt0.args[1:]})
                src0 = fm.norm(srt0.args[0])
                sit0 = list_items(I, src0) if isinstance(src0, Ref) else None
                if sit0 and len(sit0) == 1 and sit0[0][0] == "rep":
                    passes0.append((sit0[0], c))
                elif sit0 is None:
                    raw0.append((src0, c))
                else:
                    return bad0
            else:
                return bad0
        if len(passes0) != 1 or any(k != kws0[0] for k in kws0):
            return None, "the alternatives of the candidate list are not one filtered pass / the plain file list sorted the same way"
        (_, Lf, term, g), c0 = passes0[0]
        files0 = fm.norm(Lf.iter)
        if any(t != files0 for t, c in raw0):
            return None, "what is sorted is assembled from several different sources"
        keep = and_(c0, fm.norm(g))
        for t, c in raw0:
            keep = or_(keep, c)
        return dict(kw=kws0[0], Lf=Lf, elem=fm.norm(term), guard=keep), ""
    its = list_items(I, it) if isinstance(it, Ref) else None
    if its and len(its) == 2 and its[0][0] == "rep" and its[1][0] == "v" and isinstance(its[1][1], Op) and its[1][1].op == "listmut:sort" \
            and fm.norm(its[1][2]) == TRUE:
        # one pass appended the names, then the list was sorted in place (on a path the analysis keeps conditional only
        # because the directory might have been unreadable)
        _, Lf, term, g = its[0]
        kw = {kv.args[0].v: fm.norm(kv.args[1]) for kv in its[1][1].args if isinstance(kv, Op) and kv.op == "kv"}
        return dict(kw=kw, Lf=Lf, elem=fm.norm(term), guard=fm.norm(g)), ""
    if not its or len(its) != 1 or its[0][0] != "v" or its[0][2] != TRUE:
        return None, "it iterates %r, which is not one sorted list" % (it,)
    sp = fm.norm(its[0][1])
    if not (isinstance(sp, Op) and sp.op == "splat" and isinstance(sp.args[0], Op) and sp.args[0].op == "sorted"):
        return None, "the iterated list is not the result of sorted()/list.sort(): %r" % (sp,)
    srt = sp.args[0]
    kw = {kv.args[0].v: fm.norm(kv.args[1]) for kv in srt.args[1:]}
    # what is sorted: one filtered pass over the files - possibly chosen by a condition (e.g. "filter only if an extension
    # was given", the other alternative being the unfiltered file list itself)
    alts = []

    def leaves(t, cs):
        t = fm.norm(t)
        if isinstance(t, Ite):
            leaves(t.a, cs + [t.c]), leaves(t.b, cs + [not_(t.c)])
        else:
            alts.append((t, and_(*cs)))
    leaves(srt.args[0], [])
    passes = []
    raw = []
    for t, c in alts:
        sit = list_items(I, t) if isinstance(t, Ref) else None
        if sit and len(sit) == 1 and sit[0][0] == "rep":
            passes.append((sit[0], c))
        elif sit is not None and not sit:
            continue        # the empty default of an unreadable directory
        else:
            raw.append((t, c))
    if not passes:
        return None, "what is sorted is not the result of one pass over the directory entries"
    (_, Lf, term, g), c0 = passes[0]
    files = fm.norm(Lf.iter)
    if len(passes) > 1 or any(t != files for t, c in raw):
        return None, "what is sorted is assembled from several different sources"
    keep = and_(c0, fm.norm(g))
    for t, c in raw:
        keep = or_(keep, c)       # on this alternative every file is kept
    return dict(kw=kw, Lf=Lf, elem=fm.norm(term), guard=keep), ""


def check_filelist(rep, prog, fm, cfg):
    """every mode iterates sorted(top-level files passing the --extension filter, reverse=--reverse) - decided on the
    value each mode's per-file loop iterates"""
    rule = "C08.R1.same-candidates"
    from .c09 import dir_loops, DECODERS
    ext_cfg = cfg_attr(fm, cfg, "extension")
    rev_cfg = cfg_attr(fm, cfg, "rev")
    ev = fm.events
    dls = dir_loops(fm)
    n = 0
    # the extension the modes filter with is the option's value itself (file names are compared case-sensitively)
    A0 = fm.arg("extension")
    ext_given = pelx.specialise(ext_cfg, A0) if ext_cfg is not None else None
    rep.check(ext_given == A0, rule, "Config.extension is the --extension value as given", PT + "main", "config.extension = args.extension",
              "the extension the modes filter with is %r, not the option's value as given: files whose extension differs only in "
              "case / form are selected or skipped unexpectedly" % (ext_given,))
    for fn, dest in MODES.items():
        q = PT + fn
        # the per-file loops of the mode: directory loops (by provenance) in which a file is opened / decoded
        per_file = []
        for e in ev:
            if q in e.stack and (e.kind == "open" or (e.kind == "opaquecall" and e.data[0] in DECODERS)):
                ls = [L for L in e.loops if L in dls]
                if ls and ls[-1] not in per_file:
                    per_file.append(ls[-1])
        if not rep.check(bool(per_file), rule, "%s decodes the files of a directory listing" % fn, q, fn,
                         "%s has no per-file loop over a directory listing" % fn):
            continue
        for L in per_file:
            n += 1
            src, why = candidate_source(fm, L)
            if src is None:
                rep.fail(rule, q, L.node, "in %s the candidate list is not 'all top-level files with the --extension filter, sorted': %s" % (fn, why), node=L.node)
                continue
            Lf = src["Lf"]
            files = fm.norm(Lf.iter)
            top = isinstance(files, Op) and files.op == "getitem" and files.args[1] == Const(2) and isinstance(files.args[0], Op) and \
                files.args[0].op == "elem" and isinstance(files.args[0].args[0], Op) and files.args[0].args[0].op == "call:os.walk"
            first = top and files.args[0].args[1] == Const(0)
            rep.check(top and first, rule, "%s: only the top level of the directory is listed" % fn, Lf.func, Lf.node,
                      "the candidates of %s are not the files of the first (top-level) os.walk entry: the listing descends into "
                      "subdirectories or uses another source (%r)" % (fn, files), node=Lf.node)
            fname = src["elem"]
            okn = fname == Op("elem", files, Lf.idx)
            splitext = Op("getitem", Op("call:os.path.splitext", fname), Const(1))
            want = not_(and_(pelx_truth(ext_cfg), compare("ne", ext_cfg, splitext)))
            gl = src["guard"]
            e1 = e2 = True
            # the option value may be copied into the Config conditionally (config.extension = args.extension if given):
            # decide the equivalence separately with and without the option
            A = fm.arg("extension")
            for case in (A, not_(A)):
                gc, wc = pelx.specialise(gl, case), pelx.specialise(want, case)
                e1 = e1 and implies(and_(case, gc), wc)[0]
                e2 = e2 and implies(and_(case, wc), gc)[0]
            rep.check(okn and e1 and e2 and not Lf.stops, rule, "%s: candidates = every top-level file passing the --extension filter" % fn, Lf.func, Lf.node,
                      "in %s the candidate list is not 'all files whose extension equals config.extension (when given)': file kept under %r, "
                      "expected: not (extension and extension != splitext(file)[1]) with extension = config.extension" % (fn, gl), node=Lf.node)
            kw = src["kw"]
            rv = kw.get("reverse", Const(False))
            oks = fn == "printPELCount" or (rv == rev_cfg and "key" not in kw)      # order is irrelevant for a count
            rep.check(oks, "C08.R3.order", "%s: file list sorted by name, reversed exactly when --reverse, and iterated as is" % fn, q, L.node,
                      "in %s the candidate list is not sorted ascending by file name / reversed iff --reverse (sorted with %s)" % (
                          fn, {k: repr(v) for k, v in kw.items()}), node=L.node)
    rep.floor("per-file loops over candidate lists", n, 5)


def pelx_truth(t):
    return t


def check_decode_independent_of_display(rep, prog, rule):
    """whether a file is accepted (all its sections decode) must not depend on how it is displayed: parsePEL decodes
    the optional sections under the same condition with and without --hex"""
    I = Interpreter(prog, hooks={"opaque": {PT + "sectionFun", PT + "considerPEL", PT + "prettyPrint", PT + "buildOutput",
                                            PT + "generatePH", PT + "generateUH"}})
    st = pelx.new_stream(I)
    c = I.new("pel.peltool.config.Config")
    hexs = Sym("cfg.hex", "exc")
    I.obj(c).attrs["hex"] = hexs
    I.call(PT + "parsePEL", [st, c, Const(False)])
    sf = [e for e in I.events if e.kind == "opaquecall" and e.data[0] == PT + "sectionFun"]
    dep = [e for e in sf if any(x == hexs for x in walk(e.guard))]
    rep.check(bool(sf) and not dep, rule, "parsePEL decodes the optional sections whether or not --hex is given", PT + "parsePEL",
              dep[0].node if dep else "sectionFun(...)", "the optional sections are decoded only without --hex: with --hex a file whose "
              "later sections are damaged is accepted (and hex-dumped) although it is rejected without --hex",
              node=dep[0].node if dep else None)


def check_pipelines(rep, prog, fm, cfg):
    """same selection pipeline PH -> UH -> considerPEL(uh, config) in count, list and all"""
    rule = "C08.R2.same-filter"
    # (a) the two decode functions
    for fn in ("parsePEL", "parsePELSummary"):
        I = Interpreter(prog, hooks={"opaque": {PT + "sectionFun", PT + "considerPEL", PT + "prettyPrint", PT + "buildOutput",
                                                PT + "generatePH", PT + "generateUH"}})
        st = pelx.new_stream(I)
        c = I.new("pel.peltool.config.Config")
        # every on/off option is left open: no option may let a log through that considerPEL - all the count mode asks - rejects
        for k_, v_ in list(I.obj(c).attrs.items()):
            if isinstance(v_, Const) and isinstance(v_.v, bool):
                I.obj(c).attrs[k_] = Sym("cfg." + k_, "exc")
        args = [st, c] + ([Const(False)] if fn == "parsePEL" else [])
        r = I.call(PT + fn, args)
        seq = [e for e in I.events if e.kind == "opaquecall" and e.data[0] in (PT + "generatePH", PT + "generateUH", PT + "considerPEL")]
        names = [e.data[0].split(".")[-1] for e in seq]
        ok = names == ["generatePH", "generateUH", "considerPEL"]
        if ok:
            ph, uh, cp = seq
            ph_ret = Op("getitem", Op("call:" + PT + "generatePH", *ph.data[1]), Const(0))
            okc = cp.data[1][1] == c and isinstance(cp.data[1][0], Op) and cp.data[1][0].op == "getitem" and cp.data[1][0].args[1] == Const(1)
            # section loop only on paths where all three succeeded
            sf = [e for e in I.events if e.kind == "opaquecall" and e.data[0] == PT + "sectionFun"]
            cpt = Op("call:" + PT + "considerPEL", *cp.data[1])
            oks = bool(sf) and all(implies(e.guard, cpt)[0] for e in sf)
            ok = okc and oks
        rep.check(ok, rule, "%s: PH, UH, considerPEL(uh, config) in order; sections decoded only for selected PELs" % fn, PT + fn, fn,
                  "%s does not run the selection pipeline generatePH -> generateUH -> considerPEL(user header, config) before "
                  "decoding: %s" % (fn, names))
    # (a') both decoders reach the selection test under the same conditions: a check only one of them makes (a size limit,
    # an extra sanity test) makes --all-pels drop PELs that --list / --show-pel-count still report
    import re as _re
    reach = {}
    for fn in ("parsePEL", "parsePELSummary"):
        I = Interpreter(prog, hooks={"opaque": {PT + "sectionFun", PT + "considerPEL", PT + "prettyPrint", PT + "buildOutput",
                                                PT + "generatePH", PT + "generateUH"}})
        st = pelx.new_stream(I)
        c = I.new("pel.peltool.config.Config")
        I.call(PT + fn, [st, c] + ([Const(False)] if fn == "parsePEL" else []))
        cps = [e for e in I.events if e.kind == "opaquecall" and e.data[0] == PT + "considerPEL"]
        if cps:
            reach[fn] = {_re.sub(r"&[a-z]+\d+", "&", repr(x)) for x in conj(cps[0].guard)}
    if len(reach) == 2:
        only_all = sorted(reach["parsePEL"] - reach["parsePELSummary"])
        only_sum = sorted(reach["parsePELSummary"] - reach["parsePEL"])
        rep.check(not only_all and not only_sum, rule, "parsePEL and parsePELSummary reach the selection test under the same conditions", PT + "parsePEL",
                  "considerPEL(...)", "the full decode and the summary decode do not accept the same logs before the selection test: only the full "
                  "decode requires %s, only the summary requires %s" % ([x[:100] for x in only_all], [x[:100] for x in only_sum]))
    # (b) count mode inline pipeline and single increment
    q = PT + "printPELCount"
    seq = [e for e in fm.events if e.kind == "opaquecall" and q in e.stack and e.data[0] in (PT + "generatePH", PT + "generateUH", PT + "considerPEL")]
    names = [e.data[0].split(".")[-1] for e in seq]
    ok = names == ["generatePH", "generateUH", "considerPEL"]
    detail = str(names)
    if ok:
        cp = seq[2]
        L = cp.loops[-1] if cp.loops else None
        ok = L is not None and cp.data[1][1] == cfg
        cnt = [k for k in (L.carried if L else {}) if "." not in k]
        inc_ok = False
        for k in cnt:
            init, nxt, d, w = L.carried[k]
            nx = fm.norm(nxt)
            lv = [x for x in walk(nx) if isinstance(x, Sym) and x.kind == "loopvar" and x.name.endswith(":" + k)]
            if lv and init == Const(0) and isinstance(nx, Ite):
                a, b = (nx.a, nx.b) if nx.b == lv[0] else (nx.b, nx.a)
                cond = nx.c if nx.b == lv[0] else not_(nx.c)
                if a == pelx.add(lv[0], Const(1)) and b == lv[0]:
                    ph_ok = Op("getitem", Op("call:" + PT + "generatePH", *[fm.norm(x) for x in seq[0].data[1]]), Const(0))
                    uh_ok = Op("getitem", Op("call:" + PT + "generateUH", *[fm.norm(x) for x in seq[1].data[1]]), Const(0))
                    cp_ok = Op("call:" + PT + "considerPEL", *[fm.norm(x) for x in cp.data[1]])
                    want = and_(ph_ok, uh_ok, cp_ok)
                    core = and_(*[c2 for c2 in conj(cond) if not (isinstance(c2, Op) and c2.op == "not" and isinstance(c2.args[0], Sym))])
                    e1 = implies(cond, want)[0]
                    e2 = implies(and_(want, *[c2 for c2 in conj(cond) if c2 not in conj(core)]), cond)[0]
                    inc_ok = e1 and e2
                    detail = "count increments under %r" % (cond,)
        if not inc_ok and L is not None:
            # ... or the number is taken at once: sum(<selected?> for each file) - the count of the files for which it holds
            for P in [e for e in fm.events if e.kind == "print" and q in e.stack and not e.loops and e.data[0]]:
                for x in walk(fm.norm(P.data[0][0])):
                    if isinstance(x, Op) and x.op == "count" and x.args[0] == Const(L.lid) and not inc_ok:
                        cond = fm.norm(x.args[1])
                        cond = subst(cond, {t_: t_.args[0] for t_ in walk(cond) if isinstance(t_, Op) and t_.op == "truthy" and
                                            isinstance(t_.args[0], Op) and t_.args[0].op.startswith("call:")})     # bool(f(..)) as a condition is f(..)
                        ph_ok = Op("getitem", Op("call:" + PT + "generatePH", *[fm.norm(y) for y in seq[0].data[1]]), Const(0))
                        uh_ok = Op("getitem", Op("call:" + PT + "generateUH", *[fm.norm(y) for y in seq[1].data[1]]), Const(0))
                        cp_ok = Op("call:" + PT + "considerPEL", *[fm.norm(y) for y in cp.data[1]])
                        want = and_(ph_ok, uh_ok, cp_ok)
                        excs = [y for y in walk(cond) if isinstance(y, Sym) and y.kind == "exc"]
                        noexc = and_(*[not_(y) for y in excs])
                        inc_ok = implies(cond, want)[0] and implies(and_(want, noexc), cond)[0]
                        detail = "count = number of files with %r" % (cond,)
        ok = ok and inc_ok
    rep.check(ok, rule, "count mode: +1 exactly when PH ok, UH ok and considerPEL(uh, config)", q, "count += 1",
              "the count is not incremented exactly once per file that passes PH, UH and considerPEL with the same config (%s)" % detail)
    # (c) list/all use the same Config object and contribute at most one entry per file
    for fn, dec in (("extractAllPELsData", "parsePEL"), ("listOption", "parsePELSummary"), ("parsePelFromPLID", "parsePELSummary"),
                    ("parsePelFromSRCID", "parsePELSummary")):
        ds = [e for e in fm.events if e.kind == "opaquecall" and e.data[0] == PT + dec and
              (PT + fn in e.stack or (fn == "listOption" and e.func == PT + "extractAndSummarizePEL" and
                                     any(L.func == PT + "listOption" for L in e.loops)))]
        ok = bool(ds) and all(d.data[1][1] == cfg for d in ds)
        rep.check(ok, rule, "%s decodes with the Config built from the options" % fn, PT + fn, dec, "%s does not filter with the options' Config" % fn)
    # list: one store per file keyed by its entry id, guarded only by 'decoded & selected'
    q = PT + "listOption"
    st = [e for e in fm.events if e.kind == "dict_store" and q in e.stack]
    ok = len(st) == 1 and st[0].loops
    if ok:
        key = fm.norm(st[0].data[1])
        L = st[0].loops[-1]
        base = {fm.norm(b) for b in getattr(L, "body_guard_full", set())}
        extra = [c for c in conj(fm.norm(st[0].guard)) if c not in base]
        ok = len(extra) == 1 and any(isinstance(x, Op) and x.op.startswith("call:" + PT + "extractAndSummarizePEL") or
                                     isinstance(x, Op) and x.op == "getitem" for x in walk(extra[0]))
    rep.check(ok, rule, "list mode: one entry per selected file, stored under its entry id", q, "final_summary[eid] = summary",
              "list mode does not add exactly one entry per decoded+selected file")
    if ok:
        # ... and what is printed is that dictionary as filled - in file order, like the other two modes - not a re-ordered copy
        tgt = st[0].data[0]
        want_entries = pelx.dict_entries(fm.I, tgt)
        finals = [e for e in fm.events if is_stdout_print(e) and q in e.stack and not e.loops and e.seq > st[0].seq and e.data[0]]
        dumped = [x for P in finals for x in walk(fm.norm(P.data[0][0])) if isinstance(x, Op) and x.op == "json.dumps" and x.args]
        okp = any(x.args[0] == tgt or (want_entries is not None and pelx.dict_entries(fm.I, x.args[0]) == want_entries) for x in dumped)
        rep.check(okp, "C08.R1.same-candidates", "list mode prints the summaries in the order the files were visited", q,
                  "print(prettyPrint(json.dumps(final_summary, ...)))", "the listing that is printed is not the dictionary as it was filled file by "
                  "file (it is re-ordered or rebuilt: %s): --list no longer shows the PELs in the file-name order the other modes use" % (
                      [repr(x.args[0])[:80] for x in dumped],))
    # all: the document print guard
    q = PT + "extractAllPELsData"
    docs = [e for e in fm.events if is_stdout_print(e) and q in e.stack and e.loops and e.data[0] and
            any(isinstance(x, Op) and x.op == "call:" + PT + "parsePEL" for x in walk(e.data[0][0]))]
    rep.check(len(docs) == 1, rule, "all mode: one document print per selected file", q, "print(json_string, end='')",
              "all mode prints %d documents per file" % len(docs))


def check_summary(rep, prog):
    """each list field must be the very value the full decode displays (term equality after inlining the header decoders)"""
    rule = "C08.R4.summary-fields"
    I = Interpreter(prog, hooks={"opaque": {PT + "sectionFun", PT + "considerPEL"}})
    st = pelx.new_stream(I)
    cfg = I.new("pel.peltool.config.Config")
    I.call(PT + "parsePELSummary", [st, cfg])
    # the document the full decode would show for the two headers (same interpretation: the header decoders inlined) -
    # wherever the store into the output happens (generatePH/UH themselves or a shared helper)
    docs = {}
    doc_refs = set()
    for e in I.events:
        if e.kind == "dict_store" and is_const(e.data[1], str) and e.data[1].v in ("Private Header", "User Header") and \
                pelx.dict_entries(I, e.data[2]) is not None:
            ents, _ = pelx.final_entries(I, e.data[2])
            docs[e.data[1].v] = {k: v[-1][1] for k, v in ents.items() if k is not None}
            doc_refs.add(e.data[2])
    sts = {}
    for e in I.events:
        if e.kind == "dict_store" and is_const(e.data[1], str) and e.data[0] not in doc_refs and \
                e.data[1].v in ("PLID", "CreatorID", "Subsystem", "Sev", "CompID", "Commit Time", "SRC", "Message"):
            sts.setdefault(e.data[1].v, []).append(e)
    if "Private Header" not in docs or "User Header" not in docs:
        raise AnalysisError("header decoders do not store 'Private Header' / 'User Header' documents")
    want = {"PLID": ("Private Header", "Platform Log Id"), "CreatorID": ("Private Header", "Creator Subsystem"),
            "Subsystem": ("User Header", "Subsystem"), "Sev": ("User Header", "Event Severity"),
            "CompID": ("Private Header", "Created by"), "Commit Time": ("Private Header", "Committed at")}
    from ..interp import _strip_undef
    for k, (sec, key) in want.items():
        es = sts.get(k, [])
        full = docs[sec].get(key)
        got = _strip_undef(I.simp(es[0].data[2])) if es else None
        ok = len(es) == 1 and full is not None and (got == full or _strip_undef(got) == _strip_undef(full) or same_under(I, es[0], got, full))
        rep.check(ok, rule, "summary %s equals '%s' of the %s in the full decode" % (k, key, sec), "parsePELSummary",
                  "summary[%r] = ..." % k, "list entry field %s differs from the full decode's %s / %s: summary has %r, full decode shows %r" % (
                      k, sec, key, got, full))
    # the summary decode accepts what the full decode accepts: it must not trip over a PEL that simply lacks an optional part
    for e in I.events:
        if e.kind == "raise" and any(is_const(x, str) and "NoneType" in x.v for a in e.data for x in walk(a)) and e.guard != FALSE:
            rep.fail(rule, e.func, e.node, "the summary decode subscripts a value that is None on some path (e.g. a PEL without a primary SRC): "
                     "the TypeError is swallowed by the per-file barrier and the PEL is missing from --list although -n counts it and -a shows it",
                     node=e.node)
    # eid returned = the Entry Id
    rep.count("summary fields compared", len(want))


def same_under(I, ev, got, full):
    """equal when the guard of the store decides the remaining ite conditions"""
    g = conj(ev.guard)

    def red(t):
        n = 0
        while isinstance(t, Ite) and n < 20:
            if implies(ev.guard, t.c)[0]:
                t = t.a
            elif implies(ev.guard, not_(t.c))[0]:
                t = t.b
            else:
                break
            n += 1
        return t
    def deep(t, depth=0):
        t = red(t)
        if isinstance(t, Op) and depth < 6:
            from ..terms import rebuild
            args = tuple(deep(a, depth + 1) for a in t.args)
            if args != t.args:
                return rebuild(t.op, args)
        return t
    return deep(got) == deep(full)


def check_json_order(rep, prog):
    rule = "C08.R3.order"
    from .. import effects
    import ast
    n = 0
    for cs in effects.call_sites(prog):
        if cs.name == "json.dumps" and cs.module.name == "pel.peltool.peltool":
            n += 1
            bad = [k for k in cs.node.keywords if k.arg == "sort_keys" and not (isinstance(k.value, ast.Constant) and k.value.value is False)]
            rep.check(not bad, rule, "json.dumps at line %d keeps insertion order (no sort_keys)" % cs.node.lineno, cs.qual, cs.node,
                      "sort_keys re-orders the listing: entries are no longer in file-name order", node=cs.node, file=cs.module.rel)
    rep.floor("json.dumps sites in peltool", n, 2)


def run(rep, prog, thorough):
    rep.explanation = (
        "Sibling cross-check of the three pipelines on the interpreted main(): each mode's candidate list comes from "
        "getFileList with the same extension filter (path condition of the append compared with the spec condition over "
        "config.extension), sorted with reverse = config.rev and iterated as is; count/list/all run PH -> UH -> "
        "considerPEL(uh, same Config) and contribute at most one count/entry/document per file under exactly that condition; "
        "summary fields are read from the same decoded values; no sort_keys.")
    fm = FullMain(prog)
    cfgs = [e.data[1] for e in fm.events if e.kind == "new" and e.data[0] == "pel.peltool.config.Config"]
    if not cfgs:
        raise AnalysisError("main() does not build a Config")
    cfg = cfgs[0]
    check_filelist(rep, prog, fm, cfg)
    check_pipelines(rep, prog, fm, cfg)
    check_summary(rep, prog)
    check_json_order(rep, prog)
    from .c09 import check_all_separator
    check_all_separator(rep, fm, "C08.R2.same-filter")
    # ... and the same selection for the first and the last file: no option is a one-shot iterator (rule shared with C19)
    from .c19 import check_options_reusable
    check_options_reusable(rep, fm, "C08.R2.same-filter")
    # count / list look at the two headers only, display-all decodes every section: a well-formed section that the full
    # decode cannot digest makes the three modes disagree (rule shared with C01)
    check_decode_independent_of_display(rep, prog, "C08.R2.same-filter")
    from .c01 import check_full_decode_accepts
    check_full_decode_accepts(rep, prog, "C08.R5.full-decode-accepts")
    # ... and reads of a callout exactly what its flags announce: a mis-sized read makes --list / --all-pels fail on a log that
    # --show-pel-count (headers only) still counts (rule shared with C01)
    from .c01 import check_callout_accounting
    check_callout_accounting(rep, prog, pfx="C08.R5.full-decode-accepts")
    # the modes decode the PELs of a directory in different orders (-r) and to different depths: what is shown for one PEL
    # must not depend on what was decoded before it (rule shared with C19)
    from .c05 import decoder_runs
    from .c19 import check_decode_state
    from ..effects import check_no_memoised
    runs = decoder_runs(prog)
    check_decode_state(rep, prog, runs)
    check_no_memoised(rep, prog, "C19.R3.shared-state-writes", None, "a decode returns what an earlier decode computed for equal arguments")
