"""C08 - list, count and display-all agree on the same PELs in file-name order."""
from ..core import AnalysisError
from ..interp import Interpreter
from ..terms import (Const, Sym, Op, Ite, Ref, TRUE, FALSE, NONE, walk, and_, or_, not_, is_const, is_int, subst, compare, ite)
from .. import pelx
from ..pelx import implies, env_str, unsat, IntF, F, hex_render, equivalent, list_items
from ..cli import FullMain, Cli, PT, ARGS
from .c09 import conj, is_stdout_print
from .c02 import check_bcd

MODES = {"listOption": "list", "extractAllPELsData": "all", "printPELCount": "show_pel_count",
         "parsePelFromPLID": "plID", "parsePelFromSRCID": "src"}


def cfg_attr(fm, cfg, name):
    o = fm.I.obj(cfg)
    return fm.norm(o.attrs.get(name))


def check_filelist(rep, prog, fm, cfg):
    """every mode gets its candidates from getFileList(path, extension filter, reverse) - analysed per call site"""
    rule = "C08.R1.same-candidates"
    gq = PT + "getFileList"
    ext_cfg = cfg_attr(fm, cfg, "extension")
    rev_cfg = cfg_attr(fm, cfg, "rev")
    ev = fm.events
    n = 0
    for fn, dest in MODES.items():
        q = PT + fn
        calls = [e for e in ev if e.kind == "call" and q in e.stack and e.data[0] == gq]
        if not rep.check(len(calls) >= 1, rule, "%s takes its candidate files from getFileList" % fn, q, fn,
                         "%s does not obtain its file list from getFileList: the modes no longer look at the same candidates" % fn):
            continue
        for c in calls:
            n += 1
            nxt = min([e.seq for e in ev if e.seq > c.seq and e.kind == "return" and gq in e.stack] or [len(ev)])
            body = [e for e in ev if c.seq < e.seq <= nxt]
            apps = [e for e in body if e.kind == "append" and gq in e.stack]
            sorts = [e for e in body if e.kind == "listmut" and gq in e.stack]
            walks = [L for L in fm.I.loops.values() if gq in L.stack and L.events[0] > c.seq and L.events[1] <= nxt + 1]
            ok = len(apps) == 1 and len(apps[0].loops) >= 1
            why = "appends=%d" % len(apps)
            if ok:
                A = apps[0]
                fname = fm.norm(A.data[1])
                Lf = A.loops[-1]
                okn = isinstance(fname, Op) and fname.op == "elem"
                base = getattr(Lf, "body_guard_full", set())
                gl = and_(*[c2 for c2 in conj(fm.norm(A.guard)) if c2 not in {fm.norm(b) for b in base}])
                splitext = Op("getitem", Op("call:os.path.splitext", fname), Const(1))
                want = not_(and_(pelx_truth(ext_cfg), compare("ne", ext_cfg, splitext)))
                e1, env = implies(gl, want)
                e2, env2 = implies(want, gl)
                ok = okn and e1 and e2
                why = "file appended under %r, expected: not (extension and extension != splitext(file)[1]) with extension = config.extension" % (gl,)
            rep.check(ok, rule, "%s: candidates = every top-level file passing the --extension filter" % fn, gq, "file_list.append(file)",
                      "in %s the candidate list is not 'all files whose extension equals config.extension (when given)': %s" % (fn, why))
            oks = len(sorts) == 1 and sorts[0].data[1] == "sort"
            if oks:
                kw = dict(sorts[0].data[3])
                rv = fm.norm(kw.get("reverse", Const(False)))
                if fn == "printPELCount":
                    oks = True      # order is irrelevant for a count
                else:
                    oks = rv == rev_cfg and "key" not in kw
                why2 = "reverse=%r" % (rv,)
            else:
                why2 = "sort calls=%s" % [s.data[1] for s in sorts]
            rep.check(oks, "C08.R3.order", "%s: file list sorted by name, reversed exactly when --reverse" % fn, gq, "file_list.sort(reverse=rev)",
                      "in %s the candidate list is not sorted ascending by file name / reversed iff --reverse (%s)" % (fn, why2))
            top = [L for L in walks if isinstance(fm.norm(L.iter), Op) and fm.norm(L.iter).op == "call:os.walk"]
            rep.check(all(any(b == TRUE for b in L.breaks) for L in top) and bool(top), rule, "%s: only the top level of the directory is listed" % fn,
                      gq, "break", "getFileList descends into subdirectories")
            # iteration of the result in order
            loops = [L for L in fm.I.loops.values() if q in L.stack and L.events[0] > nxt]
            it_ok = False
            for L in loops:
                it = L.iter
                if isinstance(it, Ref) and apps and it == apps[0].data[0]:
                    it_ok = True
                if isinstance(it, Op) and it.op == "enumerate" and apps and it.args[0] == apps[0].data[0]:
                    it_ok = True
            rep.check(it_ok, "C08.R3.order", "%s iterates the sorted list itself (no re-ordering, slicing or de-duplication)" % fn, q, fn,
                      "%s does not iterate the list returned by getFileList as is" % fn)
    rep.floor("getFileList call sites", n, 5)


def pelx_truth(t):
    return t


def check_pipelines(rep, prog, fm, cfg):
    """same selection pipeline PH -> UH -> considerPEL(uh, config) in count, list and all"""
    rule = "C08.R2.same-filter"
    # (a) the two decode functions
    for fn in ("parsePEL", "parsePELSummary"):
        I = Interpreter(prog, hooks={"opaque": {PT + "sectionFun", PT + "considerPEL", PT + "prettyPrint", PT + "buildOutput",
                                                PT + "generatePH", PT + "generateUH"}})
        st = pelx.new_stream(I)
        c = I.new("pel.peltool.config.Config")
        args = [st, c] + ([Const(False)] if fn == "parsePEL" else [])
        r = I.call(PT + fn, args)
        seq = [e for e in I.events if e.kind == "opaquecall" and e.data[0] in (PT + "generatePH", PT + "generateUH", PT + "considerPEL")]
        names = [e.data[0].split(".")[-1] for e in seq]
        ok = names == ["generatePH", "generateUH", "considerPEL"]
        if ok:
            ph, uh, cp = seq
            ph_ret = Op("getitem", Op("call:" + PT + "generatePH", *ph.data[1]), Const(0))
            okc = cp.data[1][1] == c and isinstance(cp.data[1][0], Op) and cp.data[1][0].op == "getitem" and cp.data[1][0].args[1] == Const(1)
            # section loop only on paths where all three succeeded
            sf = [e for e in I.events if e.kind == "opaquecall" and e.data[0] == PT + "sectionFun"]
            cpt = Op("call:" + PT + "considerPEL", *cp.data[1])
            oks = bool(sf) and all(implies(e.guard, cpt)[0] for e in sf)
            ok = okc and oks
        rep.check(ok, rule, "%s: PH, UH, considerPEL(uh, config) in order; sections decoded only for selected PELs" % fn, PT + fn, fn,
                  "%s does not run the selection pipeline generatePH -> generateUH -> considerPEL(user header, config) before "
                  "decoding: %s" % (fn, names))
    # (b) count mode inline pipeline and single increment
    q = PT + "printPELCount"
    seq = [e for e in fm.events if e.kind == "opaquecall" and q in e.stack and e.data[0] in (PT + "generatePH", PT + "generateUH", PT + "considerPEL")]
    names = [e.data[0].split(".")[-1] for e in seq]
    ok = names == ["generatePH", "generateUH", "considerPEL"]
    detail = str(names)
    if ok:
        cp = seq[2]
        L = cp.loops[-1] if cp.loops else None
        ok = L is not None and cp.data[1][1] == cfg
        cnt = [k for k in (L.carried if L else {}) if "." not in k]
        inc_ok = False
        for k in cnt:
            init, nxt, d, w = L.carried[k]
            nx = fm.norm(nxt)
            lv = [x for x in walk(nx) if isinstance(x, Sym) and x.kind == "loopvar" and x.name.endswith(":" + k)]
            if lv and init == Const(0) and isinstance(nx, Ite):
                a, b = (nx.a, nx.b) if nx.b == lv[0] else (nx.b, nx.a)
                cond = nx.c if nx.b == lv[0] else not_(nx.c)
                if a == pelx.add(lv[0], Const(1)) and b == lv[0]:
                    ph_ok = Op("getitem", Op("call:" + PT + "generatePH", *[fm.norm(x) for x in seq[0].data[1]]), Const(0))
                    uh_ok = Op("getitem", Op("call:" + PT + "generateUH", *[fm.norm(x) for x in seq[1].data[1]]), Const(0))
                    cp_ok = Op("call:" + PT + "considerPEL", *[fm.norm(x) for x in cp.data[1]])
                    want = and_(ph_ok, uh_ok, cp_ok)
                    core = and_(*[c2 for c2 in conj(cond) if not (isinstance(c2, Op) and c2.op == "not" and isinstance(c2.args[0], Sym))])
                    e1 = implies(cond, want)[0]
                    e2 = implies(and_(want, *[c2 for c2 in conj(cond) if c2 not in conj(core)]), cond)[0]
                    inc_ok = e1 and e2
                    detail = "count increments under %r" % (cond,)
        ok = ok and inc_ok
    rep.check(ok, rule, "count mode: +1 exactly when PH ok, UH ok and considerPEL(uh, config)", q, "count += 1",
              "the count is not incremented exactly once per file that passes PH, UH and considerPEL with the same config (%s)" % detail)
    # (c) list/all use the same Config object and contribute at most one entry per file
    for fn, dec in (("extractAllPELsData", "parsePEL"), ("listOption", "parsePELSummary"), ("parsePelFromPLID", "parsePELSummary"),
                    ("parsePelFromSRCID", "parsePELSummary")):
        ds = [e for e in fm.events if e.kind == "opaquecall" and e.data[0] == PT + dec and
              (PT + fn in e.stack or (fn == "listOption" and e.func == PT + "extractAndSummarizePEL" and
                                     any(L.func == PT + "listOption" for L in e.loops)))]
        ok = bool(ds) and all(d.data[1][1] == cfg for d in ds)
        rep.check(ok, rule, "%s decodes with the Config built from the options" % fn, PT + fn, dec, "%s does not filter with the options' Config" % fn)
    # list: one store per file keyed by its entry id, guarded only by 'decoded & selected'
    q = PT + "listOption"
    st = [e for e in fm.events if e.kind == "dict_store" and q in e.stack]
    ok = len(st) == 1 and st[0].loops
    if ok:
        key = fm.norm(st[0].data[1])
        L = st[0].loops[-1]
        base = {fm.norm(b) for b in getattr(L, "body_guard_full", set())}
        extra = [c for c in conj(fm.norm(st[0].guard)) if c not in base]
        ok = len(extra) == 1 and any(isinstance(x, Op) and x.op.startswith("call:" + PT + "extractAndSummarizePEL") or
                                     isinstance(x, Op) and x.op == "getitem" for x in walk(extra[0]))
    rep.check(ok, rule, "list mode: one entry per selected file, stored under its entry id", q, "final_summary[eid] = summary",
              "list mode does not add exactly one entry per decoded+selected file")
    # all: the document print guard
    q = PT + "extractAllPELsData"
    docs = [e for e in fm.events if is_stdout_print(e) and q in e.stack and e.loops and e.data[0] and
            any(isinstance(x, Op) and x.op == "call:" + PT + "parsePEL" for x in walk(e.data[0][0]))]
    rep.check(len(docs) == 1, rule, "all mode: one document print per selected file", q, "print(json_string, end='')",
              "all mode prints %d documents per file" % len(docs))


def check_summary(rep, prog):
    """each list field must be the very value the full decode displays (term equality after inlining the header decoders)"""
    rule = "C08.R4.summary-fields"
    I = Interpreter(prog, hooks={"opaque": {PT + "sectionFun", PT + "considerPEL"}})
    st = pelx.new_stream(I)
    cfg = I.new("pel.peltool.config.Config")
    I.call(PT + "parsePELSummary", [st, cfg])
    sts = {}
    for e in I.events:
        if e.kind == "dict_store" and e.func == PT + "parsePELSummary" and is_const(e.data[1], str):
            sts.setdefault(e.data[1].v, []).append(e)
    # the document the full decode would show for the two headers (same interpretation: generatePH/UH inlined)
    docs = {}
    for e in I.events:
        if e.kind == "dict_store" and e.func in (PT + "generatePH", PT + "generateUH") and is_const(e.data[1], str):
            ents, _ = pelx.final_entries(I, e.data[2])
            docs[e.data[1].v] = {k: v[-1][1] for k, v in ents.items() if k is not None}
    if "Private Header" not in docs or "User Header" not in docs:
        raise AnalysisError("header decoders do not store 'Private Header' / 'User Header' documents")
    want = {"PLID": ("Private Header", "Platform Log Id"), "CreatorID": ("Private Header", "Creator Subsystem"),
            "Subsystem": ("User Header", "Subsystem"), "Sev": ("User Header", "Event Severity"),
            "CompID": ("Private Header", "Created by"), "Commit Time": ("Private Header", "Committed at")}
    from ..interp import _strip_undef
    for k, (sec, key) in want.items():
        es = sts.get(k, [])
        full = docs[sec].get(key)
        got = _strip_undef(I.simp(es[0].data[2])) if es else None
        ok = len(es) == 1 and full is not None and (got == full or _strip_undef(got) == _strip_undef(full) or same_under(I, es[0], got, full))
        rep.check(ok, rule, "summary %s equals '%s' of the %s in the full decode" % (k, key, sec), "parsePELSummary",
                  "summary[%r] = ..." % k, "list entry field %s differs from the full decode's %s / %s: summary has %r, full decode shows %r" % (
                      k, sec, key, got, full))
    # eid returned = the Entry Id
    rep.count("summary fields compared", len(want))


def same_under(I, ev, got, full):
    """equal when the guard of the store decides the remaining ite conditions"""
    g = conj(ev.guard)

    def red(t):
        n = 0
        while isinstance(t, Ite) and n < 20:
            if implies(ev.guard, t.c)[0]:
                t = t.a
            elif implies(ev.guard, not_(t.c))[0]:
                t = t.b
            else:
                break
            n += 1
        return t
    def deep(t, depth=0):
        t = red(t)
        if isinstance(t, Op) and depth < 6:
            from ..terms import rebuild
            args = tuple(deep(a, depth + 1) for a in t.args)
            if args != t.args:
                return rebuild(t.op, args)
        return t
    return deep(got) == deep(full)


def check_json_order(rep, prog):
    rule = "C08.R3.order"
    from .. import effects
    import ast
    n = 0
    for cs in effects.call_sites(prog):
        if cs.name == "json.dumps" and cs.module.name == "pel.peltool.peltool":
            n += 1
            bad = [k for k in cs.node.keywords if k.arg == "sort_keys" and not (isinstance(k.value, ast.Constant) and k.value.value is False)]
            rep.check(not bad, rule, "json.dumps at line %d keeps insertion order (no sort_keys)" % cs.node.lineno, cs.qual, cs.node,
                      "sort_keys re-orders the listing: entries are no longer in file-name order", node=cs.node, file=cs.module.rel)
    rep.floor("json.dumps sites in peltool", n, 4)


def run(rep, prog, thorough):
    rep.explanation = (
        "Sibling cross-check of the three pipelines on the interpreted main(): each mode's candidate list comes from "
        "getFileList with the same extension filter (path condition of the append compared with the spec condition over "
        "config.extension), sorted with reverse = config.rev and iterated as is; count/list/all run PH -> UH -> "
        "considerPEL(uh, same Config) and contribute at most one count/entry/document per file under exactly that condition; "
        "summary fields are read from the same decoded values; no sort_keys.")
    fm = FullMain(prog)
    cfgs = [e.data[1] for e in fm.events if e.kind == "new" and e.data[0] == "pel.peltool.config.Config" and e.func == PT + "main"]
    if not cfgs:
        raise AnalysisError("main() does not build a Config")
    cfg = cfgs[0]
    check_filelist(rep, prog, fm, cfg)
    check_pipelines(rep, prog, fm, cfg)
    check_summary(rep, prog)
    check_json_order(rep, prog)
    from .c09 import check_all_separator
    check_all_separator(rep, fm, "C08.R2.same-filter")
