"""C14 - ILOG decoding reports every entry with the first matching table message."""
import re as _re

from ..core import AnalysisError
from ..interp import Interpreter, Instance
from ..terms import (Const, Sym, Op, Ite, Ref, Ext, TRUE, FALSE, NONE, Undef, walk, and_, or_, not_, is_const, is_int, subst, compare,
                     evaluate, CannotEval, add, sub, mul, binop)
from .. import pelx
from ..pelx import implies, env_str, unsat, DATA, IntF, F, list_items, equivalent, hex_render, flat_parts

IL = "io_drawer.ilog."


def spec_timestamp(t):
    if t < 0 or t >= 0xFFFF:
        return "--------"
    hh = t // 3600
    mm = (t % 3600) // 60
    ss = t % 60
    return "%2d:%02d:%02d" % (hh, mm, ss)


def check_timestamp(rep, prog, thorough):
    I = Interpreter(prog)
    t = Sym("t", "int")
    r = I.call("io_drawer.utils.format_timestamp", [t])
    vals = range(0, 0x10001) if thorough else list(range(0, 4000)) + list(range(0, 0x10001, 37)) + [3599, 3600, 7199, 35999, 36000, 65534, 65535, 65536]
    bad = None
    n = 0
    for v in vals:
        n += 1
        try:
            got = evaluate(r, {t: v})
        except CannotEval as e:
            raise AnalysisError("format_timestamp summary not evaluable: %s" % e)
        if got != spec_timestamp(v):
            bad = "timestamp %d (0x%04X) is rendered %r, expected %r" % (v, v, got, spec_timestamp(v))
            break
    rep.count("timestamp values evaluated", n)
    rep.check(bad is None, "C14.R4.timestamp", "format_timestamp = H:MM:SS (width 2), dashes for >= 0xFFFF, on %d values" % n,
              "io_drawer.utils.format_timestamp", "return f'{hh:2d}:{mm:02d}:{ss:02d}'", bad)
    return r


def check_entries(rep, prog, ts_term):
    rule = "C14.R1.entry-layout"
    I = Interpreter(prog, hooks={"opaque": {IL + "PTETable.get_entry", IL + "PTETableEntry.get_message"}})
    hdr = Sym("header_file")
    r = I.call(IL + "parse_ilog_data", [DATA, hdr])
    where = "parse_ilog_data"
    items = list_items(I, r)
    if items is None:
        raise AnalysisError("parse_ilog_data does not return a list")
    # what is shown for which bytes: the summary is run on sample ILOG buffers (complete / partial last entry, all-zero and
    # partly-zero entries, undefined PTEs, special timestamps) with echoing table stubs and compared with the documented lines
    import struct

    def get_entry(*a):
        pte = a[-1]
        return None if pte % 3 == 0 else ("ENT", pte)

    def get_message(*a):
        entry, pte = a[-2] if len(a) > 1 else None, a[-1]
        # (messages with leading / trailing white space: the line shows the message as the table gives it)
        if entry == ("ENT", pte) and pte % 16 == 7:
            return ""                       # (a table entry whose message is the empty string is shown as such)
        return ("MSG<%08X>" % pte) + (" \t" if pte % 2 else "") + ("" if pte % 4 else " ") if entry == ("ENT", pte) else "<message of another entry: %r>" % (entry,)
    stubs = {"call:" + IL + "PTETable.get_entry": get_entry, "call:" + IL + "PTETableEntry.get_message": get_message, "m:get_message": get_message}
    E = lambda t, q, p: struct.pack(">HHI", t, q, p)
    samples = [E(5, 1, 0x17) + E(6, 2, 0x27), b"", b"\x00" * 7, E(1, 2, 4), E(1, 2, 4) + b"\x01", E(0, 0, 0), E(0, 0, 5), E(0, 7, 0), E(9, 0, 0), E(0xFFFF, 0xABCD, 0xDEADBEEF),
               E(3661, 1, 0x01040007) + E(0, 0, 0) + E(35999, 0xFFFF, 0x0000FFFF) + b"\x00\x01\x02",
               E(0, 0, 0) * 2 + E(5, 6, 6) + E(0xFFFE, 1, 1), E(65535, 0, 3) + E(1, 1, 1) * 3 + b"\xff" * 7]
    bad = None
    for data in samples:
        env = pelx.with_heap(I, {DATA: data, Op("len", DATA): len(data), Op("truthy", DATA): bool(data)})
        env["__ops__"] = stubs
        try:
            got = evaluate(r, env)
        except CannotEval as e:
            raise AnalysisError("parse_ilog_data summary not evaluable: %s" % e)
        except Exception as e:
            got = "<raises %s: %s>" % (type(e).__name__, e)
        want = ['hh:mm:ss seq  pppppppp description', '-------- ---- -------- ------------------------------------']
        for k in range(len(data) // 8):
            t, q, p = struct.unpack(">HHI", data[8 * k:8 * k + 8])
            if (t, q, p) == (0, 0, 0):
                continue
            ent = get_entry(p)
            want.append("%s %04X %08X %s" % (spec_timestamp(t), q, p, get_message(ent, p) if ent is not None else "Undefined"))
        if got != want and bad is None:
            k = next((i for i in range(max(len(got), len(want))) if i >= len(got) or i >= len(want) or got[i] != want[i]), 0) \
                if isinstance(got, list) else 0
            bad = "ILOG bytes %s: line %d is %r, documented %r" % (data.hex(), k, got[k] if isinstance(got, list) and k < len(got) else got,
                                                                  want[k] if k < len(want) else None)
    rep.count("ILOG sample buffers evaluated", len(samples))
    rep.check(bad is None, rule, "two heading lines, then per complete 8-byte entry (timestamp/2, sequence/2, PTE/4; a trailing partial entry is "
              "ignored; all-zero entries skipped): '<H:MM:SS> <seq %04X> <pte %08X> <message of the entry matching this PTE | Undefined>'", where,
              "lines.append(f'...')", "the ILOG listing does not show every entry's own fields and table message: %s" % bad)
    news = [e for e in I.events if e.kind == "new" and e.data[0] == IL + "PTETable"]
    rep.check(len(news) == 1 and news[0].data[2] == (hdr,) and not news[0].loops, rule, "one PTE table is built from the given header file", where,
              "PTETable(header_file_path)", "PTE table is not built once from the given header file")


def check_table(rep, prog):
    rule = "C14.R2.first-match"
    I = Interpreter(prog, hooks={"opaque": {IL + "PTETableEntry.matches"}})
    tab = I.new(IL + "PTETable", [Sym("hdr")])
    pte = Sym("pte", "int")
    ents = I.obj(tab).attrs.get("entries")
    seq0 = len(I.events)
    nl0 = set(I.loops)
    r = I.method(tab, "get_entry", [pte])
    loops = [L for lid, L in I.loops.items() if lid not in nl0]
    # which entry a PTE gets: the summary of the search is run on sample tables (overlapping literal / wild-card patterns,
    # reported-error variants) - whether matches() is called per entry or its test is inlined into the scan
    ok = None
    bad_s = None
    try:
        import collections
        import re as _re
        Ent = collections.namedtuple("Ent", ["pte_pattern", "pte_re", "tag"])
        mk = lambda pats: [Ent(p_, _re.compile(p_.replace("*", "."), _re.IGNORECASE), i_) for i_, p_ in enumerate(pats)]

        def ref_m(pattern, v):
            rx = _re.compile(pattern.replace("*", "."), _re.IGNORECASE)
            rp = (v & 0xF0000000) == 0xE0000000 and (v & 0x40000) == 0x40000
            return bool(rx.fullmatch("%08X" % v)) or (rp and bool(rx.fullmatch("%08X" % (v & ~0x40000))))
        I3 = Interpreter(prog, hooks={"opaque": {IL + "PTETableEntry.matches"}})
        t3 = Instance(prog.cls(IL + "PTETable"), ())
        ENT = Sym("ENTRIES")
        t3.attrs["entries"] = ENT
        t3r = I3.alloc(t3)
        r3 = I3.method(t3r, "get_entry", [pte])
        tables = [[], ["01040000"], ["E*082690", "E0082690", "********"], ["EA0C0403", "EA08****", "EA08840*", "ea088403"],
                  ["**FF00**", "00FF0001", "E00C0000"], ["0104000*", "01040000", "0104****", "E0040000", "E0000000"]]
        ptes = [0x01040000, 0xE0082690, 0xE00C2690, 0xEA088403, 0xEA0C8403, 0xEA0C0403, 0x00FF0001, 0x12FF0034, 0xE0040000, 0xE0000000, 0xFFFFFFFF, 0]
        nsm = 0
        for pats in tables:
            for v in ptes:
                env = pelx.with_heap(I3, {ENT: mk(pats), pte: v, Op("len", ENT): len(pats), Op("truthy", ENT): bool(pats)})
                env["__ops__"] = {"m:matches": lambda e_, v_: ref_m(e_.pte_pattern, v_),
                                  "call:" + IL + "PTETableEntry.matches": lambda e_, v_: ref_m(e_.pte_pattern, v_)}
                got = evaluate(r3, env)
                hits = [e_ for e_ in mk(pats) if ref_m(e_.pte_pattern, v)]
                want = hits[0].tag if hits else None
                got_tag = got.tag if hasattr(got, "tag") else got
                nsm += 1
                if got_tag != want and bad_s is None:
                    bad_s = "PTE %08X in the table %s finds entry %r, documented: %r (the first matching entry in table order)" % (v, pats, got_tag, want)
        rep.count("table look-up samples evaluated", nsm)
        ok = bad_s is None
    except CannotEval:
        ok = None
    if ok is None:
        ok = len(loops) == 1 and loops[0].iter == ents and isinstance(r, Ite) and isinstance(r.c, Op) and r.c.op == "exists" \
            and isinstance(r.a, Op) and r.a.op == "loopret" and r.b == NONE
        if ok:
            L = loops[0]
            m = [x for x in walk(r.c) if isinstance(x, Op) and (x.op.startswith("call:" + IL + "PTETableEntry.matches") or x.op == "m:matches")]
            ok = len(m) == 1 and m[0].args[-1] == pte and r.a.args[1] == m[0].args[0] and not L.breaks
    rep.check(ok, rule, "get_entry returns the first entry, in list order, whose matches(pte) is true, else None", "PTETable.get_entry",
              "for entry in self.entries: if entry.matches(pte): return entry", "table search is not a first-match scan over the entries in order: %s" % (
                  bad_s or repr(r)[:200],))
    def pre_existing(e):
        tgt = e.data[0]
        o = I.heap.get(tgt.oid) if isinstance(tgt, Ref) else None
        return o is None or getattr(o, "born_seq", 0) < seq0
    writes = [e for e in I.events[seq0:] if e.kind in ("dict_store", "attr_store", "append", "extend", "dictmut", "listmut", "global_store", "class_store")
              and pre_existing(e)]
    rep.check(not writes, rule, "the table search keeps no state between look-ups", "PTETable.get_entry", writes[0].node if writes else "get_entry",
              "the table search stores results between look-ups (%s): two PTEs that share a cache key get each other's entry" % (
                  writes[0].kind if writes else ""), node=writes[0].node if writes else None)
    # entries are appended in file order and never re-ordered
    I2 = Interpreter(prog)
    tab2 = I2.new(IL + "PTETable", [Sym("hdr")])
    e2 = I2.obj(tab2).attrs.get("entries")
    items = list_items(I2, e2) or []
    apps = [e for e in I2.events if e.kind == "append" and e.data[0] == e2]
    muts = [e for e in I2.events if e.kind in ("listmut", "list_setitem") and e.data[0] == e2]
    okf = len(apps) == 1 and not muts and len(items) == 1 and items[0][0] == "rep"
    if okf:
        Lf = [l for l in apps[0].loops if isinstance(l.iter, Op) and l.iter.op == "file"]
        okf = len(Lf) == 1 and items[0][1] is Lf[0] and not any(l.breaks for l in apps[0].loops)
    rep.check(okf, rule, "table entries are appended once per matching header-file line, in file order, never sorted", "PTETable._parse_header_file",
              "self.entries.append(entry)", "entries are not kept in header-file order")
    # the table = exactly the entry rows between the start line and the "The End" row: the loader's summary is run on a
    # sample header (rows before the table, after its end, and in a later array must not become entries)
    if okf:
        Lf0 = Lf[0]
        sample = ['// header\n',
                  '  { "01040000", "before the table", {}, "a.cpp", 1 },\n',
                  'static struct pte_entry_struct static_pte_entry_table[PTE_TABLE_SIZE] = \n',
                  '{\n',
                  '  { "01040000", "Power on complete", {}, "states.cpp", 601 },\n',
                  '  // { "01050000", "commented out", {}, "states.cpp", 602 },\n',
                  '  { "100100**", "PS%d - Faults Cleared", {4}, "mps.cpp", 759 },\n',
                  '  { ""        , "The End" }\n',
                  '};\n',
                  '  { "02050000", "after the table", {}, "b.cpp", 2 },\n',
                  'static struct pte_entry_struct other_table[] = \n',
                  '  { "03050000", "row of a later array", {}, "c.cpp", 3 },\n',
                  '};\n']
        env = pelx.with_heap(I2, {Lf0.iter: sample, Op("len", Lf0.iter): len(sample)})
        try:
            got, _ = pelx.run_loop(Lf0, env, [("rep", Lf0, Lf0.idx, items[0][3])])
        except CannotEval as e:
            raise AnalysisError("PTE table loader summary not evaluable: %s" % e)
        rep.check(got == [4, 6], rule, "table rows are exactly the entry rows between the table's start line and its 'The End' row", "PTETable._parse_header_file",
                  "elif TBL_END_RE.fullmatch(line): in_table = False", "on a sample header the rows taken as PTE table entries are lines %s, "
                  "expected lines [4, 6] (rows before the table / after 'The End' / of a later array must be ignored)" % (got,))
    # field mapping of an entry line: (pattern, message, params, file, line)
    news = [e for e in I2.events if e.kind == "new" and e.data[0] == IL + "PTETableEntry"]
    okn = len(news) == 1
    if okf and okn and len(news[0].data[2]) == 5:
        # ... and what each row yields: the summary of the row parser is run on sample rows (escaped quotes and other
        # backslash escapes in the message, parameter lists in the spellings a C initialiser allows)
        rows = [('  { "01040000", "Power on complete", {}, "states.cpp", 601 },\n', ("01040000", "Power on complete", ())),
                ('  { "100100**", "PS%d - Faults Cleared", {4}, "mps.cpp", 759 },\n', ("100100**", "PS%d - Faults Cleared", (4,))),
                ('  { "0200****", "This PEROM level = %c%c", {3, 4}, "states.cpp", 254 },\n', ("0200****", "This PEROM level = %c%c", (3, 4))),
                ('  { "E2082690", "P1 IO Bay VRM in \\"N-Mode\\"", {}, "vrm_monitor.cpp", 145 },\n', ("E2082690", 'P1 IO Bay VRM in "N-Mode"', ())),
                ('  { "0300****", "IO Bay %d status = %d\\n", {4,3}, "bay.cpp", 12 },\n', ("0300****", "IO Bay %d status = %d\\n", (4, 3))),
                ('  { "0400****", "path C:\\\\tmp %d", { 3 , 4 }, "p.cpp", 13 },\n', ("0400****", "path C:\\\\tmp %d", (3, 4))),
                ('  { "0500****", "fan %d of %d", {3u, 4U}, "fan.cpp", 14 },\n', ("0500****", "fan %d of %d", (3, 4))),
                ('  { "0600****", "bay %d type %d", { 3 /* bay */, 4 /* type */ }, "bay.cpp", 15 },\n', ("0600****", "bay %d type %d", (3, 4))),
                ('  { "0700****", "slot %d", {0x03}, "slot.cpp", 16 },\n', ("0700****", "slot %d", (3,)))]
        head = ['static struct pte_entry_struct static_pte_entry_table[PTE_TABLE_SIZE] = \n', '{\n']
        sample2 = head + [r_[0] for r_ in rows] + ['  { ""        , "The End" }\n', '};\n']
        a5 = news[0].data[2]
        env = pelx.with_heap(I2, {Lf0.iter: sample2, Op("len", Lf0.iter): len(sample2)})
        try:
            got_rows = []
            cols = []
            for t_ in a5[:3]:
                col, _ = pelx.run_loop(Lf0, env, [("rep", Lf0, t_, items[0][3])])
                cols.append(col)
            got_rows = [(p_, m_, tuple(x_ for x_ in (q_ if isinstance(q_, (list, tuple)) else ()) if isinstance(x_, int) and 1 <= x_ <= 4))
                        for p_, m_, q_ in zip(*cols)]
        except CannotEval as e:
            raise AnalysisError("PTE table row parser summary not evaluable: %s" % e)
        want_rows = [r_[1] for r_ in rows]
        badr = None
        if len(got_rows) != len(want_rows):
            badr = "%d of the %d sample rows become table entries (kept: %s)" % (len(got_rows), len(want_rows), [g_[0] for g_ in got_rows])
        else:
            for g_, w_, r_ in zip(got_rows, want_rows, rows):
                if g_ != w_ and badr is None:
                    badr = "the row %s is read as %r, documented %r" % (r_[0].strip(), g_, w_)
        rep.check(badr is None, rule, "every table row yields (pattern, message with \\\" unescaped, parameter numbers) - %d sample rows" % len(rows),
                  "PTETable._add_entry", "PTETableEntry(pte_pattern, message_format, params, file, line)",
                  "the table loader does not read every row as written: %s" % badr)
    if okn:
        a = news[0].data[2]
        grp = [x for x in walk(a[0]) if isinstance(x, Op) and x.op == "m:groups"]
        okn = len(a) == 5 and bool(grp)
        if okn:
            g = grp[0]
            okn = a[0] == Op("getitem", g, Const(0)) and any(x == Op("getitem", g, Const(1)) for x in walk(a[1]))
    rep.check(okn, rule, "entry = (pattern field 1, message field 2, params field 3, ...) of the matched line", "PTETable._add_entry",
              "PTETableEntry(pte_pattern, message_format, params, file, line)", "table entry fields are taken from the wrong columns of the header line")


def check_matches(rep, prog):
    rule = "C14.R3.match-semantics"
    I = Interpreter(prog)
    pat, fmtm = Sym("pat"), Sym("fmt")
    params = I.mk_list([Const(1), Const(4), Const(2), Const(3)], "tuple")
    ent = I.new(IL + "PTETableEntry", [pat, fmtm, params, Sym("file"), Sym("line")])
    pte = Sym("pte", "int")
    m = I.truth(I.method(ent, "matches", [pte]))
    rp = I.truth(I.method(ent, "_is_reported_error_pte", [pte]))
    # reported predicate
    want = and_(compare("eq", binop("bitand", pte, Const(0xF0000000)), Const(0xE0000000)),
                compare("eq", binop("bitand", pte, Const(0x00040000)), Const(0x00040000)))
    dom = {pte: sample_ptes()}
    e, env, n = equivalent(pelx.ite(rp, Const(1), Const(0)), pelx.ite(want, Const(1), Const(0)), domain=dom)
    rep.check(e, rule, "reported error <=> top nibble 0xE and bit 0x00040000 set (on %d PTE values)" % n, "PTETableEntry._is_reported_error_pte",
              "return ...", "reported-error test differs from (pte & 0xF0000000) == 0xE0000000 and (pte & 0x00040000) != 0 for %s" % env_str(env))
    # matches: exact or (reported and exact with flag cleared); the regex is modelled as 'equals one target string'
    rex = I.obj(ent).attrs.get("pte_re")
    okre = isinstance(rex, Op) and rex.op == "re.compile" and rex.args[0] == Op("m:replace", pat, Const("*"), Const(".")) and \
        len(rex.args) == 2 and repr(rex.args[1]) == "<re.IGNORECASE>"
    rep.check(okre, rule, "pattern compiled as regex with '*' -> '.', case-insensitive", "PTETableEntry.__init__", "re.compile(re_pattern, re.IGNORECASE)",
              "wildcard pattern is not compiled as 'any one character per *' case-insensitively: %r" % (rex,))
    bad = None
    n = 0
    import re as _re

    def ref_match(pattern, v):
        rx = _re.compile(pattern.replace("*", "."), _re.IGNORECASE)
        rep_p = (v & 0xF0000000) == 0xE0000000 and (v & 0x40000) == 0x40000
        return bool(rx.fullmatch("%08X" % v)) or (rep_p and bool(rx.fullmatch("%08X" % (v & ~0x40000))))
    for p in sample_ptes():
        pats = {"%08X" % x for x in (p, p & ~0x00040000 & 0xFFFFFFFF, p | 0x00040000, p ^ 1)}
        h = "%08X" % p
        # wild cards, lower case, keys shorter / longer than a PTE, a key that is only a prefix
        pats |= {h[:4] + "****", "**" + h[2:], h.lower(), h[:4], h[:7], h + "0", "*" * 8, h[:2] + "*" * 5}
        # the same spellings of the key a reported error is found under (its value without the reported flag)
        hc = "%08X" % (p & ~0x00040000 & 0xFFFFFFFF)
        pats |= {hc.lower(), "*" + hc[1:], "**" + hc[2:], hc[:4] + "****", hc[0].lower() + hc[1:], hc[:7] + "*"}
        # a wild card stands for ONE hex digit: single-digit wild cards, and keys that differ from the PTE in the digit next
        # to the wild card
        for pos in range(8):
            pats.add(h[:pos] + "*" + h[pos + 1:])
            adj = pos ^ 1
            hq = "%08X" % (p ^ (1 << (4 * (7 - adj))))
            pats.add(hq[:pos] + "*" + hq[pos + 1:])
        for pattern in sorted(pats):
            try:
                got = bool(evaluate(m, pelx.with_heap(I, {pte: p, pat: pattern, Op("len", pat): len(pattern)})))
            except CannotEval as e:
                raise AnalysisError("matches() summary not evaluable: %s" % e)
            want_m = ref_match(pattern, p)
            n += 1
            if got != want_m and bad is None:
                bad = "PTE %08X against the table pattern %r: matches()=%s, documented=%s" % (p, pattern, got, want_m)
    rep.count("match valuations", n)
    rep.check(bad is None, rule, "matches = pattern matches %08X of the PTE, or (reported error and pattern matches it with the reported flag cleared)",
              "PTETableEntry.matches", "matches", bad)
    # message
    seq_m = len(I.events)
    msg = I.method(ent, "get_message", [pte])
    sfx = Const(" - PEL entry created")
    okm = isinstance(msg, Ite)
    detail = ""
    if okm:
        with_s, without = (msg.a, msg.b)
        cond = msg.c
        if not (isinstance(with_s, Op) and with_s.op == "concat"):
            with_s, without, cond = without, with_s, not_(cond)
        e2, env, _ = equivalent(pelx.ite(cond, Const(1), Const(0)), pelx.ite(want, Const(1), Const(0)), domain=dom)
        okm = e2 and isinstance(with_s, Op) and with_s.op == "concat" and with_s.args[-1] == sfx and with_s.args[0] == without
        detail = "suffix condition ok=%s" % e2
        base = without
        # base = fmt % params with fallback to fmt on any exception
        okb = isinstance(base, Ite) and isinstance(base.c, Sym) and base.c.kind == "exc" and base.a == fmtm and isinstance(base.b, Op) \
            and base.b.op in ("mod", "pct") and base.b.args[0] == fmtm
        hs = [e for e in I.events[seq_m:] if e.kind == "handler"]
        okb = okb and any(h.data[1] in ("Exception", "BaseException", None) for h in hs)
        rep.check(okb, rule, "message = format % parameters, falling back to the raw format on any formatting error", "PTETableEntry.get_message",
                  "except Exception: message = self.message_format", "formatting errors of a table message are not contained by a broad handler "
                  "(handlers: %s): one odd table entry loses the whole ILOG" % [h.data[1] for h in hs])
        if okb:
            pv = base.b.args[1]
            vals = list_items(I, pv) if isinstance(pv, Ref) else None
            okp = vals is not None and len(vals) == 4
            if okp:
                for (p_no, it) in zip((1, 4, 2, 3), vals):
                    wantb = binop("bitand", binop("rshift", pte, Const(8 * (4 - p_no))), Const(0xFF))
                    ee, env2, _ = equivalent(it[1], wantb, domain=dom)
                    okp = okp and ee
            rep.check(okp, rule, "parameter p is byte p (1-based, big-endian) of the 32-bit PTE", "PTETableEntry.get_message", "pte_bytes[p - 1]",
                      "message parameters are not the designated PTE bytes")
    rep.check(okm, rule, "suffix ' - PEL entry created' exactly for reported-error PTEs", "PTETableEntry.get_message", "message += ' - PEL entry created'",
              "the reported suffix is not appended exactly for reported errors (%s): %r" % (detail, msg))
    # an entry without parameters is formatted all the same ('%%' in its text is an escaped percent sign)
    I4 = Interpreter(prog)
    ent4 = I4.new(IL + "PTETableEntry", [pat, fmtm, Const(()), Sym("f"), Sym("l")])
    msg4 = I4.method(ent4, "get_message", [pte])
    raw_paths = []

    def lv4(t, cs):
        if isinstance(t, Ite):
            lv4(t.a, cs + [t.c]), lv4(t.b, cs + [not_(t.c)])
        elif isinstance(t, Op) and t.op == "concat" and t.args and t.args[-1] == Const(" - PEL entry created"):
            lv4(t.args[0] if len(t.args) == 2 else Op("concat", *t.args[:-1]), cs)
        elif t == fmtm and not any(isinstance(x, Sym) and x.kind == "exc" for c in cs for x in walk(c)):
            raw_paths.append(cs)
    lv4(msg4, [])
    rep.check(not raw_paths, rule, "a message without parameters still goes through the %-format (escapes are resolved)",
              "PTETableEntry.get_message", "message = self.message_format % param_values",
              "for a table entry without (valid) parameters the raw format text is returned without %-formatting: '%%' is shown "
              "as two characters")
    # params filter 1..4
    I3 = Interpreter(prog)
    ent3 = I3.new(IL + "PTETableEntry", [pat, fmtm, I3.mk_list([Const(0), Const(1), Const(4), Const(5), Const(3)], "tuple"), Sym("f"), Sym("l")])
    ps = I3.obj(ent3).attrs.get("params")
    vals = list_items(I3, ps)
    kept = None
    if vals is not None:
        kept = [it[1].v for it in vals if it[2] == TRUE and is_const(it[1])]
    elif is_const(ps, tuple):
        kept = list(ps.v)
    rep.check(kept == [1, 4, 3], rule, "only parameter numbers 1..4 are used", "PTETableEntry.__init__", "tuple(p for p in self.params if ...)",
              "parameter numbers outside 1..4 are not discarded: kept %r of (0,1,4,5,3)" % (kept,))


def resolve_byte(I, t):
    """getitem(list(m:to_bytes(x & 0xFFFFFFFF, 4, 'big')), k) -> byte k of x"""
    if isinstance(t, Op) and t.op == "getitem" and is_int(t.args[1]):
        k = t.args[1].v
        src = t.args[0]
        if isinstance(src, Op) and src.op == "list":
            src = src.args[0]
        if isinstance(src, Op) and src.op == "m:to_bytes" and src.args[1] == Const(4) and src.args[2] == Const("big") and 0 <= k < 4:
            return binop("bitand", binop("rshift", src.args[0], Const(8 * (3 - k))), Const(0xFF))
    return None


def sample_ptes():
    base = [0x00000000, 0x01040000, 0x01000000, 0xE0000000, 0xE0040000, 0xE2082690, 0xE20C2690, 0xF2040000, 0xF0040000, 0xD0040000,
            0xE0000001, 0xEFFFFFFF, 0xEFFBFFFF, 0xFFFFFFFF, 0x12345678, 0x80040000, 0x60040000, 0xE0080000, 0x00040000, 0xA5A5A5A5]
    import random
    r = random.Random(14)
    return sorted(set(base + [r.getrandbits(32) for _ in range(40)] + [0xE0000000 | r.getrandbits(28) for _ in range(20)]))


def check_regexes(rep, prog):
    """the header-file grammar accepts the documented line shapes (sanity of the three regexes via re._parser)"""
    rule = "C14.R5.table-grammar"
    I = Interpreter(prog)
    for name, samples, nonsamples in (
            ("TBL_ENTRY_RE", ['  { "01040000", "Power on complete", {}, "states.cpp", 601 },\n', '{ "100100**", "PS%d - Faults Cleared", {4}, "mps.cpp", 759 },\n',
                              '  { "E2082690", "P1 IO Bay VRM in \\"N-Mode\\"", {}, "vrm_monitor.cpp", 145 },\n'], ['  { ""        , "The End" }\n']),
            ("TBL_START_RE", ["static struct pte_entry_struct static_pte_entry_table[PTE_TABLE_SIZE] = \n"], ["};\n"]),
            ("TBL_END_RE", ['  { ""        , "The End" }\n'], ['  { "01040000", "x", {}, "a", 1 },\n'])):
        v = I.global_value("io_drawer.ilog", name)
        pat = v.args[0].v if isinstance(v, Op) and v.op == "re.compile" and is_const(v.args[0], str) else None
        ok = pat is not None
        if ok:
            try:
                import re._parser as rp
                rp.parse(pat)
            except Exception:
                ok = False
        rep.check(ok, rule, "%s is a constant, well-formed regular expression" % name, "io_drawer.ilog", name, "%s is not a constant regex" % name)
    rep.note("grammar regexes are checked for well-formedness only; their match sets over arbitrary header files are value-level")


def run(rep, prog, thorough):
    rep.explanation = (
        "Structural necessary conditions decided for all inputs: the entry loop's guard/stride/field offsets and the skip "
        "condition as terms; the output line composition; first-match scan shape and statelessness of the table search; the "
        "reported-error predicate and matches() evaluated against the documented rule on PTE samples with the regex modelled "
        "as equality with a target string; suffix/parameter-byte/handler shape of get_message; format_timestamp evaluated on "
        "the 16-bit range. Regex wildcard semantics over arbitrary tables are not decided.")
    ts = check_timestamp(rep, prog, thorough)
    check_entries(rep, prog, ts)
    check_table(rep, prog)
    check_matches(rep, prog)
    check_regexes(rep, prog)
    from ..effects import check_text_decoding
    check_text_decoding(rep, prog, "C14.R2.first-match", "io_drawer", "a definition file of the IO drawer decoders")
    from ..effects import check_no_memoised
    check_no_memoised(rep, prog, 'C14.R2.first-match', ['io_drawer'], 'the PTE table of an earlier decode is reused although the header file given now may differ')
    c = I_const(prog)


def I_const(prog):
    return None
