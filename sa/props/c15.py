"""C15 - trace buffers decode entry by entry, stopping at the first malformed entry."""
import struct

from ..core import AnalysisError
from ..interp import Interpreter, Instance, _strip_undef
from ..terms import (Const, Sym, Op, Ite, Ref, Ext, TRUE, FALSE, NONE, Undef, walk, and_, or_, not_, is_const, is_int, subst, compare,
                     evaluate, CannotEval, add, sub, mul, binop)
from .. import pelx
from ..pelx import implies, env_str, unsat, DATA, IntF, F, list_items, equivalent, flat_parts

TR = "io_drawer.trace."
B = Sym("B", "int")


def ev(t, data, extra=None):
    env = {DATA: data, B: 0, Op("len", DATA): len(data)}
    if extra:
        env.update(extra)
    try:
        return evaluate(t, env)
    except CannotEval as e:
        raise AnalysisError("summary not evaluable on concrete bytes: %s" % e)


def mk_entry(length, tbh=0x1234, tbl=0x0042, tag=0x4654, hv=92602121, line=926, trailer=None, fill=0xA5):
    data = bytes((fill + i) & 0xFF for i in range(length))
    pad = (4 - length % 4) % 4
    total = 16 + length + pad + 4
    tr = total if trailer is None else trailer
    return struct.pack(">HHHHII", tbh, tbl, length & 0xFFFF, tag, hv, line) + data + b"\0" * pad + struct.pack(">I", tr & 0xFFFFFFFF)


def spec_entry(buf):
    """reference framing of one entry at offset 0 -> (ok, consumed, fields)"""
    if len(buf) < 16:
        return False, None, None
    tbh, tbl, length, tag, hv, line = struct.unpack(">HHHHII", buf[:16])
    if length > 1024:
        return False, None, None
    pos = 16
    data = b""
    if length:
        if pos + length > len(buf):
            return False, None, None
        data = buf[pos:pos + length]
        pos += length
        if length % 4:
            pad = 4 - length % 4
            if pos + pad > len(buf):
                return False, None, None
            pos += pad
    if pos + 4 > len(buf):
        return False, None, None
    size = struct.unpack(">I", buf[pos:pos + 4])[0]
    pos += 4
    if size != pos:
        return False, None, None
    return True, pos, dict(tbh=tbh, tbl=tbl, length=length, tag=tag, hash_value=hv, line=line, data=data)


def check_entry(rep, prog, thorough):
    rule = "C15.R2.entry-framing"
    I = Interpreter(prog)
    st = pelx.new_stream(I)
    I.obj(st).attrs["index"] = B
    ent = I.new(TR + "TraceEntry")
    r = I.truth(I.method(ent, "read", [st]))
    attrs = I.obj(ent).attrs
    idx = I.obj(st).attrs["index"]
    raises = [e for e in I.events if e.kind == "raise"]
    lengths = [0, 1, 2, 3, 4, 5, 7, 8, 12, 1023, 1024, 1025, 2000]
    cases = []
    for ln in lengths:
        good = mk_entry(ln)
        cases.append(good)
        cases.append(good + b"\x00\x01\x02\x03")                     # followed by more data
        for cut in (1, 2, 3, 4, 5, 8):
            if len(good) - cut >= 0:
                cases.append(good[:len(good) - cut])
        cases.append(good[:16])
        cases.append(good[:15])
        cases.append(mk_entry(ln, trailer=ln))                       # trailer = data length instead of entry size
        cases.append(mk_entry(ln, trailer=16 + ln + ((4 - ln % 4) % 4)))   # size without the trailer itself
        cases.append(mk_entry(ln, trailer=0))
    cases += [b"", b"\x00" * 7, b"\xff" * 20]
    # every fixed field at the top of its range (all are unsigned) and at zero
    cases += [mk_entry(4, tbh=0xFFFF, tbl=0xFFFF, tag=0xFFFF, hv=0xFFFFFFFF, line=0xFFFFFFFF),
              mk_entry(8, tbh=0x8000, tbl=0x8001, tag=0x8002, hv=0x80000003, line=0x80000004),
              mk_entry(0, tbh=0, tbl=0, tag=0, hv=0, line=0)]
    if thorough:
        for ln in range(0, 40):
            g = mk_entry(ln)
            for cut in range(0, len(g) + 1):
                cases.append(g[:cut])
    bad = None
    n = 0
    for buf in cases:
        n += 1
        got = bool(ev(r, buf))
        ok, consumed, f = spec_entry(buf)
        if got != ok:
            bad = bad or "entry bytes %s...(%d bytes, length field %s): read() returns %s, the framing rules say %s" % (
                buf[:8].hex(), len(buf), struct.unpack(">H", buf[4:6])[0] if len(buf) >= 6 else "-", got, ok)
            continue
        for e in raises:
            if ev(e.guard, buf):
                bad = bad or "a read inside TraceEntry.read raises for %d-byte input (unguarded read at line %s) instead of returning False" % (
                    len(buf), getattr(e.node, "lineno", "?"))
        if ok:
            if ev(idx, buf) != consumed:
                bad = bad or "a %d-byte entry consumes %r bytes, its size is %d" % (len(buf), ev(idx, buf), consumed)
            for k, v in f.items():
                gv = ev(attrs[k], buf)
                if isinstance(gv, (bytes, bytearray, memoryview)):
                    gv = bytes(gv)
                if gv != v:
                    bad = bad or "field %s of the entry is decoded as %r, stored value is %r" % (k, gv, v)
    rep.count("entry byte strings evaluated", n)
    rep.check(bad is None, rule, "TraceEntry.read == reference framing (16 fixed bytes, data, pad to 4, trailing size word; >1024 rejected; "
              "never raises) on %d entry byte strings" % n, "TraceEntry.read", "read", bad)


def check_header(rep, prog):
    rule = "C15.R1.header"
    I = Interpreter(prog)
    st = pelx.new_stream(I)
    h = I.new(TR + "TraceBufferHeader")
    r = I.truth(I.method(h, "read", [st]))
    a = I.obj(h).attrs
    raises = [e for e in I.events if e.kind == "raise"]
    bad = None
    for size in (0, 1, 31, 32, 33, 64):
        buf = bytes([2, 0x20, 1, 0x42]) + b"POWR" + b"\0" * 8 + b"\xde\xad\xbe\xef" + struct.pack(">III", 0x00001000, 7, 0x0200) + b"\x11" * 40
        buf = buf[:size]
        got = bool(ev(r, buf))
        if got != (size >= 32):
            bad = bad or "header read on %d bytes returns %s" % (size, got)
        for e in raises:
            if ev(e.guard, buf):
                bad = bad or "header read raises on %d bytes instead of returning False" % size
        if size >= 32:
            want = dict(ver=2, hdr_len=0x20, time_flg=1, endian_flg=0x42, size=0x1000, times_wrap=7, next_free=0x200)
            for k, v in want.items():
                if ev(a[k], buf) != v:
                    bad = bad or "header field %s decoded as %r, stored %r" % (k, ev(a[k], buf), v)
            if ev(I.obj(st).attrs["index"], buf) != 32:
                bad = bad or "header consumes %r bytes" % ev(I.obj(st).attrs["index"], buf)
    # every numeric header field is unsigned: a header with the top bit set in each of them
    hi = bytes([0x82, 0xA0, 0x81, 0xC2]) + b"FANS" + b"\0" * 8 + b"\xde\xad\xbe\xef" + struct.pack(">III", 0xFFFFFFF0, 0x80000007, 0x80000200)
    for k, v in dict(ver=0x82, hdr_len=0xA0, time_flg=0x81, endian_flg=0xC2, size=0xFFFFFFF0, times_wrap=0x80000007, next_free=0x80000200).items():
        if ev(a[k], hi) != v:
            bad = bad or "header field %s decoded as %r, stored %r" % (k, ev(a[k], hi), v)
    comp = a.get("comp")
    okc = any(pelx.as_slice(x) == (Const(4), Const(16)) for x in walk(comp))
    # the component name as a function of the header bytes, evaluated: ASCII text of bytes 4..15 with bytes >= 0x80 dropped
    # (never an exception), trailing NULs and then blanks removed
    for fld in (b"POWR\0\0\0\0\0\0\0\0", b"IICS        ", b"FA\xffNS\0\0\0\0\0\0\0", b"\x80\x81INFO \0\0\0\0\0", b"ERRL \0 \0\0\0\0\0", b"\0" * 12, b"abc def ghi "):
        hdr = b"\x02\x20\x01\x42" + fld + b"\0" * 16
        want_c = str(fld, encoding="ascii", errors="ignore").rstrip("\0").rstrip(" ")
        try:
            got_c = evaluate(comp, {DATA: hdr, Op("len", DATA): len(hdr)})
        except CannotEval as e:
            raise AnalysisError("component name summary not evaluable: %s" % e)
        except UnicodeError as e:
            got_c = "<raises %s>" % type(e).__name__
        if got_c != want_c and bad is None:
            bad = "component field %r is shown as %r, expected %r" % (fld, got_c, want_c)
        # ... and whatever the component is called, 32 readable bytes are a header
        try:
            got_r = bool(evaluate(r, {DATA: hdr, Op("len", DATA): len(hdr)}))
        except CannotEval as e:
            raise AnalysisError("header read result not evaluable: %s" % e)
        except UnicodeError as e:
            got_r = "<raises %s>" % type(e).__name__
        if got_r is not True and bad is None:
            bad = "a 32-byte header whose component field is %r is not accepted (read() gives %r): the buffer is hex-dumped instead of decoded" % (fld, got_r)
    rep.check(bad is None and okc, rule, "32-byte header: ver@0 hdr_len@1 time_flg@2 endian@3 comp@4/12 size@20 times_wrap@24 next_free@28; False if <32 bytes",
              "TraceBufferHeader.read", "read", bad or "component name is not taken from bytes[4:16]: %r" % (comp,))


def check_buffer_loop(rep, prog):
    rule = "C15.R4.entry-loop"
    I = Interpreter(prog, hooks={"opaque": {TR + "TraceEntry.read"}})
    st = pelx.new_stream(I)
    buf = I.new(TR + "TraceBuffer")
    r = I.method(buf, "read", [st])
    loops = [L for L in I.loops.values() if L.func == TR + "TraceBuffer.read"]
    if not loops:
        # the entry loop may live in a helper / generator method of the buffer: the loop that reads entries
        loops = [L for L in I.loops.values() if any(e.kind == "opaquecall" and e.data[0] == TR + "TraceEntry.read" and e.loops and e.loops[-1] is L
                                                    for e in I.events)]
    ok = len(loops) == 1 and loops[0].kind == "while"
    if ok:
        L = loops[0]
        # (the test of the entry's read() may sit in the body with a break, or in the loop condition itself)
        inl = [e for e in I.events if L in e.loops]
        reads = [e for e in inl if e.kind == "opaquecall" and e.data[0] == TR + "TraceEntry.read"]
        news = [e for e in inl if e.kind == "new" and e.data[0] == TR + "TraceEntry"]
        apps = [e for e in inl if e.kind == "append"]
        ok = len(reads) == 1 and len(news) == 1 and len(apps) == 1
        if ok:
            rd = Op("call:" + TR + "TraceEntry.read", *reads[0].data[1])
            cont = and_(L.cond, *[not_(s_) for s_ in L.stops])
            lvs = [x for x in walk(cont) if isinstance(x, Sym) and x.kind == "loopvar"]
            cont32 = subst(cont, {lvs[0]: Const(32)}) if lvs else cont
            want = and_(compare("lt", Const(32), IntF(20, 4)), rd)
            okc = implies(cont32, want)[0] and implies(want, cont32)[0]
            cj = lambda g_: set(g_.args) if isinstance(g_, Op) and g_.op == "and" else {g_}
            extra = and_(*[c_ for c_ in (apps[0].guard.args if isinstance(apps[0].guard, Op) and apps[0].guard.op == "and" else (apps[0].guard,))
                           if c_ not in cj(news[0].guard)])        # what the append depends on beyond "this iteration runs"
            ok = okc and implies(apps[0].guard, rd)[0] and implies(cont, extra)[0] and apps[0].data[1] == news[0].data[1] \
                and reads[0].data[1][-1] == st and reads[0].seq < apps[0].seq
    rep.check(ok, rule, "entries are read while index < header size; stop at the first entry whose read() fails; one append per good entry, in order",
              "TraceBuffer.read", "while stream.index < self.header.size", "the entry loop does not read fresh entries up to the declared size and "
              "stop at the first malformed one")
    # size field used by the guard is the header's size
    L2 = loops
    oks = bool(L2) and any(pelx.as_int_field(x) and pelx.as_int_field(x)[:2] == (Const(20), Const(24)) for x in walk(L2[0].cond))
    rep.check(oks, rule, "the loop bound is the size word of the header (bytes 20..23)", "TraceBuffer.read", "self.header.size",
              "the entry loop is not bounded by the header's size field")
    consts = {}
    for nm, want in (("MAX_DATA_LEN", 1024), ("FIXED_SIZE", 16), ("MAX_ARGS", 5), ("TYPE_FIELDBIN", 0x4644)):
        v = I.class_attr(prog.cls(TR + "TraceEntry"), nm)
        rep.check(v == Const(want), rule, "TraceEntry.%s == %s" % (nm, want), TR + "TraceEntry", nm, "constant %s is %r, the trace format uses %s" % (nm, v, want))
    v = I.class_attr(prog.cls(TR + "TraceBufferHeader"), "SIZE")
    rep.check(v == Const(32), rule, "TraceBufferHeader.SIZE == 32", TR + "TraceBufferHeader", "SIZE", "header size constant is %r" % (v,))


def check_strings(rep, prog):
    rule = "C15.R5.string-lookup"
    I = Interpreter(prog, hooks={"opaque": {TR + "TraceString.is_match", TR + "TraceString.is_partial_match"}})
    sf = Instance(prog.cls(TR + "TraceStringFile"), ())
    STRS = Sym("STRS")
    sf.attrs["trace_strings"] = STRS
    sfr = I.alloc(sf)
    h = Sym("h", "int")
    r = I.method(sfr, "get_trace_string", [h])
    loops = [L for L in I.loops.values() if L.func == TR + "TraceStringFile.get_trace_string"]
    # which string a hash gets: the summary of the search is run on sample string lists (several exact and partial
    # candidates in different orders) - however the scan is written (one pass, two passes, next() over generators)
    stubs = {"m:is_match": lambda s_, x_: s_[0] == x_, "m:is_partial_match": lambda s_, x_: s_[0] != x_ and s_[0] % 100000 == x_ % 100000,
             "call:" + TR + "TraceString.is_match": lambda s_, x_: s_[0] == x_,
             "call:" + TR + "TraceString.is_partial_match": lambda s_, x_: s_[0] != x_ and s_[0] % 100000 == x_ % 100000}
    import collections
    TS_ = collections.namedtuple("TraceString", ["hash_value", "message_format"])      # (the attributes of a trace string object)
    lists = [[], [(5, "a")], [(5, "a"), (100005, "b"), (7, "c"), (5, "d"), (200005, "e")], [(300007, "p"), (100007, "q"), (7, "r"), (200007, "s")],
             [(92602121, "x"), (92702121, "y"), (2121, "z"), (92602121, "w")]]
    lists = [[TS_(*x_) for x_ in l_] for l_ in lists]
    bad = None
    ran = 0
    try:
        for strs in lists:
            for hv in (5, 100005, 200005, 300005, 7, 100007, 8, 2121, 92602121, 192602121, 102121):
                env = pelx.with_heap(I, {STRS: strs, h: hv, Op("len", STRS): len(strs), Op("truthy", STRS): bool(strs)})
                env["__ops__"] = stubs
                got = evaluate(r, env)
                ex_ = [s_ for s_ in strs if s_[0] == hv]
                pa_ = [s_ for s_ in strs if s_[0] != hv and s_[0] % 100000 == hv % 100000]
                want = ex_[0] if ex_ else (pa_[-1] if pa_ else None)
                ran += 1
                if got != want and bad is None:
                    bad = "hash %d in the string list %s finds %r, documented %r (first exact match, else the LAST partial match)" % (
                        hv, [tuple(s_) for s_ in strs], tuple(got) if got is not None else None, tuple(want) if want is not None else None)
    except CannotEval:
        ran = 0
    if ran:
        rep.count("string look-up samples evaluated", ran)
        rep.check(bad is None, rule, "an exact hash match wins (first in file order); otherwise the LAST partially matching string; None if there is none",
                  "TraceStringFile.get_trace_string", "get_trace_string", bad)
        return check_strings_rest(rep, prog, rule, h)
    if len(loops) != 1:
        check_strings_indexed(rep, prog, rule)
        return check_strings_rest(rep, prog, rule, h)
    L = loops[0]
    el = Op("elem", STRS, L.idx)
    ism = Op("m:is_match", el, h)
    isp = Op("m:is_partial_match", el, h)
    ok = isinstance(r, Ite) and r.c == Op("exists", Const(L.lid), ism) and r.a == Op("loopret", Const(L.lid), el) and L.iter == STRS and not L.breaks
    carried = [c for k, c in L.carried.items() if "." not in k]
    okp = False
    if ok and len(carried) == 1:
        init, nxt, d, w = carried[0]
        lv = [x for x in walk(nxt) if isinstance(x, Sym) and x.kind == "loopvar"]
        okp = init == NONE and lv and isinstance(nxt, Ite) and nxt.a == el and nxt.b == lv[0] and \
            implies(nxt.c, isp)[0] and implies(and_(isp, not_(ism)), nxt.c)[0]
        okp = okp and isinstance(r.b, Sym) and r.b.kind == "loopout"
    rep.check(ok, rule, "an exact hash match returns immediately (first exact match in file order)", "TraceStringFile.get_trace_string",
              "if trace_string.is_match(hash_value): return trace_string", "exact matches are not returned at once from a scan in file order: %r" % (r,))
    rep.check(okp, rule, "otherwise the LAST partially matching string is returned (None if there is none)", "TraceStringFile.get_trace_string",
              "partial_match = trace_string", "the partial-match fallback is not 'last partial match wins': %r" % ([c[1] for c in carried],))
    check_strings_rest(rep, prog, rule, h)


def check_strings_rest(rep, prog, rule, h):
    # predicates
    I2 = Interpreter(prog)
    ts = I2.new(TR + "TraceString", [Sym("hv", "int"), Sym("mf"), Sym("loc")])
    hv = Sym("hv", "int")
    pm = I2.truth(I2.method(ts, "is_partial_match", [h]))
    em = I2.truth(I2.method(ts, "is_match", [h]))
    dom_vals = [0, 1, 99999, 100000, 100001, 92602121, 92702121, 92602122, 2602121, 192602121, 4294967295, 4294867295]
    bad = None
    for a in dom_vals:
        for b in dom_vals:
            gp = bool(evaluate(pm, {hv: a, h: b}))
            ge = bool(evaluate(em, {hv: a, h: b}))
            if gp != (a != b and a % 100000 == b % 100000):
                bad = bad or "is_partial_match(%d vs %d) = %s" % (a, b, gp)
            if ge != (a == b):
                bad = bad or "is_match(%d vs %d) = %s" % (a, b, ge)
    rep.check(bad is None, rule, "is_match = equal hashes; is_partial_match = different hashes that agree modulo 100000", TR + "TraceString",
              "is_partial_match", bad)
    # get_message: broad fallback
    seq_gm = len(I2.events)
    msg = I2.method(ts, "get_message", [Sym("args")])
    hs = [e for e in I2.events[seq_gm:] if e.kind == "handler"]
    okm = isinstance(msg, Ite) and isinstance(msg.c, Sym) and msg.a == Sym("mf") and isinstance(msg.b, Op) and msg.b.args[0] == Sym("mf") and \
        any(x.data[1] in ("Exception", "BaseException", None) for x in hs)
    rep.check(okm, rule, "message = format % args, falling back to the raw format on any formatting error", TR + "TraceString.get_message",
              "except Exception", "formatting errors of a trace string are not contained by a broad handler (handlers %s): one odd argument aborts "
              "the whole trace decode" % [x.data[1] for x in hs])
    # get_args
    e2 = Instance(prog.cls(TR + "TraceEntry"), ())
    ED = Sym("EDATA")
    tag = Sym("tag", "int")
    e2.attrs.update(tag=tag, data=ED)
    e2r = I2.alloc(e2)
    a = I2.method(e2r, "get_args")
    items = list_items(I2, a) or []
    bad = None
    nval = 0
    for n in (0, 3, 4, 7, 8, 12, 19, 20, 23, 24, 64):
        buf = bytes(range(1, n + 1))
        for tg in (0x4654, 0x4644):
            env = pelx.with_heap(I2, {ED: buf, Op("len", ED): n, tag: tg, Op("truthy", ED): bool(buf)})
            try:
                got = evaluate(a, env)
                got = list(got) if isinstance(got, (list, tuple)) else got
            except CannotEval as e:
                raise AnalysisError("get_args summary not evaluable: %s" % e)
            except Exception as e:
                got = "<raises %s: %s>" % (type(e).__name__, e)
            nval += 1
            want = [] if tg == 0x4644 else [int.from_bytes(buf[4 * k:4 * k + 4], "big") for k in range(min(5, n // 4))]
            if got != want:
                bad = bad or "%d data bytes, tag 0x%04X: arguments %r, expected %r" % (n, tg, got, want)
    rep.count("get_args valuations", nval)
    rep.check(bad is None, rule, "arguments = up to five 32-bit big-endian words of the entry data, none for binary entries", TR + "TraceEntry.get_args",
              "get_args", bad)
    # strings kept in file order
    I3 = Interpreter(prog)
    sf3 = I3.new(TR + "TraceStringFile", [Sym("path")])
    lst = I3.obj(sf3).attrs.get("trace_strings")
    muts = [e for e in I3.events if e.kind == "listmut" and e.data[0] == lst]
    apps = [e for e in I3.events if e.kind == "append" and e.data[0] == lst]
    rep.check(len(apps) == 1 and not muts and isinstance(lst, Ref), rule, "trace strings are kept in file order", TR + "TraceStringFile", "self.trace_strings.append",
              "trace strings are re-ordered / indexed differently after loading")
    # line grammar of the string file:  <hash> || <message, may itself contain ||> || <location>   (one string per line)
    news = [e for e in I3.events if e.kind == "new" and e.data[0] == TR + "TraceString"]
    bad = None
    nl = 0
    if len(news) != 1 or not news[0].loops:
        bad = "a line does not yield at most one trace string"
    else:
        N = news[0]
        Lf = N.loops[-1]
        line = Op("elem", Lf.iter, Lf.idx)
        # (the loop may run over something derived from the file - map(RE.fullmatch, file): the text line is the element of
        # the file itself)
        flines = [x for x in walk(N.guard) if isinstance(x, Op) and x.op == "elem" and isinstance(x.args[0], Op) and x.args[0].op == "file"]
        if flines and not (isinstance(Lf.iter, Op) and Lf.iter.op == "file"):
            line = flines[0]
        import re as _re
        ref = _re.compile(r'\s*([0-9]+)\s*\|\|(.*)\|\|(.*)\n?')
        samples = ["92602121||I> ADT7470: trace_level = %u||adt7470_fan_ctl.cpp(926)\n", "  7 || a || b || c.cpp(1) \n", "12||x||y", "12||only\n",
                   "", "\n", "abc||x||y\n", "5||a||b||c||d||e.c(3)\n", " 001 ||  padded  ||  loc  \n", "9||||\n", "3|| %% done||f.c(2)\r\n",
                   "4||one|two||g.c(7)\n", "18446744073709551616||big||h.c(1)\n", "6 ||tab\there||i.c(9)\n"]
        for smp in samples:
            env = pelx.with_heap(I3, {line: smp})
            env["__inloops__"] = frozenset(l_.lid for l_ in N.loops)       # evaluated within one iteration of the line loop
            try:
                made = bool(evaluate(N.guard, env))
                got = tuple(evaluate(a, env) for a in N.data[2]) if made else None
            except CannotEval as e:
                raise AnalysisError("trace string line parser not evaluable: %s" % e)
            except (ValueError, TypeError, IndexError, AttributeError) as e:
                made, got = "raises %s" % type(e).__name__, None
            m = ref.fullmatch(smp)
            want = (int(m.group(1).strip()), m.group(2).strip(), m.group(3).strip()) if m else None
            nl += 1
            if got != want or (made is not True and made is not False):
                bad = bad or "line %r gives %r, the documented grammar gives %r" % (smp, got if made in (True, False) else made, want)
    rep.count("string-file sample lines evaluated", nl)
    rep.check(bad is None, rule, "a string-file line '<hash>||<message>||<location>' yields (int hash, message, location) - the message may "
              "contain '||'; other lines are ignored", TR + "TraceStringFile.__init__", "LINE_RE.fullmatch(line)", bad)


def check_strings_indexed(rep, prog, rule):
    """look-up through index dictionaries built while loading: the exact index may keep the first string per hash,
    the partial index (keyed by hash % 100000) must keep the LAST one"""
    I = Interpreter(prog)
    sf = I.new(TR + "TraceStringFile", [Sym("path")])
    h = Sym("h", "int")
    r = I.method(sf, "get_trace_string", [h])
    looks = [x for x in walk(r) if isinstance(x, Op) and x.op in ("dictget", "getitem") and isinstance(x.args[0], Ref) and
             pelx.dict_entries(I, x.args[0]) is not None]
    part = [x for x in looks if any(isinstance(y, Op) and y.op == "mod" and y.args[1] == Const(100000) for y in walk(x.args[1]))]
    exact = [x for x in looks if x.args[1] == h]
    if not part or not exact:
        raise AnalysisError("TraceStringFile.get_trace_string: look-up idiom not recognised (neither a scan nor hash / hash %% 100000 indexes)")
    for x in part:
        fills = [e for e in I.events if e.kind in ("dict_store", "dictmut") and e.data[0] == x.args[0]]
        first_wins = [e for e in fills if e.kind == "dictmut" and e.data[1] == "setdefault"]
        rep.check(bool(fills) and not first_wins, rule, "partial-match index keeps the last string per hash %% 100000", TR + "TraceStringFile",
                  first_wins[0].node if first_wins else "index fill", "the partial-match index keeps the FIRST string with a given hash %% 100000 "
                  "(setdefault): the documented fallback is the last partially matching string", node=first_wins[0].node if first_wins else None)
    rep.ok(rule, "exact matches are served from a hash index")


def check_rendering(rep, prog):
    rule = "C15.R6.rendering"
    I = Interpreter(prog, hooks={"opaque": {TR + "TraceStringFile.get_trace_string", "pel.hexdump.hexdump", "io_drawer.utils.format_timestamp"}})
    ent = Instance(prog.cls(TR + "TraceEntry"), ())
    syms = dict(tbh=Sym("tbh", "int"), tbl=Sym("tbl", "int"), line=Sym("line", "int"), hash_value=Sym("hash", "int"), tag=Sym("tag", "int"),
                data=Sym("EDATA"), length=Sym("length", "int"))
    ent.attrs.update(syms)
    er = I.alloc(ent)
    sfile = Sym("stringfile")
    lines = I.mk_list([])
    I.call(TR + "_format_trace_entry", [er, sfile, lines])
    items = list_items(I, lines)
    ok = len(items) >= 1
    first = items[0][1] if ok else None
    parts = flat_parts(first) if ok else []
    ts = Op("call:io_drawer.utils.format_timestamp", syms["tbh"])
    okl = ok and items[0][2] == TRUE and len(parts) == 7 and parts[0] in (ts, Op("fv", ts, Const(""), Const(""))) and parts[2] == Op("fv", syms["tbl"], Const("04X"), Const("")) and \
        parts[4] == Op("fv", syms["line"], Const("5d"), Const(""))
    rep.check(okl, rule, "entry line = '<H:MM:SS of tbh> <tbl %04X> <line %5d> <message>'", TR + "_format_trace_entry", "lines.append(f'...')",
              "the entry line does not show timestamp, sequence and source line as stored: %r" % (first,))
    lk = [e for e in I.events if e.kind == "methcall" and e.data[1] == "get_trace_string"] + \
         [e for e in I.events if e.kind == "opaquecall" and e.data[0] == TR + "TraceStringFile.get_trace_string"]
    oklk = len(lk) == 1 and (lk[0].data[2] if lk[0].kind == "methcall" else lk[0].data[1])[-1] == syms["hash_value"]
    rep.check(oklk, rule, "the trace string is looked up by the entry's hash value", TR + "_format_trace_entry", "string_file.get_trace_string(hash_value)",
              "trace string is not looked up by the entry's hash")
    # the message of a found string always goes through get_message (the %-format resolves '%%' even without arguments)
    gm = [e for e in I.events if e.kind == "methcall" and e.data[1] == "get_message"]
    tstr0 = Op("m:get_trace_string", sfile, syms["hash_value"])
    found0 = compare("isnot", tstr0, NONE)
    okgm = bool(gm) and any(implies(found0, e.guard)[0] for e in gm)
    if bool(gm) and not okgm:
        # (computing the arguments first may raise - e.g. a range check the analysis cannot prove dead: "no exception so far"
        # is not a condition on the entry)
        for e in gm:
            raised = or_(*[x.guard for x in I.events if x.kind == "raise" and x.seq < e.seq])
            cj = e.guard.args if isinstance(e.guard, Op) and e.guard.op == "and" else (e.guard,)
            noexc = {not_(g_) for g_ in getattr(I, "raise_conds", ())}
            if all(implies(found0, c)[0] or c in noexc or implies(and_(found0, not_(c)), raised)[0] for c in cj):
                okgm = True
    rep.check(okgm, rule, "whenever a trace string is found its message is produced by get_message(arguments)", TR + "_format_trace_entry",
              "trace_string.get_message(args)", "the message of a found trace string is not always produced by get_message() (it is skipped under "
              "%s): format strings without arguments keep their '%%%%' escapes" % ([repr(e.guard)[:100] for e in gm][:1],))
    # hexdump iff binary or no string or partial;  warning iff partial
    hd = [i for i in items[1:] if any(isinstance(x, Op) and x.op == "call:pel.hexdump.hexdump" for x in walk(i[2] if i[0] == "rep" else i[1]))]
    warn = [i for i in items[1:] if i[0] == "v" and any(is_const(x, str) and "Partial match" in x.v for x in walk(i[1]))]
    tstr = Op("m:get_trace_string", sfile, syms["hash_value"])
    found = compare("isnot", tstr, NONE)
    partial = [x for x in walk(warn[0][2]) if isinstance(x, Op) and x.op == "m:is_partial_match"] if warn else []
    okw = len(warn) == 1 and bool(partial)
    okh = len(hd) == 1 and hd[0][0] == "rep"
    if okw and okh:
        p = partial[0]
        gw = warn[0][2]
        gh = hd[0][3] if hd[0][0] == "rep" else hd[0][2]
        is_bin = compare("eq", syms["tag"], Const(0x4644))
        want_h = and_(or_(is_bin, not_(found), and_(found, p)), compare("isnot", syms["data"], NONE))
        e1 = implies(gw, and_(found, p))[0] and implies(and_(found, p), gw)[0]
        e2 = implies(gh, want_h)[0] and implies(want_h, gh)[0]
        okw, okh = e1, e2
    rep.check(okw, rule, "partial-match warning is emitted iff the string found is a partial match", TR + "_format_trace_entry", "if is_partial_match",
              "the partial-match warning is not tied to is_partial_match of the string found")
    rep.check(okh, rule, "entry data is hex-dumped iff the entry is binary, no string was found, or the match is partial", TR + "_format_trace_entry",
              "if entry.is_binary_trace() or (trace_string is None) or is_partial_match", "the condition for showing the entry data differs from "
              "'binary or no trace string or partial match'")
    # fallback for unparsable input + header lines
    I2 = Interpreter(prog, hooks={"opaque": {TR + "TraceBuffer.read", "pel.hexdump.hexdump", TR + "_format_trace_entry", TR + "TraceStringFile.__init__"}})
    r = I2.call(TR + "parse_trace_data", [DATA, Sym("string_file")])
    its = pelx.merged_items(I2, r) or []
    rd = [x for i in its for x in walk(i[3] if i[0] == "rep" else i[2]) if isinstance(x, Op) and x.op == "call:" + TR + "TraceBuffer.read"]
    fb = [i for i in its if any(isinstance(x, Op) and x.op == "call:pel.hexdump.hexdump" and x.args[0] == DATA for x in walk(i[1] if i[0] == "v" else i[2]))]
    okf = bool(rd) and len(fb) == 1 and implies(fb[0][2] if fb[0][0] == "v" else fb[0][3], not_(rd[0]))[0]
    rep.check(okf, rule, "if no header can be read the whole input is hex-dumped", TR + "parse_trace_data", "lines.extend(hexdump(data))",
              "the unparsable-input fallback does not hex-dump the whole input")
    I3 = Interpreter(prog, hooks={"opaque": {TR + "TraceEntry.read", "pel.hexdump.hexdump", TR + "_format_trace_entry", TR + "TraceStringFile.__init__"}})
    r3 = I3.call(TR + "parse_trace_data", [DATA, Sym("string_file")])
    heads = [i[1] for i in (pelx.merged_items(I3, r3) or []) if i[0] == "v" and isinstance(i[1], Op) and i[1].op in ("fmt", "concat")]
    want_h = {"Component: ": (4, 16), "Version: ": (0, 1), "Size: ": (20, 24), "Times Wrapped: ": (24, 28)}
    okhd = True
    for lit, (lo, hi) in want_h.items():
        hit = [h for h in heads if flat_parts(h)[0] == Const(lit)]
        okhd = okhd and len(hit) == 1 and any(pelx.as_slice(x) == (Const(lo), Const(hi)) for x in walk(hit[0]))
    rep.check(okhd, rule, "header lines show component (bytes 4..15), version (byte 0), size (20..23) and wrap count (24..27)", TR + "parse_trace_data",
              "lines.append(f'Component: ...')", "header lines do not show comp/ver/size/times_wrap of the header")


def run(rep, prog, thorough):
    rep.explanation = (
        "TraceEntry.read / TraceBufferHeader.read are summarised symbolically and the summaries (result, decoded fields, bytes "
        "consumed, and every raise site's path condition) are evaluated on a systematic family of entry byte strings (all data "
        "lengths around the alignment/limit boundaries x truncations x wrong size words) against an independent framing "
        "reference; loop shape (bounded by header size, break at first failed read, one append per entry), exact-first / "
        "last-partial string lookup shape, hash predicates, argument extraction, rendering conditions as path-condition "
        "equivalences.")
    check_header(rep, prog)
    check_entry(rep, prog, thorough)
    check_buffer_loop(rep, prog)
    check_strings(rep, prog)
    check_rendering(rep, prog)
    from ..effects import check_text_decoding
    check_text_decoding(rep, prog, "C15.R5.string-lookup", "io_drawer", "a definition file of the IO drawer decoders")
    from ..effects import check_no_memoised
    check_no_memoised(rep, prog, 'C15.R5.string-lookup', ['io_drawer'], 'the trace strings of an earlier decode are reused although the string file given now may differ')
