"""C02 - header-type sections display exactly the values encoded in the log.

Rule: for every displayed key of PH/UH/EH/MT/LP the stored expression (as
extracted by abstract interpretation of the decoder, callees inlined) depends
on exactly the spec's byte range and renders it through the spec's class."""
import json
import os

from ..core import AnalysisError, VERIF
from ..interp import Interpreter
from ..terms import (Const, Sym, Op, Ite, Ref, Lin, TRUE, is_int, is_const, add, sub, mul, walk, ite,
                     compare, and_, not_, binop, subst)
from .. import pelx
from ..pelx import (F, IntF, DATA, as_slice, as_int_field, fields_of, field_str, equivalent, env_str,
                    hex_render, dec_render, text_render, strips_nul, table_lookup, flat_parts,
                    final_entries, list_items, heap_deps)

SPEC_TABLES = json.load(open(os.path.join(VERIF, "spec", "pel_values.json")))


def spec_table(name):
    t = SPEC_TABLES[name]
    out = {}
    for k, v in t.items():
        out[int(k, 16) if k.startswith("0x") else k] = v
    return out


CREATOR = Sym("creator")

# offsets are relative to the start of the section (8-byte section header included)
HDR = {"Section Version": ("num", 4, 1), "Sub-section type": ("num", 5, 1)}

SPEC = {
    "PH": {"sid": 0x5048, "entry": "generatePH", "name": "Private Header", "keys": {
        **HDR,
        "Created by": ("compid", 6, 2, ("ascii", 24, 1)),
        "Created at": ("bcd", 8), "Committed at": ("bcd", 16),
        "Creator Subsystem": ("table", "creatorIDs", "Unknown", ("ascii", 24, 1)),
        "CSSVER": ("hex", 32, 8, "0x", None),
        "Platform Log Id": ("hex", 40, 4, "0x", 8),
        "Entry Id": ("hex", 44, 4, "0x", 8),
        "BMC Event Log Id": ("dec", 28, 4)}},
    "UH": {"sid": 0x5548, "entry": "generateUH", "name": "User Header", "keys": {
        **HDR,
        "Log Committed by": ("compid", 6, 2, "creator"),
        "Subsystem": ("table", "subsystemValues", "Invalid", ("int", 8, 1)),
        "Event Scope": ("table", "eventScopeValues", "Invalid", ("int", 9, 1)),
        "Event Severity": ("table", "severityValues", "Invalid", ("int", 10, 1)),
        "Event Type": ("table", "eventTypeValues", "Invalid", ("int", 11, 1)),
        "Action Flags": ("flags", 18, 2, "actionFlagsValues"),
        "Host Transmission": ("table", "transmissionStates", "Unknown", ("int", 23, 1)),
        "HMC Transmission": ("table", "transmissionStates", "Unknown", ("int", 22, 1))}},
    "EH": {"sid": 0x4548, "name": "Extended User Header", "keys": {
        **HDR,
        "Created by": ("compid", 6, 2, "creator"),
        "Reporting Machine Type": ("text", 8, 8),
        "Reporting Serial Number": ("text", 16, 12),
        "FW Released Ver": ("text", 28, 16),
        "FW SubSys Version": ("text", 44, 16),
        "Common Ref Time": ("bcd", 64),
        "Symptom Id Len": ("dec", 75, 1),
        "Symptom Id": ("vtext", 76, (75, 1))}},
    "MT": {"sid": 0x4D54, "name": "Failing MTMS", "keys": {
        **HDR,
        "Created by": ("compid", 6, 2, "creator"),
        "Machine Type Model": ("text", 8, 8),
        "Serial Number": ("text", 16, 12)}},
    "LP": {"sid": 0x4C50, "name": "Impacted Partition", "keys": {
        **HDR,
        "Created by": ("compid", 6, 2, "creator"),
        "Primary Partition ID": ("hex", 8, 2, "0x", 4),
        "Length of LP Name": ("hex", 10, 1, "0x", 2),
        "Target LP Count": ("hex", 11, 1, "0x", 2),
        "Logical Partition Log ID": ("hex", 12, 4, "0x", 8),
        "Primary Partition Name": ("vtext", 16, (10, 1)),
        "Target LP": ("lplist",)}},
}


def run_section(prog, tag, spec, config_attrs=None):
    """interpret the decoder of one section the way parsePEL drives it"""
    I = Interpreter(prog)
    # (the component-id names are loaded on first use: one call up front, so that the decoder's call and the reference call
    # of check_compid both see the loaded state)
    if prog.has_func("pel.peltool.comp_id.getDisplayCompID"):
        try:
            I.call("pel.peltool.comp_id.getDisplayCompID", [Sym("warm.comp", "int"), Sym("warm.creator")])
        except AnalysisError:
            pass
    st = pelx.new_stream(I)
    out = I.x_collections_OrderedDict([], {}, None)
    if spec.get("entry") == "generatePH":
        I.call("pel.peltool.peltool.generatePH", [st, out])
    elif spec.get("entry") == "generateUH":
        I.call("pel.peltool.peltool.generateUH", [st, CREATOR, out])
    else:
        cfg = I.new("pel.peltool.config.Config")
        for k, v in (config_attrs or {}).items():
            I.obj(cfg).attrs[k] = v
        hdr = I.call("pel.peltool.peltool.parseHeader", [st])
        items = list_items(I, hdr)
        if items is None or len(items) != 5:
            raise AnalysisError("parseHeader does not return a 5-tuple any more")
        h = [it[1] for it in items]
        I.call("pel.peltool.peltool.sectionFun",
               [st, out, Const(spec["sid"]), h[1], h[2], h[3], h[4], CREATOR, cfg])
    ents = pelx.dict_entries(I, out)
    sec = None
    for k, v, g, lc in ents:
        name = k
        tl = table_lookup(I, k)
        if isinstance(v, Ref) and pelx.dict_entries(I, v) is not None:
            sec = (k, v, g, lc)
    if sec is None:
        raise AnalysisError("decoder of section %s stores no section dictionary into its output" % tag)
    return I, st, out, sec


def check_compid(I, rep, rule, where, key, val, spec):
    """value must be getDisplayCompID(<comp field>, <creator>) - verified by interpreting
    getDisplayCompID on exactly those arguments and comparing terms"""
    _, off, w, cre = spec
    comp = IntF(off, w)
    creator = CREATOR if cre == "creator" else Op("m:decode", F(cre[1], cre[2]))
    I2 = I
    expected = I2.call("pel.peltool.comp_id.getDisplayCompID", [comp, creator])

    def canon(t):
        """the same function interpreted twice names its try statements' exception flags differently"""
        import re as _re
        m, k = {}, 0
        for x in walk(t):
            if isinstance(x, Sym) and x.kind == "exc" and x not in m:
                m[x] = Sym("exc%d:%s" % (k, _re.sub(r"#\d+$", "", x.name)), "exc")
                k += 1
        return subst(t, m) if m else t
    if val == expected or canon(val) == canon(expected):
        rep.ok(rule, "%s[%s] = getDisplayCompID(%s, %s)" % (where, key, field_str((Const(off), Const(off + w))),
                                                            "creator" if cre == "creator" else "byte@%d" % cre[1]))
        return
    swapped = I2.call("pel.peltool.comp_id.getDisplayCompID", [creator, comp])
    msg = "component id display does not come from getDisplayCompID(component id @%d/%d, creator id)" % (off, w)
    if val == swapped:
        msg = "getDisplayCompID called with (creator, component) swapped"
    rep.fail(rule, where, "out[%r]" % key, msg + "; depends on " +
             ", ".join(field_str(s) for s in fields_of(val)[:6]))


def check_bcd(rep, rule, where, key, val, off):
    parts = flat_parts(val)
    want = [("f", off + 2, 1), ("l", "/"), ("f", off + 3, 1), ("l", "/"), ("f", off, 2), ("l", " "),
            ("f", off + 4, 1), ("l", ":"), ("f", off + 5, 1), ("l", ":"), ("f", off + 6, 1)]
    ok = len(parts) == len(want)
    why = "shape"
    if ok:
        for p, w in zip(parts, want):
            if w[0] == "l":
                if not (is_const(p, str) and p.v == w[1]):
                    ok, why = False, "separator %r expected" % w[1]
                    break
            else:
                h = hex_render(p)
                s = as_slice(h["value"]) if h and h["kind"] == "byteshex" and not h["prefix"] else None
                if s is None:
                    # '%02x' % int field also renders BCD digits
                    f = as_int_field(h["value"]) if h and h["kind"] == "fmt" and not h["prefix"] else None
                    if f is not None and h["min_digits"] == 2 * w[2]:
                        s = (f[0], f[1])
                if s is None or not (is_int(s[0]) and is_int(s[1])) or (s[0].v, s[1].v) != (w[1], w[1] + w[2]):
                    ok, why = False, "component should be the BCD digits of bytes[%d:%d], found %r" % (
                        w[1], w[1] + w[2], p)
                    break
    rep.check(ok, rule, "%s[%s] = MM/DD/YYYY HH:MM:SS from BCD bytes @%d" % (where, key, off), where,
              "out[%r]" % key, "BCD timestamp wrong (%s): %r" % (why, val))


def check_hex(rep, rule, where, key, val, off, w, prefix, digits):
    h = hex_render(val)
    if h is None:
        rep.fail(rule, where, "out[%r]" % key, "not a hexadecimal rendering of the field: %r" % (val,))
        return
    f = as_int_field(h["value"])
    good_field = f is not None and is_int(f[0]) and is_int(f[1]) and (f[0].v, f[1].v) == (off, off + w) \
        and f[2] == "big" and f[3] is False
    if not good_field:
        rep.fail(rule, where, "out[%r]" % key,
                 "expected the unsigned big-endian value of bytes[%d:%d], found %r" % (off, off + w, h["value"]))
        return
    ok = h["prefix"] == prefix and h["upper"] and not h.get("pad_space")
    if digits is not None:
        ok = ok and h["min_digits"] == digits
    rep.check(ok, rule, "%s[%s] = %s + upper hex of bytes[%d:%d]%s" % (
        where, key, prefix, off, off + w, " zero-padded to %d" % digits if digits else ""), where,
        "out[%r]" % key, "hex rendering differs from spec (prefix %r, %s digits, upper case): prefix=%r min_digits=%r upper=%r"
        % (prefix, digits, h["prefix"], h["min_digits"], h["upper"]))


def check_num(rep, rule, where, key, val, off, w):
    f = as_int_field(val)
    ok = f is not None and is_int(f[0]) and is_int(f[1]) and (f[0].v, f[1].v) == (off, off + w) and f[3] is False
    rep.check(ok, rule, "%s[%s] = unsigned value of bytes[%d:%d]" % (where, key, off, off + w), where,
              "out[%r]" % key, "expected the numeric value of bytes[%d:%d], found %r" % (off, off + w, val))


def check_dec(rep, rule, where, key, val, off, w):
    v = dec_render(val)
    f = as_int_field(v) if v is not None else None
    ok = f is not None and is_int(f[0]) and is_int(f[1]) and (f[0].v, f[1].v) == (off, off + w) \
        and f[2] == "big" and f[3] is False
    rep.check(ok, rule, "%s[%s] = decimal of bytes[%d:%d]" % (where, key, off, off + w), where,
              "out[%r]" % key, "expected the decimal rendering of unsigned big-endian bytes[%d:%d], found %r" % (off, off + w, val))


def check_text(rep, rule, where, key, val, off, wspec):
    """fixed (int width) or variable (width = value of a length field) text"""
    alts = [val]
    # a variable field may be written as  '' if len == 0 else text
    if isinstance(val, Ite):
        alts = [a for a in (val.a, val.b) if not (is_const(a, str) and a.v == "")]
        if len(alts) != 1:
            alts = [val]
    t = text_render(alts[0])
    if t is None:
        rep.fail(rule, where, "out[%r]" % key, "not the decoded text of the field: %r" % (val,))
        return
    lo, hi = t["slice"]
    if isinstance(wspec, int):
        good = is_int(lo) and is_int(hi) and (lo.v, hi.v) == (off, off + wspec)
        desc = "bytes[%d:%d]" % (off, off + wspec)
    else:
        lenf = IntF(wspec[0], wspec[1])
        good = is_int(lo) and lo.v == off and sub(hi, lo) == lenf
        desc = "bytes[%d:%d+len@%d]" % (off, off, wspec[0])
        if good and isinstance(val, Ite):
            # the empty alternative must be selected exactly when the length is zero
            e, _, _ = equivalent(ite(val.c, Const(1), Const(0)),
                                 ite(compare("ne", lenf, Const(0)) if alts[0] is val.a else compare("eq", lenf, Const(0)),
                                     Const(1), Const(0)))
            good = e
    if not good:
        rep.fail(rule, where, "out[%r]" % key, "text is taken from %s, spec says %s" % (field_str((lo, hi)), desc))
        return
    rep.ok(rule, "%s[%s] = text of %s" % (where, key, desc))
    rep.check(strips_nul(t["strips"]), rule.replace("provenance", "nul-strip"),
              "%s[%s] strips NUL padding" % (where, key), where, "out[%r]" % key,
              "fixed-width text field is displayed without stripping its NUL padding (sibling fields strip it)")


def key_term(kspec):
    if kspec[0] == "int":
        return IntF(kspec[1], kspec[2])
    if kspec[0] == "ascii":
        return Op("m:decode", F(kspec[1], kspec[2]))
    raise AssertionError(kspec)


def check_table(I, rep, rule, where, key, val, tname, fallback, kspec):
    tl = table_lookup(I, val)
    if tl is None:
        rep.fail(rule, where, "out[%r]" % key, "not a name-table lookup with fallback: %r" % (val,))
        return
    want = spec_table(tname)
    if tl["table"] != want:
        diff = [k for k in set(want) | set(tl["table"]) if want.get(k) != tl["table"].get(k)]
        rep.fail(rule, where, "out[%r]" % key, "looked up in a table that differs from the published %s table "
                 "(differing keys: %s)" % (tname, ", ".join(map(repr, sorted(diff, key=repr)[:6]))))
        return
    if not (is_const(tl["default"]) and tl["default"].v == fallback):
        rep.fail(rule, where, "out[%r]" % key, "fallback for undefined codes is %r, documented fallback is %r" % (
            tl["default"], fallback))
        return
    want_key = key_term(kspec)
    if kspec[0] == "ascii":
        ok = tl["key"] == want_key or tl["key"] == Op("chr", IntF(kspec[1], kspec[2]))
        cex = None
    else:
        # the key may be computed from a wider field by mask/shift: compare as functions of the bytes
        ok, cex = key_equiv(tl["key"], kspec)
    rep.check(ok, rule, "%s[%s] = %s[byte@%d] else %r" % (where, key, tname, kspec[1], fallback), where,
              "out[%r]" % key, "table key is not the coded byte @%d: %r%s" % (
                  kspec[1], tl["key"], (" (differs e.g. for %s)" % cex) if cex else ""))


def key_equiv(term, kspec):
    """term over some wider big-endian field  ==  the byte at kspec offset ?"""
    off, w = kspec[1], kspec[2]
    fs = [as_int_field(x) for x in walk(term) if as_int_field(x) is not None]
    fs = [f for f in fs if is_int(f[0]) and is_int(f[1])]
    if len(set((f[0].v, f[1].v) for f in fs)) != 1:
        return term == IntF(off, w), None
    lo, hi = fs[0][0].v, fs[0][1].v
    if not (lo <= off and off + w <= hi) or fs[0][2] != "big" or fs[0][3]:
        return False, "field %s does not contain byte @%d" % (field_str((fs[0][0], fs[0][1])), off)
    wide = IntF(lo, hi - lo)
    shift = 8 * (hi - (off + w))
    want = binop("bitand", binop("rshift", wide, Const(shift)), Const((1 << (8 * w)) - 1))
    ok, env, n = equivalent(term, want)
    return ok, env_str(env) if env else None


def check_flags(I, rep, rule, where, key, val, off, w, tname):
    items = list_items(I, val)
    want = spec_table(tname)
    flags = IntF(off, w)
    if items is None:
        rep.fail(rule, where, "out[%r]" % key, "action flags are not collected into a list: %r" % (val,))
        return
    seen = {}
    for it in items:
        if it[0] != "v" or not is_const(it[1], str):
            rep.fail(rule, where, "out[%r]" % key, "unexpected list element %r" % (it,))
            return
        seen.setdefault(it[1].v, []).append(it[2])
    for bit, name in sorted(want.items()):
        gs = seen.pop(name, None)
        if not gs:
            rep.fail(rule, where, "out[%r]" % key, "defined action flag 0x%04X (%s) is never reported" % (bit, name))
            continue
        if len(gs) > 1:
            rep.fail(rule, where, "out[%r]" % key, "action flag %s can be reported more than once" % name)
            continue
        ok, env, n = equivalent(ite(gs[0], Const(1), Const(0)),
                                ite(compare("ne", binop("bitand", flags, Const(bit)), Const(0)), Const(1), Const(0)))
        rep.check(ok, rule, "'%s' listed iff bit 0x%04X of bytes[%d:%d] is set" % (name, bit, off, off + w), where,
                  "out[%r]" % key, "'%s' is not reported exactly when bit 0x%04X of the action flags is on (%s)" % (
                      name, bit, env_str(env)))
    for name in seen:
        rep.fail(rule, where, "out[%r]" % key, "name %r is not a defined action flag" % name)


def check_lplist(I, rep, rule, where, key, entries):
    """every target partition id: the value must be a list with one element per
    iteration of a loop over the target count, each the hex of bytes[16+nameLen+2i : +2]"""
    cnt = IntF(11, 1)
    namelen = IntF(10, 1)
    if len(entries) != 1:
        rep.fail(rule, where, "out[%r]" % key, "%d stores under the same key" % len(entries))
        return
    k, v, g, lc = entries[0]
    if lc:
        rep.fail("C02.R5.no-value-dropped", where, "out[%r] = ..." % key,
                 "constant key stored inside a loop over the targets: only the last target partition id survives")
        return
    items = list_items(I, v)
    if items is None:
        rep.fail(rule, where, "out[%r]" % key, "target LP ids are not presented as a list: %r" % (v,))
        return
    if len(items) != 1 or items[0][0] != "rep":
        rep.fail(rule, where, "out[%r]" % key, "expected one list element per target LP, found %r" % (items,))
        return
    _, L, elem, eg = items[0]
    trip_ok = L.trip is not None and equivalent(L.trip, cnt)[0]
    # (an element guard that merely repeats "there is at least one target" - `if count: ids.extend(...)` - drops nothing)
    eg_ok = eg == TRUE or (L.trip is not None and equivalent(pelx.ite(and_(compare("gt", L.trip, Const(0)), not_(eg)), Const(1), Const(0)), Const(0))[0])
    rep.check(trip_ok and eg_ok and not L.breaks, rule, "one list element per target LP (trip count = byte@11)",
              where, "out[%r]" % key, "the list does not get exactly one element per encoded target "
              "(trip=%r guard=%r breaks=%r)" % (L.trip, eg, L.breaks))
    h = hex_render(elem)
    if h is None:
        rep.fail(rule, where, "out[%r]" % key, "element is not a hex rendering: %r" % (elem,))
        return
    ok = h["prefix"] == "0x" and h["upper"] and h["min_digits"] == 4
    # the element may be read through the intermediate targetLPs list: elem(list, i)
    val = h["value"]
    val = resolve_elem(I, val)
    f = as_int_field(val)
    want_lo = add(add(Const(16), namelen), mul(Const(2), L.idx))
    good = False
    if f is not None:
        lo = f[0]
        # name read is conditional on nameLen != 0 -> compare by evaluation
        e1, env, _ = equivalent(subst_idx(lo, L), subst_idx(want_lo, L))
        good = e1 and sub(f[1], f[0]) == Const(2) and f[2] == "big" and f[3] is False
    rep.check(ok and good, rule, "target LP i = 0x%04X of bytes[16+nameLen+2i : +2]", where, "out[%r]" % key,
              "element is not the 16-bit id of the i-th target partition: %r" % (elem,))


def subst_idx(t, L):
    return t


def resolve_elem(I, val):
    """elem(&list, idx) where the list holds one 'rep' item of a loop with the same trip -> that item's term
    re-indexed; getitem(&list, idx) likewise"""
    from ..terms import subst
    if isinstance(val, Op) and val.op in ("elem", "getitem") and isinstance(val.args[0], Ref):
        items = list_items(I, val.args[0])
        if items and len(items) == 1 and items[0][0] == "rep":
            L0 = items[0][1]
            return subst(items[0][2], {L0.idx: val.args[1]})
    return val


def run(rep, prog, thorough):
    rep.explanation = (
        "Abstract interpretation of the five header-type section decoders (callees inlined, DataStream "
        "included) yields for every displayed key the term it is computed from; each term is matched "
        "against the PEL layout spec: byte range, rendering class (numeric / hex width / BCD timestamp / "
        "NUL-stripped text / name table + fallback / flag set / component id), and store discipline "
        "(no constant-key store inside a loop, no key fed from a neighbouring field).")
    nkeys = 0
    for tag, spec in SPEC.items():
        I, st, out, (skey, sref, sg, slc) = run_section(prog, tag, spec)
        where = spec["name"]
        rep.count("section decoders interpreted")
        shared = [e for e in I.events if e.kind == "shared_mutation" and
                  (e.data[0].startswith("class ") or e.data[0].startswith("default argument"))]
        for e in shared:
            rep.fail("C02.R6.per-log-accumulators", e.func, e.node,
                     "decoder accumulates log values in an object shared by all instances (%s, %s): values of an "
                     "earlier section/log are displayed again" % (e.data[0], e.data[1]), node=e.node)
        if not shared:
            rep.ok("C02.R6.per-log-accumulators", "%s: every container the decoder fills is created per instance" % spec["name"])
        ents, order = final_entries(I, sref)
        if None in ents:
            rep.fail("C02.R0.keys", where, "out[<computed>]", "section stores a key that is not a constant: %r" % (
                ents[None][0][0],))
        for key, ks in spec["keys"].items():
            nkeys += 1
            rule = "C02.R1.provenance"
            if key not in ents:
                rep.fail("C02.R5.no-value-dropped", where, "out[%r]" % key,
                         "displayed field %r of the %s is never stored" % (key, where))
                continue
            es = ents[key]
            if ks[0] == "lplist":
                check_lplist(I, rep, rule, where, key, es)
                continue
            if len(es) != 1 or es[0][3]:
                rep.fail("C02.R5.no-value-dropped", where, "out[%r]" % key,
                         "key stored %d time(s)%s: earlier values are overwritten" % (
                             len(es), " inside a loop" if any(e[3] for e in es) else ""))
                continue
            k, val, g, lc = es[0]
            if g != TRUE:
                rep.fail(rule, where, "out[%r]" % key, "field is displayed only under condition %r" % (g,))
                continue
            kind = ks[0]
            if kind == "num":
                check_num(rep, rule, where, key, val, ks[1], ks[2])
            elif kind == "hex":
                check_hex(rep, rule, where, key, val, ks[1], ks[2], ks[3], ks[4])
            elif kind == "dec":
                check_dec(rep, rule, where, key, val, ks[1], ks[2])
            elif kind == "bcd":
                check_bcd(rep, rule, where, key, val, ks[1])
            elif kind == "text":
                check_text(rep, rule, where, key, val, ks[1], ks[2])
            elif kind == "vtext":
                check_text(rep, rule, where, key, val, ks[1], ks[2])
            elif kind == "table":
                check_table(I, rep, rule, where, key, val, ks[1], ks[2], ks[3])
            elif kind == "flags":
                check_flags(I, rep, rule, where, key, val, ks[1], ks[2], ks[3])
            elif kind == "compid":
                check_compid(I, rep, rule, where, key, val, ks)
        # keys that are not in the spec must not depend on log bytes of this section in a lossy way
        for key in order:
            if key is not None and key not in spec["keys"]:
                rep.note("%s stores an extra key %r (not in spec)" % (where, key))
    check_getDisplayCompID(rep, prog)
    check_tables(rep, prog)
    rep.floor("displayed keys checked", nkeys, 40)
    # a field is displayed as decoded only if the alignment pass leaves keys and values alone (rule shared with C06)
    from .c06 import check_call_sites, check_prettyprint
    check_prettyprint(rep, prog, check_call_sites(rep, prog))


def check_getDisplayCompID(rep, prog, rule="C02.R3.compid"):
    """PHYP: two ASCII characters when both bytes non-zero else %04X; others: %04X or registry name.
    The return summary is an ite tree; it is walked for every combination of its boolean atoms
    and a boundary set of component ids, and the selected alternative must have the spec's shape."""
    import itertools
    I = Interpreter(prog)
    comp = Sym("comp", "int")
    cre = Sym("creatorID")
    r = I.call("pel.peltool.comp_id.getDisplayCompID", [comp, cre])
    where = "getDisplayCompID"
    creators = spec_table("creatorIDs")
    atoms = [a for a in pelx.cond_atoms(r) if a != comp]
    # classify atoms
    def is_creator_tbl(x):
        return isinstance(x, Ref) and pelx.table_of(I, x) == creators
    in_creators = [a for a in atoms if isinstance(a, Op) and a.op == "in" and a.args[0] == cre and is_creator_tbl(a.args[1])]
    name_of = [a for a in atoms if isinstance(a, Op) and a.op == "getitem" and is_creator_tbl(a.args[0]) and a.args[1] == cre]
    # creatorIDs.get(creatorID[, default]): the default stands for a creator that is not in the table
    name_get = [a for a in atoms if isinstance(a, Op) and a.op == "dictget" and is_creator_tbl(a.args[0]) and a.args[1] == cre
                and isinstance(a.args[2], Const) and a.args[2].v != "PHYP"]
    name_of = name_of + name_get
    others = [a for a in atoms if a not in in_creators and a not in name_of]
    if not name_of:
        rep.fail(rule, where, "if creatorID in creatorIDs and creatorIDs[creatorID] == 'PHYP'",
                 "component id display never consults the creator table for the PHYP special case")
        return
    comps = [0x0000, 0x0001, 0x0100, 0x4142, 0x4100, 0x0042, 0xFFFF, 0x2000, 0x00FF, 0xFF00, 0x1234, 0x5A30]
    first = lambda c: (c >> 8) & 0xFF
    n = 0
    bad = None
    for bits in itertools.product([False, True], repeat=len(in_creators) + len(others)):
        for cname in ("PHYP", "BMC") + (("<absent>",) if name_get else ()):
            for c in comps:
                env = {comp: c}
                for a, b in zip(in_creators + others, bits):
                    env[a] = b
                for a in name_of:
                    env[a] = cname if cname != "<absent>" else (a.args[2].v if a in name_get else "BMC")
                try:
                    leaf = pelx.select_leaf(r, env)
                except Exception as e:
                    raise AnalysisError("cannot evaluate getDisplayCompID summary: %r" % (e,))
                n += 1
                is_phyp = cname == "PHYP" and all(env[a] for a in in_creators)
                h = hex_render(leaf)
                is_hex4 = h is not None and h["value"] == comp and h["min_digits"] == 4 and h["upper"] and h["prefix"] == ""
                if is_phyp:
                    # by evaluation first: the selected alternative is a function of the component id alone
                    want_txt = (chr(first(c)) + chr(c & 0xFF)) if first(c) != 0 and (c & 0xFF) != 0 else "%04X" % c
                    try:
                        # (atoms that are functions of the component id are computed; only the ones about the registry
                        # state keep the value chosen for this row)
                        env_h = pelx.with_heap(I, {k_: v_ for k_, v_ in env.items() if k_ not in others})
                        for a_ in others:
                            try:
                                pelx.evaluate(a_, env_h)
                            except Exception:
                                env_h[a_] = env[a_]
                        got_txt = pelx.evaluate(r, env_h)
                    except Exception:
                        got_txt = None
                    if got_txt is not None:
                        if got_txt != want_txt:
                            bad = bad or ("PHYP component 0x%04X should be shown as %r, summary gives %r" % (c, want_txt, got_txt))
                        continue
                    if first(c) != 0 and (c & 0xFF) != 0:
                        okk = False
                        if isinstance(leaf, Op) and leaf.op == "concat" and len(leaf.args) == 2 and \
                                all(isinstance(a, Op) and a.op == "chr" for a in leaf.args):
                            try:
                                okk = (pelx.evaluate(leaf.args[0].args[0], env) == first(c) and
                                       pelx.evaluate(leaf.args[1].args[0], env) == (c & 0xFF))
                            except Exception:
                                okk = False
                        if not okk:
                            bad = bad or ("PHYP component 0x%04X should be shown as its two ASCII characters, summary gives %r" % (c, leaf))
                    elif not is_hex4:
                        bad = bad or ("PHYP component 0x%04X (a zero byte) should be shown as %%04X, summary gives %r" % (c, leaf))
                else:
                    is_reg = False
                    if isinstance(leaf, Op) and leaf.op == "getitem":
                        kh = hex_render(leaf.args[1])
                        is_reg = kh is not None and kh["value"] == comp and kh["min_digits"] == 4 and kh["upper"]
                    if not (is_hex4 or is_reg):
                        bad = bad or ("creator %s component 0x%04X should be shown as %%04X or its registry name, summary gives %r" % (cname, c, leaf))
    rep.count("getDisplayCompID decision rows", n)
    rep.check(bad is None, rule, "getDisplayCompID: PHYP -> 2 ASCII chars (both bytes non-zero) else %04X; "
              "others -> registry name or %04X (all atom combinations x boundary ids)", where, "return ...", bad)


def check_tables(rep, prog):
    """E9: the published tables are unchanged and action-flag keys are distinct single bits"""
    I = Interpreter(prog)
    for name in ("creatorIDs", "subsystemValues", "eventScopeValues", "eventTypeValues", "severityValues",
                 "actionFlagsValues", "transmissionStates"):
        t = pelx.table_of(I, I.global_value("pel.peltool.pel_values", name))
        want = spec_table(name)
        if t is None:
            raise AnalysisError("pel_values.%s is not a constant table any more" % name)
        diff = sorted((k for k in set(want) | set(t) if want.get(k) != t.get(k)), key=repr)
        rep.check(not diff, "C02.R4.tables", "pel_values.%s equals the published table (%d entries)" % (name, len(want)),
                  "pel_values." + name, name + " = {...}",
                  "table %s differs from the published one at keys %s" % (name, ", ".join(
                      (hex(k) if isinstance(k, int) else repr(k)) for k in diff[:8])))
    af = spec_table("actionFlagsValues")
    rep.check(all(k and (k & (k - 1)) == 0 for k in af), "C02.R4.tables", "action flag keys are single bits",
              "spec", "actionFlagsValues", "spec error")
    # a field that is encoded with length 0 (an empty symptom id / partition name) is still a field: the decoder may not trip
    # over the stream's refusal of zero-length reads and lose the whole section (rule shared with C01)
    from .c01 import check_full_decode_accepts
    check_full_decode_accepts(rep, prog, "C02.R5.no-value-dropped")
