"""C07 - PEL selection follows the documented class/severity/--only rules.

The decision procedure is summarised by abstract interpretation into one boolean
term over named atoms; its complete truth table is compared with an independently
written formula of the documented rule (exhaustive over the abstract space)."""
import itertools
import os

from ..core import AnalysisError
from ..interp import Interpreter, Instance
from ..terms import (Const, Sym, Op, Ite, Ref, TRUE, FALSE, NONE, is_int, is_const, add, sub, mul, walk, ite, compare,
                     and_, or_, not_, binop, subst, evaluate, CannotEval)
from .. import pelx
from ..pelx import equivalent, env_str, table_of, list_items
from ..pelx import implies
from ..cli import Cli, PT, ARGS
from .c02 import spec_table

CFG_BOOLS = ["every_pel", "critSysTerm", "serviceable", "non_serviceable", "hidden", "only"]
LOOKUPS = ["plid", "src", "bmcID", "pelID"]


def mk_uh(I, prog):
    ci = prog.cls("pel.peltool.user_header.UserHeader")
    o = Instance(ci, ())
    o.attrs["eventSeverity"] = Sym("sev", "int")
    o.attrs["actionFlags"] = Sym("af", "int")
    return I.alloc(o)


def mk_cfg(I, prog, severities):
    ci = prog.cls("pel.peltool.config.Config")
    o = Instance(ci, ())
    for b in CFG_BOOLS:
        o.attrs[b] = Sym("cfg." + b, "exc")
    for l in LOOKUPS:
        o.attrs[l] = Sym("cfg." + l, "exc")
    o.attrs["severities"] = severities
    o.attrs["allow_plugins"] = Const(True)
    return I.alloc(o)


def spec_select(c, sev, af, sevs_chosen, sev_match):
    """the documented rule; returns True / False / None (unconstrained)"""
    hidden = bool(af & 0x4000)
    serviceable = (sev != 0x00 and bool(af & 0x2000) and not hidden) or (sev == 0x00 and bool(af & 0x8000))
    term = sev == 0x51
    lookup = c["plid"] or c["src"] or c["bmcID"] or c["pelID"]
    class_chosen = c["serviceable"] or c["non_serviceable"] or c["hidden"]
    in_class = (c["serviceable"] and serviceable) or (c["non_serviceable"] and not serviceable) or (c["hidden"] and hidden)
    any_sel = class_chosen or c["critSysTerm"] or sevs_chosen or c["only"] or c["every_pel"]
    if lookup and not any_sel:
        return True
    if lookup:
        return None           # the statement only speaks about look-ups without selection options
    if c["every_pel"]:
        return True
    if not c["only"]:
        default = serviceable and not hidden
        return bool(default or in_class or (c["critSysTerm"] and term) or (sevs_chosen and sev_match))
    if c["critSysTerm"] and term:
        return True
    return bool((class_chosen or sevs_chosen) and (not class_chosen or in_class) and (not sevs_chosen or sev_match))


def check_decision_table(rep, prog, thorough):
    I = Interpreter(prog, hooks={"opaque": {PT + "considerPELIfSeverityMatches"}})
    sevs = Sym("cfg.severities")
    uh = mk_uh(I, prog)
    cfg = mk_cfg(I, prog, sevs)
    r = I.call(PT + "considerPEL", [uh, cfg])
    where = "considerPEL"
    sev, af = Sym("sev", "int"), Sym("af", "int")
    match_calls = [e for e in I.events if e.kind == "opaquecall"]
    for e in match_calls:
        a = e.data[1]
        rep.check(a[0] == uh and a[1] == cfg, "C07.R1.decision-table", "severity matcher is called on the same header and config",
                  where, e.node, "severity match evaluated on other objects than the PEL's header / the options", node=e.node)
    match_terms = {x for x in walk(r) if isinstance(x, Op) and x.op.startswith("call:" + PT + "considerPELIfSeverityMatches")}
    sevs_truth = Op("truthy", sevs)
    others = [l for l in pelx.opaque_leaves(r)]
    known = {Sym("cfg." + b, "exc") for b in CFG_BOOLS + LOOKUPS} | {sev, af, sevs, sevs_truth} | match_terms
    unknown = [l for l in others if l not in known]
    if unknown:
        raise AnalysisError("considerPEL depends on atoms the checker does not know: %s" % [repr(u)[:80] for u in unknown[:4]])
    sev_vals = [0x00, 0x01, 0x10, 0x20, 0x40, 0x50, 0x51, 0x52, 0x61, 0x71, 0xFF]
    af_vals = [a | b | c for a in (0, 0x8000) for b in (0, 0x4000) for c in (0, 0x2000)] + [0x1FFF, 0xFFFF]
    rows = 0
    bad = None
    nbad = 0
    for bits in itertools.product([False, True], repeat=len(CFG_BOOLS)):
        c = dict(zip(CFG_BOOLS, bits))
        for lk in [None] + LOOKUPS:
            for l in LOOKUPS:
                c[l] = (l == lk)
            for sevs_chosen, sev_match in ((False, False), (True, False), (True, True)):
                for sv in sev_vals:
                    for afv in af_vals:
                        env = {Sym("cfg." + k, "exc"): v for k, v in c.items()}
                        env[sev] = sv
                        env[af] = afv
                        env[sevs] = [1] if sevs_chosen else []
                        env[sevs_truth] = sevs_chosen
                        for m in match_terms:
                            env[m] = sev_match
                        try:
                            got = bool(evaluate(r, env))
                        except CannotEval as e:
                            raise AnalysisError("considerPEL summary not evaluable: %s" % e)
                        want = spec_select(c, sv, afv, sevs_chosen, sev_match)
                        rows += 1
                        if want is not None and got != want:
                            nbad += 1
                            if bad is None:
                                opts = [k for k, v in c.items() if v] + (["severities"] if sevs_chosen else [])
                                bad = ("options %s, severity 0x%02X, action flags 0x%04X, severity group %s: code selects=%s, "
                                       "documented rule says %s" % (opts or ["<none>"], sv, afv,
                                                                    "matches" if sev_match else "does not match", got, want))
    rep.count("decision table rows", rows)
    rep.exhaustive = True
    rep.check(bad is None, "C07.R1.decision-table",
              "considerPEL == documented rule on all %d rows (6 switches x look-ups x severity-option states x severity "
              "classes x flag classes)" % rows, where, "considerPEL",
              "%s (%d differing rows)" % (bad, nbad))


def check_severity_match(rep, prog):
    """membership: a PEL is in a chosen group iff the high nibble of its severity byte equals the group digit"""
    I = Interpreter(prog)
    uh = mk_uh(I, prog)
    sevs = Sym("cfg.severities")
    cfg = mk_cfg(I, prog, sevs)
    r = I.call(PT + "considerPELIfSeverityMatches", [uh, cfg])
    where = "considerPELIfSeverityMatches"
    sev = Sym("sev", "int")
    loops = list(I.loops.values())
    cond = None
    if isinstance(r, Op) and r.op == "exists" and len(loops) == 1 and loops[0].iter == sevs and r.args[0] == Const(loops[0].lid) \
            and all(implies(s_, r.args[1])[0] for s_ in loops[0].stops):     # (a lazy any() ends at the first match)
        # any(<test> for g in config.severities)
        cond = r.args[1]
        el = Op("elem", sevs, loops[0].idx)
        rep.ok("C07.R3.severity-group", "true iff some chosen group matches, false otherwise (any(...) over the chosen groups)")
    elif len(loops) == 1 and loops[0].iter == sevs:
        L = loops[0]
        ex = [x for x in walk(r) if isinstance(x, Op) and x.op == "exists" and x.args[0] == Const(L.lid)]
        if ex and isinstance(r, Ite):
            cond = ex[0].args[1]
            el = Op("elem", sevs, L.idx)
            shape = (r.a == Op("loopret", Const(L.lid), TRUE) or r.a == TRUE) and r.b == FALSE and not L.breaks
            rep.check(shape, "C07.R3.severity-group", "true iff some chosen group matches, false otherwise", where, L.node,
                      "severity matcher is not 'any chosen group matches': %r" % (r,), node=L.node)
    elif isinstance(r, Op) and r.op in ("in", "notin"):
        # membership form:  (sev >> 4) in config.severities
        if r.op == "in" and r.args[1] == sevs:
            cond = compare("eq", r.args[0], Sym("g", "int"))
            el = Sym("g", "int")
    if cond is None:
        raise AnalysisError("severity group matching idiom not recognised: %r" % (r,))
    bad = None
    n = 0
    for sv in range(256):
        for g in range(16):
            try:
                got = bool(evaluate(cond, {sev: sv, el: g}))
            except CannotEval as e:
                bad = "membership test is not an arithmetic comparison of the severity byte and the group digit (%s)" % e
                break
            n += 1
            if got != ((sv >> 4) == g):
                bad = "severity byte 0x%02X vs group digit %d: code says %s, high hex digit rule says %s" % (sv, g, got, (sv >> 4) == g)
                break
        if bad:
            break
    rep.count("severity x group pairs", n)
    rep.check(bad is None, "C07.R3.severity-group", "group membership == (severity byte >> 4) == group digit for all 256 x 16 pairs",
              where, "for sev in config.severities: if ...", bad)


def check_classifiers(rep, prog):
    I = Interpreter(prog)
    uh = mk_uh(I, prog)
    sev, af = Sym("sev", "int"), Sym("af", "int")
    h = I.truth(I.method(uh, "isHidden"))
    s = I.truth(I.method(uh, "isServiceable"))
    e, env, n = equivalent(ite(h, Const(1), Const(0)), ite(compare("ne", binop("bitand", af, Const(0x4000)), Const(0)), Const(1), Const(0)))
    rep.check(e, "C07.R2.atoms", "hidden iff action flag 0x4000", "UserHeader.isHidden", "return self.actionFlags & ...",
              "isHidden is not 'not-customer-viewable flag 0x4000 set' (%s)" % env_str(env))
    bad = None
    for sv in (0x00, 0x01, 0x10, 0x40, 0x51, 0xFF):
        for afv in range(0, 0x10000, 0x0800):
            for extra in (0, 0x07FF):
                a = afv | extra
                got = bool(evaluate(s, {sev: sv, af: a}))
                want = (sv != 0 and bool(a & 0x2000) and not (a & 0x4000)) or (sv == 0 and bool(a & 0x8000))
                if got != want and bad is None:
                    bad = "severity 0x%02X flags 0x%04X: isServiceable=%s, documented=%s" % (sv, a, got, want)
    rep.check(bad is None, "C07.R2.atoms", "serviceable iff (non-informational, report 0x2000, not hidden) or (informational, service action 0x8000)",
              "UserHeader.isServiceable", "isServiceable", bad)
    # the classifiers are total: no value of the action flags / severity makes them raise (a conversion to an enum / flag
    # class that refuses undefined bits would make the whole PEL unselectable)
    from .c12 import tries_covering
    rs = [x for x in I.events if x.kind == "raise" and x.guard != FALSE and not tries_covering(I.events, x) and not pelx.unsat(x.guard)[0]]
    rep.check(not rs, "C07.R2.atoms", "isHidden / isServiceable are defined for every action flag word and severity byte", rs[0].func if rs else "UserHeader",
              rs[0].node if rs else "isHidden", "the classifier raises %s when %s: such a PEL cannot be selected by any option" % (
                  repr(rs[0].data[0])[:80] if rs else "", repr(rs[0].guard)[:160] if rs else ""), node=rs[0].node if rs else None)


def check_lookups_recorded(rep, cli, by_attr, rule):
    """look-up ids are stored in the Config before their mode runs, and dispatch implies the stored id is truthy"""
    # look-up atoms are set before their mode runs, from the matching option
    for attr, dest_opt, fn in (("pelID", "-i", "parsePelFromID"), ("bmcID", "--bmc-id", "parsePelFromBmcID"),
                               ("plid", "--plid", "parsePelFromPLID"), ("src", "--src", "parsePelFromSRCID")):
        dest = cli.options.get(dest_opt)
        sts = by_attr.get(attr, [])
        calls = [m for m in cli.mode_calls() if m[0] == fn and dest in cli.atoms(m[2])]
        ok = dest is not None and len(sts) == 1 and sts[0][0] == cli.arg(dest) and dest in cli.atoms(sts[0][1]) and \
            calls and all(sts[0][2].seq < c[3].seq and c[1][-1] == cli.config for c in calls)
        rep.check(ok, rule, "%s stores its value in Config.%s before %s(…, config) runs" % (dest_opt, attr, fn), "main",
                  "config.%s = args.%s" % (attr, dest), "look-up %s does not record its id in Config.%s before running %s with that "
                  "config: considerPEL cannot recognise the look-up" % (dest_opt, attr, fn))
        # considerPEL recognises a look-up by the truth value of the stored id: whenever the mode is dispatched, that value
        # must be true (an id that is falsy, e.g. 0 of an integer-typed option, would be filtered like an ordinary listing)
        if ok:
            # (a call dispatched for another option, under 'not this option', is that option's business)
            okt = all(pelx.implies(c[2], sts[0][0])[0] for c in calls if not pelx.implies(c[2], pelx.not_(sts[0][0]))[0])
            rep.check(okt, rule, "%s: whenever %s is dispatched the stored id is truthy (the filter sees a look-up)" % (dest_opt, fn),
                      "main", "if args.%s:" % dest, "look-up %s is dispatched under a condition that does not make Config.%s truthy (e.g. "
                      "'is not None' with an id of 0): considerPEL treats that look-up as an ordinary selection and hidden / "
                      "non-serviceable PELs are not found" % (dest_opt, attr))


def check_options(rep, prog):
    cli = Cli(prog)
    want = {"-E": ("every_pel", True), "-s": ("serviceable", True), "-N": ("non_serviceable", True), "-H": ("hidden", True),
            "-t": ("critSysTerm", True), "-O": ("only", True)}
    long_names = {"-E": "--every-pel", "-s": "--serviceable", "-N": "--non-serviceable", "-H": "--hidden",
                  "-t": "--termination", "-O": "--only", "-S": "--severities"}
    stores = cli.config_stores()
    by_attr = {}
    for attr, val, g, e in stores:
        by_attr.setdefault(attr, []).append((val, g, e))
    for opt, (attr, val) in want.items():
        dest = cli.options.get(opt)
        ok = dest is not None and cli.options.get(long_names[opt]) == dest
        sts = by_attr.get(attr, [])
        # `if args.x: config.x = True`  or  `config.x = bool(args.x)` (Config starts with False): either way the attribute is
        # True exactly under the switch
        ok = ok and len(sts) == 1 and ((sts[0][0] == Const(True) and sts[0][1] == cli.arg(dest)) or
                                       (sts[0][1] == TRUE and sts[0][0] == Op("truthy", cli.arg(dest))))
        rep.check(ok, "C07.R4.options", "%s/%s sets exactly Config.%s" % (opt, long_names[opt], attr), "main", "config.%s = True" % attr,
                  "switch %s (dest %r) does not set Config.%s = True under exactly that switch: %s" % (
                      opt, dest, attr, [(repr(v), repr(g)[:60]) for v, g, e in sts]))
        # no other option writes this attribute, and this option writes nothing else
        for a2, sts2 in by_attr.items():
            if a2 != attr and dest is not None:
                for v, g, e in sts2:
                    if dest in cli.atoms(g) and a2 in [w[0] for w in want.values()]:
                        rep.fail("C07.R4.options", "main", e.node, "switch %s also drives Config.%s" % (opt, a2), node=e.node)
    # severities: extended from the table value of each chosen name
    I = cli.I
    sdest = cli.options.get("-S")
    sev_list = I.obj(cli.config).attrs.get("severities") if cli.config is not None else None
    ext = [e for e in cli.events if e.kind == "extend" and e.data[0] == sev_list]
    guarded = sdest is not None and len(ext) == 1 and cli.norm(e_guard(ext[0])) == cli.arg(sdest)
    # `if args.s: extend(table[x] for x in args.s)`  or, unconditionally,  `extend(table[x] for x in args.s or ())`
    ok = guarded or (sdest is not None and len(ext) == 1 and cli.norm(e_guard(ext[0])) == TRUE)
    if os.environ.get("DBG_C07") and ext:
        print("DBG", repr(cli.norm(e_guard(ext[0])))[:200], [repr(cli.norm(i[1].iter))[:300] for i in (list_items(I, ext[0].data[1]) or []) if i[0] == "rep"])
    if ok:
        items = list_items(I, ext[0].data[1])
        ok = items is not None and len(items) == 1 and items[0][0] == "rep"
        if ok:
            L, term = items[0][1], cli.norm(items[0][2])
            tl = term if isinstance(term, Op) and term.op == "getitem" else None
            ok = tl is not None and table_of(I, tl.args[0]) == spec_table("severityGroupValues") and \
                _sev_iter_ok(cli, L, sdest, guarded) and tl.args[1] == Op("elem", cli.norm(L.iter), L.idx) and not L.breaks
        cfgo = I.obj(cli.config)
        ok = ok and ext[0].data[0] == cfgo.attrs.get("severities")
    rep.check(ok, "C07.R4.options", "-S adds severityGroupValues[name] for every chosen name to Config.severities", "main",
              "config.severities.extend(...)", "-S/--severities is not mapped through the severity group table into Config.severities")
    tbl = table_of(I, I.global_value("pel.peltool.pel_values", "severityGroupValues"))
    rep.check(tbl == spec_table("severityGroupValues"), "C07.R4.options",
              "severityGroupValues = {Informational 0, Recovered 1, Predictive 2, Unrecoverable 4, Critical 5, Diagnostic 6, Symptom 7}",
              "pel_values.severityGroupValues", "severityGroupValues = {...}", "severity group digits differ from the documented ones: %r" % (tbl,))
    ch = cli.option_kw.get("-S", {}).get("choices")
    chl = list_items(I, ch) if ch is not None else None
    rep.check(chl is not None and [i[1] for i in chl] == [Const(k) for k in spec_table("severityGroupValues")], "C07.R4.options",
              "-S accepts exactly the seven documented group names", "main", "choices=...", "choices of -S differ from the documented groups")
    check_lookups_recorded(rep, cli, by_attr, "C07.R4.options")
    # the terminating-severity constant
    sv = I.get_attr(I.get_attr(I.global_value("pel.peltool.pel_types", "SeverityValues"), "critSysTermSeverity"), "value")
    rep.check(sv == Const(0x51), "C07.R2.atoms", "terminating severity constant = 0x51", "pel_types.SeverityValues", "critSysTermSeverity",
              "critSysTermSeverity is %r" % (sv,))


def _sev_iter_ok(cli, L, sdest, guarded):
    a = cli.arg(sdest)
    it = cli.norm(L.iter)
    if guarded:
        return it == a
    # not guarded by the option: the names iterated are the option's value, or nothing when it was not given
    return isinstance(it, Ite) and it.c in (a, Op("truthy", a)) and it.a == a and it.b in (Const(()), Const([]), NONE) and it.b != NONE


def e_guard(e):
    return e.guard


def run(rep, prog, thorough):
    rep.explanation = (
        "considerPEL (helpers inlined) is summarised into one boolean term; every row of its abstract decision space "
        "is evaluated and compared with the documented rule written independently; the severity-group membership test is "
        "compared with the high-hex-digit rule for all 256 severity bytes x 16 digits; isHidden/isServiceable over all "
        "flag classes; the argparse destination -> Config attribute mapping is read off main()'s interpretation.")
    check_decision_table(rep, prog, thorough)
    check_severity_match(rep, prog)
    check_classifiers(rep, prog)
    check_options(rep, prog)
    rep.floor("decision table rows", rep.analysed.get("decision table rows", 0), 50000)
