"""C17 - an I/O drawer dump is split into ILOG and trace regions that partition it."""
from ..core import AnalysisError
from ..interp import Interpreter, Instance, ListObj
from ..terms import (Const, Sym, Op, Ite, Ref, TRUE, FALSE, NONE, Undef, walk, and_, or_, not_, is_const, is_int, subst, compare,
                     add, sub, mul, evaluate, CannotEval)
from .. import pelx
from ..pelx import implies, env_str, unsat, DATA, list_items, equivalent, flat_parts

DQ = "io_drawer.dump."
START = b"\x02\x20\x01\x42"
NAMES = ["IICS", "IICM", "POWR", "FANS", "INFO", "ERRL"]


def check_split(rep, prog):
    rule = "C17.R2.partition"
    I = Interpreter(prog, hooks={"opaque": {DQ + "_format_ilog_data", DQ + "_format_trace_data"}})
    hf, sf = Sym("header_file"), Sym("string_file")
    r = I.call(DQ + "parse_dump_data", [DATA, hf, sf])
    where = "parse_dump_data"
    il = [e for e in I.events if e.kind == "opaquecall" and e.data[0] == DQ + "_format_ilog_data"]
    tr = [e for e in I.events if e.kind == "opaquecall" and e.data[0] == DQ + "_format_trace_data"]
    if len(il) != 1 or len(tr) != 1 or not tr[0].loops:
        raise AnalysisError("parse_dump_data no longer formats one ILOG region and a loop of trace regions through _format_ilog_data / "
                            "_format_trace_data: region idiom not recognised")
    # ---- which decoder a region gets is decided by its position (first region = ILOG, the others = trace buffers),
    # never by looking at the region's bytes
    def content_atoms(g):
        return [c for c in (g.args if isinstance(g, Op) and g.op == "and" else [g])
                if any(isinstance(x, Op) and x.op in ("getslice", "getitem", "m:startswith", "m:tobytes", "elem") and
                       any(y == DATA for y in walk(x)) for x in walk(c))
                and not any(isinstance(x, Op) and x.op in ("m:find", "sorted") for x in walk(c))]
    byc = content_atoms(il[0].guard) + content_atoms(tr[0].guard)
    rep.check(not byc, "C17.R3.region-decoders", "the ILOG / trace decoder of a region is chosen by the region's position, not by its bytes", where,
              il[0].node, "a region's decoder is chosen by inspecting its bytes (%s): ILOG data that happens to begin like a trace buffer header "
              "is handed to the trace decoder" % (repr(byc[0])[:120] if byc else ""), node=il[0].node)
    if byc:
        return
    # ---- search keys and offsets list
    finds = [e for e in I.events if e.kind == "methcall" and e.data[1] in ("find", "rfind", "index")]
    keys = [e.data[2][0].v for e in finds if e.data[2] and is_const(e.data[2][0], bytes)]
    okk = sorted(keys) == sorted(START + n.encode() for n in NAMES) and all(e.data[1] == "find" and len(e.data[2]) == 1 for e in finds) and \
        all(e.data[0] in (DATA, Op("m:tobytes", DATA)) for e in finds)
    rep.check(okk, "C17.R1.header-search", "the whole buffer is searched (find = first occurrence) for 02 20 01 42 + each of the six buffer names", where,
              "data_bytes.find(start_bytes)", "trace buffer headers are not located by find() of the 4-byte header start followed by one of "
              "IICS/IICM/POWR/FANS/INFO/ERRL on the whole dump: %s" % [(e.data[1], repr(e.data[2])[:40]) for e in finds])
    srt = [e for e in I.events if e.kind == "sorted"]
    oks = len(srt) == 1 and not srt[0].data[1]
    offs = srt[0].data[0] if oks else None
    items = list_items(I, offs) if offs is not None else None
    bad = None
    if not oks or items is None:
        bad = "the offsets are not sorted by one plain sorted()/sort() call"
    else:
        if len(items) != len(finds):
            bad = "%d offsets collected from %d searches" % (len(items), len(finds))
        for it, f in zip(items, finds):
            val = Op("m:find", f.data[0], f.data[2][0])
            if it[0] != "v" or it[1] != val:
                bad = bad or "an element of the offset list is %r, not the position returned by the search" % (it[1],)
                continue
            for pos in (-1, 0, 1, 5, 100):
                try:
                    got = bool(evaluate(it[2], {val: pos, DATA: b"x", Op("truthy", DATA): True}))
                except CannotEval as e:
                    raise AnalysisError("offset filter not evaluable: %s" % e)
                if got != (pos != -1):
                    bad = bad or "a header found at offset %d is %s" % (pos, "kept" if got else "ignored (e.g. a dump that starts with a trace buffer)")
    rep.check(bad is None, "C17.R1.header-search", "every header that was found (offset != -1, offset 0 included) is recorded; offsets sorted ascending",
              where, "if offset != -1: buffer_offsets.append(offset)", bad)
    if bad is not None or offs is None:
        return
    # ---- region bounds by evaluation over offset configurations
    S = Op("sorted", offs)
    ilog_slice = il[0].data[1][0]
    tr_slice = tr[0].data[1][0]
    L = tr[0].loops[-1]
    # (the regions may be cut with index arithmetic, itertools.pairwise over the boundaries, ...: what counts is which bytes
    # each formatter receives - the summary is run on a dump whose bytes are all different)
    bad = None
    n = 0
    size = 200
    buf = bytes(range(size))

    def region(t, env):
        v = evaluate(t, env)
        if isinstance(v, memoryview):
            v = v.tobytes()
        if not isinstance(v, (bytes, bytearray)):
            raise CannotEval("region value %r" % (v,))
        return bytes(v)

    def show(bs):
        return "[%d:%d]" % (bs[0], bs[-1] + 1) if bs else "[empty]"
    for cfg in ([], [0], [7], [199], [0, 50], [7, 50, 120], [0, 1, 2, 3, 4, 5], [10, 20, 30, 40, 50, 196]):
        env = pelx.with_heap(I, {S: cfg, DATA: buf, Op("len", DATA): size, Op("len", S): len(cfg), Op("truthy", S): bool(cfg), Op("truthy", DATA): True})
        try:
            got = region(ilog_slice, env)
        except CannotEval as e:
            raise AnalysisError("ILOG region not evaluable: %s" % e)
        n += 1
        want = (0, cfg[0] if cfg else size)
        if got != buf[want[0]:want[1]]:
            bad = bad or "trace headers at %s: ILOG region is %s, expected [%d:%d]" % (cfg, show(got), want[0], want[1])
        try:
            trip = evaluate(L.trip, env)
        except CannotEval as e:
            raise AnalysisError("trace loop trip count not evaluable: %s" % e)
        if trip != len(cfg):
            bad = bad or "trace headers at %s: %s trace regions are formatted" % (cfg, trip)
        for i in range(len(cfg)):
            env2 = dict(env)
            env2[L.idx] = i
            try:
                got = region(tr_slice, env2)
            except CannotEval as e:
                raise AnalysisError("trace region not evaluable: %s" % e)
            n += 1
            want = (cfg[i], cfg[i + 1] if i + 1 < len(cfg) else size)
            if got != buf[want[0]:want[1]]:
                bad = bad or "trace headers at %s: region %d is %s, expected [%d:%d]" % (cfg, i, show(got), want[0], want[1])
    rep.count("region bound evaluations", n)
    rep.check(bad is None, rule, "ILOG = [0, first header), trace i = [header i, header i+1 or end): regions cover every byte once, in address order",
              where, "data[begin:end]", bad)
    rep.check(il[0].seq < tr[0].seq and not il[0].loops and not L.breaks, rule, "ILOG region is reported first, then the trace regions in ascending offset order",
              where, "_format_ilog_data / _format_trace_data", "regions are not emitted ILOG first, then traces in order")
    # ---- each formatter gets (its slice, the shared line list, the right definition file)
    lines = il[0].data[1][1]

    def returns_lines(t, conds):
        if isinstance(t, Ite):
            return returns_lines(t.a, conds + [t.c]) and returns_lines(t.b, conds + [not_(t.c)])
        if t == lines:
            return True
        # the early exit for an empty dump may return its own (empty) list
        o_ = I.heap.get(t.oid) if isinstance(t, Ref) else None
        return isinstance(o_, ListObj) and not o_.items and any(c in (not_(DATA), not_(Op("truthy", DATA)), compare("eq", Op("len", DATA), Const(0)))
                                                                 for c in conds)
    rep.check(il[0].data[1][2] == hf and tr[0].data[1][2] == sf and tr[0].data[1][1] == lines and returns_lines(r, []), "C17.R3.region-decoders",
              "ILOG region gets the header file, trace regions get the string file, all append to the returned list", where, "_format_*_data(...)",
              "header file / string file are swapped or results go to different lists")
    # ---- empty input: nothing at all
    rets = [e for e in I.events if e.kind == "return" and e.func == DQ + "parse_dump_data"]
    first = rets[0] if rets else None
    oke = first is not None and first.guard == not_(DATA) and il[0].seq > first.seq and list_items(I, first.data[0]) is not None
    rep.check(oke, "C17.R4.empty-and-files", "empty input returns [] before any heading", where, "if not data: return lines", "empty input does not yield an empty output")


def check_formatters(rep, prog):
    rule = "C17.R3.region-decoders"
    for fn, dec, head, extra in (("_format_ilog_data", "io_drawer.ilog.parse_ilog_data", "ILOG", "header_file"),
                                 ("_format_trace_data", "io_drawer.trace.parse_trace_data", "Trace", "string_file")):
        I = Interpreter(prog, hooks={"opaque": {"io_drawer.ilog.parse_ilog_data", "io_drawer.trace.parse_trace_data"}})
        reg, f = Sym("region"), Sym(extra)
        lines = I.mk_list([])
        I.call(DQ + fn, [reg, lines, f])
        items = list_items(I, lines)
        call = Op("call:" + dec, reg, f)
        div = I.global_value("io_drawer.dump", "DIVIDER_LINE")
        want = [Const(head), Const(""), Op("splat", call), Const(""), div, Const("")]
        got = [it[1] for it in items if it[0] == "v"]
        ok = got == want and all(it[2] == TRUE for it in items) and is_const(div, str) and set(div.v) == {"-"}
        rep.check(ok, rule, "%s = heading '%s', blank, the stand-alone decoder's lines for exactly that region, blank, divider, blank" % (fn, head), DQ + fn,
                  "lines.extend(%s(data, %s))" % (dec.split(".")[-1], extra), "region is not decoded by the stand-alone %s decoder on exactly its bytes "
                  "with the given definition file (or framing lines differ): %r" % (head, got))


def check_file(rep, prog):
    rule = "C17.R4.empty-and-files"
    I = Interpreter(prog, hooks={"opaque": {DQ + "parse_dump_data", "pel.hexdump.parse"}})
    df, hf, sf = Sym("dump_file"), Sym("header_file"), Sym("string_file")
    r = I.call(DQ + "parse_dump_file", [df, hf, sf])
    fm = I.global_value("io_drawer.dump", "HEX_DUMP_LINE_FORMATS")
    fmts = [i[1] for i in (list_items(I, fm) or [])]
    okf = len(fmts) == 2 and all(is_const(x, str) for x in fmts) and fmts[0].v.count("D") == 32 and fmts[1].v.count("D") == 32 and \
        fmts[0].v.startswith("AAAA:") and fmts[0].v.count("C") == 16 and fmts[1].v.count("C") == 16 and fmts[1].v.startswith("DD DD")
    rep.check(okf, rule, "two supported hex line formats, 16 data bytes per line each", "io_drawer.dump", "HEX_DUMP_LINE_FORMATS",
              "the supported dump line formats changed: %r" % (fmts,))
    ps = [e for e in I.events if e.kind == "opaquecall" and e.data[0] == "pel.hexdump.parse"]
    lines = Op("m:readlines", Op("file", df, Const("r")))
    okp = [tuple(e.data[1]) for e in ps] == [(lines, f) for f in fmts]
    pd0 = [e for e in I.events if e.kind == "opaquecall" and e.data[0] == DQ + "parse_dump_data"]
    if okp and len(ps) == 2 and pd0:
        # which parse result is decoded: by evaluation over the empty / non-empty combinations (whether the second format is
        # tried eagerly or only after the first came back empty, and whether the decode call sits after the loop or inside it,
        # makes no difference: parsing has no side effect)
        first, second = (Op("call:pel.hexdump.parse", lines, f) for f in fmts)
        for v1 in (b"", b"\x01\x02"):
            for v2 in (b"", b"\x03"):
                env = {first: bytearray(v1), second: bytearray(v2), Op("truthy", first): bool(v1), Op("truthy", second): bool(v2),
                       Op("len", first): len(v1), Op("len", second): len(v2)}
                try:
                    called = [p_ for p_ in pd0 if bool(evaluate(p_.guard, env))]
                    gots = [evaluate(p_.data[1][0], env) for p_ in called]
                except CannotEval as e:
                    raise AnalysisError("choice of the parsed dump bytes not evaluable: %s" % e)
                gots = [bytes(g_) if isinstance(g_, (bytes, bytearray, memoryview)) else g_ for g_ in gots]
                want = v1 or v2
                if want:
                    okp = okp and len(called) == 1 and gots[0] == want
                else:
                    okp = okp and all(not g_ for g_ in gots)
    rep.check(okp, rule, "formats are tried in order on the file's lines; the first non-empty parse is used", DQ + "parse_dump_file",
              "for line_format in HEX_DUMP_LINE_FORMATS", "dump file is not parsed with each supported format in order (first non-empty wins)")
    pd = pd0
    okd = bool(pd) and all(p_.data[1][1] == hf and p_.data[1][2] == sf and
                           any(isinstance(x, Op) and x.op == "call:pel.hexdump.parse" for x in walk(p_.data[1][0])) for p_ in pd)
    rep.check(okd, rule, "the parsed bytes are decoded by parse_dump_data(bytes, header_file, string_file)", DQ + "parse_dump_file",
              "parse_dump_data(data, header_file, string_file)", "parsed bytes / definition files are not handed to parse_dump_data in order")
    # names constant
    bn = I.class_attr(prog.cls("io_drawer.trace.TraceBufferHeader"), "BUFFER_NAMES")
    names = [i[1].v for i in (list_items(I, bn) or []) if is_const(i[1], str)]
    rep.check(names == NAMES, "C17.R1.header-search", "BUFFER_NAMES = IICS IICM POWR FANS INFO ERRL", "io_drawer.trace.TraceBufferHeader", "BUFFER_NAMES",
              "recognised buffer names changed: %r" % (names,))
    st = I.global_value("io_drawer.dump", "TRACE_BUFFER_HEADER_START")
    rep.check(st == Const(START), "C17.R1.header-search", "header start bytes = 02 20 01 42", "io_drawer.dump", "TRACE_BUFFER_HEADER_START",
              "header start bytes changed: %r" % (st,))


def check_text_formats(rep, prog):
    """'decoding a dump file written in either supported hex format gives the same result as decoding its raw bytes': the
    summary of the text parser is run on sample dumps rendered in both formats (short last lines, comment / blank lines in
    between, excerpts whose address column does not start at 0 or wraps around) and must give back the bytes"""
    rule = "C17.R4.empty-and-files"
    q = "pel.hexdump.parse"
    if not prog.has_func(q):
        raise AnalysisError("anchor %s not found" % q)
    I = Interpreter(prog)
    LINES, FMT = Sym("lines"), Sym("line_format")
    r = I.call(q, [LINES, FMT])
    fm = I.global_value("io_drawer.dump", "HEX_DUMP_LINE_FORMATS")
    fmts = [i[1].v for i in (list_items(I, fm) or []) if is_const(i[1], str)]

    def render(data, f, base, lower):
        out = []
        for off in range(0, len(data), 16):
            hexs = data[off:off + 16].hex()
            hexs = hexs if lower else hexs.upper()
            line, di, ai, addr = "", 0, 0, "%04X" % ((base + off) & 0xFFFF)
            for ch in f:
                if ch == "A":
                    line += addr[ai]
                    ai += 1
                elif ch == "D":
                    if di >= len(hexs):
                        break
                    line += hexs[di]
                    di += 1
                elif ch == "C":
                    line += "."
                else:
                    line += ch
            out.append(line.rstrip() + "\n")
        return out
    bad = None
    n = 0
    for f in fmts:
        for ln in (0, 1, 15, 16, 17, 33, 48):
            data = bytes((i * 37 + 11) % 256 for i in range(ln))
            for base, lower, junk in ((0, False, False), (0, True, True), (0x0100, False, False), (0xFFF0, False, True)):
                if "A" not in f and base:
                    continue
                lines = render(data, f, base, lower)
                if junk:
                    lines = ["# dump taken with the service tool\n", "\n"] + lines[:1] + ["\n", "   \n"] + lines[1:] + ["end of dump\n"]
                env = pelx.with_heap(I, {LINES: lines, FMT: f, Op("len", LINES): len(lines), Op("len", FMT): len(f), Op("truthy", LINES): bool(lines)})
                try:
                    got = evaluate(r, env)
                    got = bytes(got) if isinstance(got, (list, bytes, bytearray)) else got
                except CannotEval as e:
                    raise AnalysisError("text dump parser summary not evaluable: %s" % e)
                except Exception as e:
                    got = "<raises %s: %s>" % (type(e).__name__, e)
                n += 1
                if got != data and bad is None:
                    bad = "%d bytes rendered as %r%s%s: parsed back as %s" % (
                        ln, f[:24] + "...", " with the address column starting at 0x%04X" % base if base else "",
                        " between comment / blank lines" if junk else "", got.hex() if isinstance(got, bytes) else got)
    rep.count("text dump samples parsed", n)
    rep.check(bad is None and n >= 30, rule, "a dump rendered in either supported text format parses back to exactly its bytes (address column "
              "ignored, short last line, other lines skipped)", q, "parse(lines, line_format)", bad or "only %d samples" % n)


def check_cli_output(rep, prog):
    """the dump CLI prints exactly the lines it got: one print per line, hence nothing at all for an empty result"""
    rule = "C17.R4.empty-and-files"
    q = DQ + "main"
    if not prog.has_func(q):
        return
    I = Interpreter(prog, hooks={"opaque": {DQ + "parse_dump_file", DQ + "parse_args"}})
    I.call(q, [])
    res = [x for e in I.events if e.kind == "opaquecall" and e.data[0] == DQ + "parse_dump_file"
           for x in [Op("call:" + DQ + "parse_dump_file", *e.data[1])]]
    outs = [e for e in I.events if e.kind == "print" and not dict(e.data[1]).get("file")]
    ok = bool(res) and bool(outs)
    for e in outs:
        inl = [L for L in e.loops if L.iter == res[0]] if res else []
        ok = ok and bool(inl) and len(e.data[0]) == 1 and e.data[0][0] == Op("elem", res[0], inl[-1].idx) and not dict(e.data[1]).get("end")
    rep.check(ok, rule, "the CLI prints each returned line with its own print(): no output for an empty result", q, "for line in lines: print(line)",
              "the dump CLI does not print the returned lines one by one (e.g. one print of a joined text): an empty or unparsable dump "
              "file produces a blank line instead of no output")


def check_cli_files(rep, prog):
    """which table and string file the command decodes with: each of -d / -s, when given, is used as given and the other
    keeps the drawer type's default - the summary of parse_args is run on every combination of given / not given"""
    from ..terms import evaluate, CannotEval
    rule = "C17.R3.region-decoders"
    q = "io_drawer.dump.parse_args"
    if not prog.has_func(q):
        return
    I = Interpreter(prog)
    r = I.call(q, [])
    items = list_items(I, r)
    pa = [Op("m:parse_args", e.data[0], *e.data[2]) for e in I.events if e.kind == "methcall" and e.data[1] == "parse_args"]
    if items is None or len(items) != 3 or not pa:
        rep.fail(rule, q, "return (dump_file, header_file, string_file)", "parse_args no longer returns (dump file, header file, string file)")
        return
    A = lambda n_: Op("attr:" + n_, pa[0])
    names = sorted({x.op[5:] for it in items for x in walk(it[1]) if isinstance(x, Op) and x.op.startswith("attr:") and x.args and x.args[0] == pa[0]})
    tname = [n_ for n_ in names if n_ not in ("dump_file", "header_file", "string_file")]
    stubs = {"call:os.path.dirname": lambda p_: "DIR", "call:os.path.join": lambda *p_: "/".join(str(x_) for x_ in p_),
             "modfile": lambda m_: "MOD", "call:os.path.abspath": lambda p_: p_, "call:os.path.realpath": lambda p_: p_}

    def run_(h_, s_, t_):
        env = pelx.with_heap(I, {A("dump_file"): "D.bin", A("header_file"): h_, A("string_file"): s_,
                                 Op("truthy", A("header_file")): bool(h_), Op("truthy", A("string_file")): bool(s_)})
        for n_ in tname:
            env[A(n_)] = t_
        env["__ops__"] = stubs
        out = []
        for it in items:
            v = evaluate(it[1], env)
            out.append(tuple(v) if isinstance(v, list) else v)
        return tuple(out)
    bad = None
    n = 0
    try:
        for t_ in ("mex", "nimitz"):
            d0 = run_(None, None, t_)
            for h_, s_ in ((None, None), ("my_pte.h", None), (None, "myStrings"), ("my_pte.h", "myStrings"), ("", "myStrings"), ("my_pte.h", "")):
                got = run_(h_, s_, t_)
                want = ("D.bin", h_ or d0[1], s_ or d0[2])
                n += 1
                if got != want and bad is None:
                    bad = "-t %s%s%s decodes with (header file, string file) = %r, expected %r" % (
                        t_, " -d %s" % h_ if h_ else "", " -s %s" % s_ if s_ else "", got[1:], want[1:])
            if bad is None and (not d0[1] or not d0[2] or d0[1] == d0[2]):
                bad = "the defaults of drawer type %s are %r" % (t_, d0[1:])
        if bad is None and run_(None, None, "mex")[1:] == run_(None, None, "nimitz")[1:]:
            bad = "both drawer types decode with the same default files"
    except CannotEval as e:
        raise AnalysisError("parse_args summary not evaluable: %s" % e)
    rep.count("option combinations evaluated (dump CLI)", n)
    rep.check(bad is None, rule, "the dump command decodes with the -d / -s file when given and the drawer type's default otherwise, each on its own",
              q, "return (dump_file, header_file, string_file)", "the dump command does not decode with the files asked for: %s" % bad)


def run(rep, prog, thorough):
    rep.explanation = (
        "parse_dump_data is interpreted with the region formatters opaque: search keys and the offset filter are checked as "
        "terms/evaluations (offset 0 must be kept), the slice bounds handed to the formatters are evaluated for a family of "
        "sorted-offset configurations against the partition spec (begin(first)=0, end(k)=begin(k+1), end(last)=len), ILOG "
        "first then traces in order; each formatter = heading + the stand-alone decoder on exactly its slice + divider; "
        "empty input returns []; dump files: formats tried in order, bytes passed on unchanged.")
    check_split(rep, prog)
    check_formatters(rep, prog)
    check_file(rep, prog)
    check_cli_output(rep, prog)
    check_text_formats(rep, prog)
    check_cli_files(rep, prog)
    from ..effects import check_no_memoised
    check_no_memoised(rep, prog, 'C17.R3.region-decoders', ['io_drawer'], 'results of an earlier decode are reused')
