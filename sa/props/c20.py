"""C20 - hardware-diagnostics signatures and register dumps are decoded field-exactly."""
from ..core import AnalysisError
from ..interp import Interpreter, Instance, ListObj
from ..terms import (Const, Sym, Op, Ite, Ref, TRUE, FALSE, NONE, Undef, walk, and_, or_, not_, is_const, is_int, subst, compare,
                     add, sub, mul, evaluate, CannotEval)
from .. import pelx
from ..pelx import implies, env_str, unsat, DATA, IntF, F, list_items, dict_entries, final_entries, equivalent, flat_parts

PD = "pel.hwdiags.parserdata.ParserData"
UD = "udparsers.oe500.oe500."


def mk_pd(I, prog):
    o = Instance(prog.cls(PD), ())
    o.attrs["_data"] = Sym("CHIPDATA")
    return I.alloc(o)


def hexint(word, lo, hi):
    return Op("int", Op("getslice", word, Const(lo), Const(hi)), Const(16))


def check_signature(rep, prog):
    rule = "C20.R1.signature-slicing"
    I = Interpreter(prog, hooks={"opaque": {PD + ".get_chip_desc", PD + ".get_sig_desc", PD + ".get_attn_desc", PD + "._check_hex"}})
    pr = mk_pd(I, prog)
    a, b, c = Sym("word_a"), Sym("word_b"), Sym("word_c")
    r = I.method(pr, "get_signature", [a, b, c])
    ents, order = final_entries(I, r) if isinstance(r, Ref) else ({}, [])
    calls = {e.data[0].split(".")[-1]: e for e in I.events if e.kind == "opaquecall" and e.data[0].startswith(PD + ".get_")}
    # argument names of the callees (so that a swap of parameters and arguments together stays silent)
    want = {
        "get_chip_desc": {"model_ec": a, "node_pos": hexint(b, 4, 6), "chip_pos": hexint(b, 0, 4)},
        "get_sig_desc": {"model_ec": a, "sig_id": Op("getslice", c, Const(0), Const(4)), "sig_inst": hexint(c, 4, 6), "sig_bit": hexint(c, 6, 8)},
        "get_attn_desc": {"model_ec": a, "attn_type": hexint(b, 6, 8)},
    }
    for fn, argspec in want.items():
        e = calls.get(fn)
        ok = e is not None
        detail = "not called"
        if ok:
            params = prog.func(PD + "." + fn).params[1:]
            got = dict(zip(params, e.data[1]))
            got.update(dict(e.data[2]))
            ok = all(got.get(k) == v for k, v in argspec.items())
            detail = ", ".join("%s=%r" % (k, got.get(k)) for k in argspec)
        rep.check(ok, rule, "%s receives %s" % (fn, ", ".join("%s=%r" % kv for kv in argspec.items())), PD + ".get_signature", "self.%s(...)" % fn,
                  "signature fields are sliced from the wrong hex digits or passed to the wrong parameter (%s); the layout is model/EC = word a, "
                  "chip position = b[0:4], node = b[4:6], attention type = b[6:8], id = c[0:4], instance = c[4:6], bit = c[6:8]" % detail)
    for key, fn in (("Chip Desc", "get_chip_desc"), ("Signature", "get_sig_desc"), ("Attn Type", "get_attn_desc")):
        v = ents.get(key)
        rep.check(bool(v) and isinstance(v[-1][1], Op) and v[-1][1].op == "call:" + PD + "." + fn and v[-1][2] == TRUE, rule,
                  "output '%s' is the result of %s" % (key, fn), PD + ".get_signature", "out[%r] = ..." % key, "output key %r is not produced by %s" % (key, fn))


def _fails(t, env):
    try:
        evaluate(t, env)
        return False
    except CannotEval:
        raise
    except Exception:
        return True


def _eval_with_handlers(terms_, env):
    """values of the summary terms with the handlers that actually run: every try's flag starts out false; whenever computing
    a result fails the way a missing key does, the innermost try that result still counts on is the one that caught it.  The
    results share the flags, as the code shares the try statements."""
    flags = []
    for t_ in terms_:
        for x in walk(t_):
            if isinstance(x, Sym) and x.kind == "exc" and x not in flags:
                flags.append(x)
    for x in flags:
        env[x] = False
    got = None
    for _ in range(len(flags) + 1):
        try:
            got = tuple(evaluate(t_, env) for t_ in terms_)
            break
        except (LookupError, TypeError, ValueError) as ex_:
            failing = next(t_ for t_ in terms_ if _fails(t_, env))
            cand = [x for x in walk(failing) if isinstance(x, Sym) and x.kind == "exc" and not env[x]]
            if not cand:
                got = "<raises %s>" % type(ex_).__name__
                break
            serial = lambda x_: int(x_.name.rsplit("#", 1)[1]) if "#" in x_.name and x_.name.rsplit("#", 1)[1].isdigit() else 0
            env[max(cand, key=serial)] = True       # (flags are numbered in the order the try statements are entered)
    return got


def check_lookups(rep, prog):
    """every subscript chain into the chip data uses lower-cased hex keys / str() numbers and has a KeyError fallback"""
    rule = "C20.R4.lookup-discipline"
    I = Interpreter(prog)
    pr = mk_pd(I, prog)
    CD = Sym("CHIPDATA")
    m, sid, inst, bit, attn, rid = Sym("model_ec"), Sym("sig_id"), Sym("sig_inst", "int"), Sym("sig_bit", "int"), Sym("attn", "int"), Sym("reg_id")
    results = {
        "get_sig_desc": I.method(pr, "get_sig_desc", [m, sid, inst, bit]),
        "get_attn_desc": I.method(pr, "get_attn_desc", [m, attn]),
        "get_chip_desc": I.method(pr, "get_chip_desc", [m, Sym("node", "int"), Sym("chip", "int")]),
    }
    rg = I.method(pr, "get_reg_data", [m, rid, inst])

    def pair_items(t):
        """the (name, address) pair - returned from one place, or from several (one per outcome of the look-ups)"""
        if isinstance(t, Ite):
            a_, b_ = pair_items(t.a), pair_items(t.b)
            if a_ is None or b_ is None:
                return a_ if b_ is None else b_
            if len(a_) != len(b_):
                return None
            return [("v", pelx.ite(t.c, x_[1], y_[1]), TRUE) for x_, y_ in zip(a_, b_)]
        its_ = list_items(I, t)
        return its_ if its_ is not None and all(i_[0] == "v" for i_ in its_) else None
    rgi = pair_items(rg) or []
    results["get_reg_data"] = Op("tuple", *[i[1] for i in rgi])
    allowed_keys = {Op("m:lower", m), Op("m:lower", sid), Op("m:lower", rid), Op("str", bit), Op("str", attn), Op("str", inst)}
    n = 0
    for fn, r in results.items():
        chains = [x for x in walk(r) if isinstance(x, Op) and x.op in ("getitem", "m:get", "dictget") and any(y == CD for y in walk(x.args[0]))]
        for x in chains:
            key = x.args[1]
            if isinstance(key, Const):
                continue
            n += 1
            rep.check(key in allowed_keys, rule, "%s: data-file key %r is normalised (lower-case hex / decimal string)" % (fn, key), PD + "." + fn,
                      "self._data[...]", "%s looks the chip data up with %r: hex keys of the data files are lower case and numbers are decimal "
                      "strings, so an upper-case word (as in SRC words) or a raw number never matches and the name is lost" % (fn, key))
        # fallback: each lookup sits under an exception flag alternative
        tops = [x for x in walk(r) if isinstance(x, Ite) and isinstance(x.c, Sym) and x.c.kind == "exc"]
        covered = all((ch.op != "getitem" and len(ch.args) >= 3) or any(ch in list(walk(t.b)) for t in tops) for ch in chains) if chains else True
        rep.check(covered and bool(chains), rule, "%s: every chip-data lookup has a fallback to the raw numbers" % fn, PD + "." + fn, "except KeyError",
                  "%s has a chip-data lookup without a fallback: missing data raises instead of showing the raw numbers" % fn)
    # register name and register address fall back independently: a register whose instance has no address entry keeps its
    # name (and the other way round) - decided by running the look-up summary on sample chip data of every degree of
    # completeness, a failing look-up taking the handler's alternative
    if len(rgi) == 2:
        bad = None
        full = {"20da": {"registers": {"abc": ["REG_NAME", {"1": "0x800F001A"}], "def": ["ONLY_NAME", {}], "0a0": [None, {"1": "1f"}]}, "other": {}}}
        datas = [full, {}, {"20da": {}}, {"20da": {"registers": {}}}, {"20da": {"registers": {"abc": ["N2", {"2": "0x10"}]}}}]
        try:
            for data_ in datas:
                for mm, rr, ii in (("20DA", "ABC", 1), ("20da", "abc", 2), ("20DA", "DEF", 1), ("20DA", "FFF", 1), ("1234", "ABC", 1)):
                    env = pelx.with_heap(I, {CD: data_, m: mm, rid: rr, inst: ii})
                    # which handlers run: every try's flag starts out false; whenever computing a result fails the way a missing
                    # key does, the innermost try that result still counts on is the one that caught it.  Both results share the
                    # flags, as the code shares the try statements.
                    got = _eval_with_handlers((rgi[0][1], rgi[1][1]), env)
                    ent = data_.get(mm.lower(), {}).get("registers", {}).get(rr.lower())
                    want_name = ent[0] if ent is not None else "id:%s inst:%s" % (rr.upper(), ii)
                    addr = ent[1].get(str(ii)) if ent is not None else None
                    want = (want_name, "0x%08X" % (int(addr, 16) if addr is not None else 0))
                    if got != want and bad is None:
                        bad = "model %s register %s instance %d with chip data %r: shown as %r, documented %r" % (mm, rr, ii, data_, got, want)
        except CannotEval as e_:
            rep.count("register look-up summary not runnable (%s): decided from its shape" % str(e_)[:60], 1)
            bad = None
            ex = [{x for x in walk(i[1]) if isinstance(x, Sym) and x.kind == "exc"} for i in rgi]
            if not (bool(ex[0]) and bool(ex[1]) and not (ex[0] & ex[1])):
                bad = "the register name and the register address are looked up under one try/except"
        rep.check(bad is None, rule, "get_reg_data: name and address each fall back on their own (name kept when only the address is missing)",
                  PD + ".get_reg_data", "except KeyError", "the register name and the register address do not fall back independently: when "
                  "only the address of this instance is missing the known register name is replaced by the raw id/instance text as well "
                  "(%s)" % bad)
    # the signature name and the bit description fall back independently too: a known signature whose bit has no description
    # keeps its name
    bad = None
    nsig = 0
    sig_full = {"20da": {"signatures": {"abcd": ["SIG_NAME", {"3": "bit three"}], "1234": ["ONLY_NAME", {}]}, "registers": {}}}
    try:
        for data_ in (sig_full, {}, {"20da": {}}, {"20da": {"signatures": {}}}, {"20da": {"signatures": {"abcd": ["N2", {"7": "seven"}]}}}):
            for mm, ss, ii, bb in (("20DA", "ABCD", 1, 3), ("20da", "abcd", 0, 4), ("20DA", "1234", 2, 3), ("20DA", "FFFF", 1, 3), ("5678", "ABCD", 1, 7),
                                   ("20DA", "ABCD", 255, 7)):
                env = pelx.with_heap(I, {CD: data_, m: mm, sid: ss, inst: ii, bit: bb})
                got = _eval_with_handlers((results["get_sig_desc"],), env)
                got = got[0] if isinstance(got, tuple) else got
                ent = data_.get(mm.lower(), {}).get("signatures", {}).get(ss.lower())
                nm = ent[0] if ent is not None else "id:" + ss.upper()
                ds = ent[1].get(str(bb), "") if ent is not None else ""
                want = "%s(%d)[%s] %s" % (nm, ii, bb, ds)
                nsig += 1
                if got != want and bad is None:
                    bad = "model %s signature %s instance %d bit %d with chip data %r: shown as %r, documented %r" % (mm, ss, ii, bb, data_, got, want)
        rep.count("signature look-up samples evaluated", nsig)
        rep.check(bad is None, rule, "get_sig_desc: name and bit description each fall back on their own", PD + ".get_sig_desc", "except KeyError",
                  "the signature name and the bit description do not fall back independently (%s)" % bad)
    except CannotEval as e_:
        rep.count("signature look-up summary not runnable (%s)" % str(e_)[:60], 1)
    hs = [e for e in I.events if e.kind == "handler" and e.func.startswith(PD + ".get_")]
    rep.check(not hs or all(h.data[1] in ("KeyError", "LookupError", "(KeyError, IndexError)", "(KeyError, IndexError, TypeError)", "Exception") for h in hs), rule,
              "fallback handlers catch KeyError", PD, "except KeyError", "fallback handlers catch %s" % sorted({h.data[1] for h in hs}))
    rep.floor("chip-data lookups", n, 6)
    # argument validation must accept the whole value range of each field (a decode must never fail on 0xFF / 0xFFFF)
    I2 = Interpreter(prog)
    pr2 = mk_pd(I2, prog)
    bad = None
    for val, nbytes in ((0, 1), (255, 1), (0, 2), (65535, 2), (1, 1), (256, 2)):
        ev0 = len(I2.events)
        I2.method(pr2, "_check_int", [Const(val), Const(nbytes)])
        for e in I2.events[ev0:]:
            if e.kind == "assert" and e.data[0] != TRUE:
                bad = bad or "_check_int(%d, %d) asserts %r" % (val, nbytes, e.data[0])
            if e.kind == "raise" and e.guard != FALSE:
                bad = bad or "_check_int(%d, %d) raises" % (val, nbytes)
    rep.check(bad is None, rule, "range validation accepts every value of a 1-/2-byte field (0..255, 0..65535 inclusive)", PD + "._check_int",
              "assert lb <= data <= ub", "a legal field value is rejected by the argument validation: %s" % bad)
    # ... and the hex validation accepts the words as the callers hand them over: SRC words arrive upper case (%08X), signature
    # list words lower case (bytes.hex()) - both are valid, in every getter and in get_signature itself
    bad = None
    nhex = 0
    for val, nbytes in (("20DA", 2), ("20da", 2), ("ABCDEF", 3), ("abcdef", 3), ("00", 1), ("fF", 1), ("FFFFFFFF", 4), ("0123abCD", 4), ("9999", 2)):
        ev0 = len(I2.events)
        I2.method(pr2, "_check_hex", [Const(val), Const(nbytes)])
        nhex += 1
        for e in I2.events[ev0:]:
            if e.kind in ("assert", "raise"):
                cond = e.data[0] if e.kind == "assert" else not_(e.guard)
                try:
                    okv = bool(evaluate(cond, pelx.with_heap(I2, {})))
                except CannotEval:
                    okv = cond == TRUE
                except Exception:
                    okv = False
                if not okv:
                    bad = bad or "_check_hex(%r, %d) rejects it (%s)" % (val, nbytes, repr(cond)[:80])
    rep.count("hex validation samples", nhex)
    rep.check(bad is None, rule, "hex validation accepts upper-, lower- and mixed-case words of the right length", PD + "._check_hex",
              "assert re_map[num_bytes].fullmatch(data)", "a well-formed hex word is rejected by the argument validation: %s - SRC words are "
              "handed over upper case, signature list words lower case" % bad)
    # data file discovery
    I3 = Interpreter(prog)
    pd3 = I3.new(PD)
    gl = [e for e in I3.events if e.kind == "extcall" and e.data[0] == "glob.glob"]
    okg = len(gl) == 1 and any(is_const(x, str) and x.v == "*.json" for x in walk(gl[0].data[1][0])) and \
        any(isinstance(x, Op) and x.op == "modfile" and x.args[0] == Const("pel.hwdiags.data") for x in walk(gl[0].data[1][0]))
    rep.check(okg, rule, "chip data files = *.json next to pel.hwdiags.data", PD + ".__init__", "glob.glob(os.path.join(data_path, '*.json'))",
              "chip data files are not discovered as *.json in the pel.hwdiags.data package directory")
    # every data file found is kept, however complete it is (partial chip data still names what it knows): whether a file is
    # stored may depend on its being readable, never on which sections it contains
    dstore = [e for e in I3.events if e.kind == "dict_store" and e.func == PD + ".__init__" and e.loops]
    okl = bool(dstore)
    why = "no per-file store into the chip data table"
    for e in dstore:
        L_ = e.loops[-1]
        base = getattr(L_, "body_guard_full", set()) | getattr(L_, "body_guard_set", set())
        extra = [c for c in (e.guard.args if isinstance(e.guard, Op) and e.guard.op == "and" else (e.guard,)) if c not in base]
        content = [c for c in extra if c != TRUE and not ((isinstance(c, Sym) and c.kind == "exc") or
                                            (isinstance(c, Op) and c.op == "not" and isinstance(c.args[0], Sym) and c.args[0].kind == "exc"))]
        if content:
            okl = False
            why = "a data file is kept only under %s" % (repr(and_(*content))[:120],)
    rep.check(okl, rule, "every chip data file that can be read is kept, complete or partial", PD + ".__init__", "self._data[...] = data",
              "chip data files are filtered by their content (%s): a partial data file is ignored as a whole and everything it does "
              "describe falls back to raw numbers" % why)


def check_src_parser(rep, prog):
    rule = "C20.R2.call-sites"
    q = "srcparsers.oe500.oe500.parseSRCToJson"
    I = Interpreter(prog, hooks={"opaque": {PD + ".get_signature", PD + ".__init__"}})
    args = [Sym("refcode")] + [Sym("word%d" % i) for i in range(2, 10)]
    I.call(q, args)
    cs = [e for e in I.events if e.kind == "opaquecall" and e.data[0] == PD + ".get_signature"]
    ok = len(cs) == 1 and tuple(cs[0].data[1]) == (Sym("word6"), Sym("word7"), Sym("word8"))
    rep.check(ok, rule, "SRC details: signature = hex words 6, 7, 8 in that order", q, "parser.get_signature(word6, word7, word8)",
              "the SRC parser builds the signature from %s" % ([repr(a) for a in cs[0].data[1]] if cs else "nothing"))
    # the attention kind: 'system checkstop' iff the last two characters of the reference code are '10' - for EVERY reference
    # code (hex digits A-F included); the result document is evaluated for sample codes
    r = I.call(q, args) if False else None
    I2 = Interpreter(prog, hooks={"opaque": {PD + ".get_signature", PD + ".__init__"}})
    res = I2.call(q, args)
    doc = res.args[0] if isinstance(res, Op) and res.op == "json.dumps" else None
    bad = None
    if doc is None:
        bad = "the SRC parser does not return json.dumps(<document>)"
    else:
        sig = Op("call:" + PD + ".get_signature", *cs[0].data[1]) if cs else None
        for code in ("BD50E510", "BD50E511", "BD50E51A", "BD50E5FF", "BD50E500", "BD50E5A0", "bd50e510", "BD50E501"):
            env = pelx.with_heap(I2, {args[0]: code})
            if sig is not None:
                env[sig] = "SIG"
            try:
                d = evaluate(doc, env)
                got = d.get("Primary Attention") if isinstance(d, dict) else None
            except CannotEval as e:
                raise AnalysisError("SRC parser document not evaluable: %s" % e)
            except Exception as e:
                got = "<raises %s>" % type(e).__name__
            want = "system checkstop" if code[6:8] == "10" else "secondary analysis"
            if got != want and bad is None:
                bad = "reference code %s: Primary Attention is %r, documented %r" % (code, got, want)
    rep.check(bad is None, rule, "Primary Attention = 'system checkstop' iff the reference code ends in '10', 'secondary analysis' otherwise "
              "(evaluated for codes with hex letters too)", q, "if '10' == refcode[6:8]", bad)


def _run_doc(I, r, payload, stubs, what):
    """the JSON document the summarised parser returns for one concrete payload (look-ups replaced by stubs that
    echo their arguments, so a value reaching the wrong parameter shows in the text)"""
    import json as _json
    env = pelx.with_heap(I, {DATA: payload, Op("len", DATA): len(payload), Op("truthy", DATA): bool(payload)})
    env["__ops__"] = stubs
    # an exception raised outside the loops and outside every try (e.g. by a range check) leaves the parser: no document
    from .c12 import tries_covering
    for e_ in I.events:
        if e_.kind == "raise" and not e_.loops and not tries_covering(I.events, e_):
            try:
                if evaluate(e_.guard, env):
                    return "<raises %s at line %s>" % (repr(e_.data[0])[:60], getattr(e_.node, "lineno", "?"))
            except CannotEval:
                pass
            except Exception:
                pass
    try:
        v = evaluate(r, env)
    except CannotEval as e:
        raise AnalysisError("%s summary not evaluable: %s" % (what, e))
    except Exception as e:
        return "<raises %s: %s>" % (type(e).__name__, e)
    try:
        return _json.loads(v) if isinstance(v, str) else v
    except Exception:
        return v


def check_sig_list(rep, prog):
    """count + 12-byte entries: the summary of the list parser is run on sample lists and compared with the documented layout"""
    import struct
    rule = "C20.R2.call-sites"
    I = Interpreter(prog, hooks={"opaque": {PD + ".get_signature", PD + ".__init__"}})
    r = I.call(UD + "_parse_signature_list", [Const(1), DATA])
    cs = [e for e in I.events if e.kind == "opaquecall" and e.data[0] == PD + ".get_signature"]
    if not cs:
        raise AnalysisError("_parse_signature_list no longer decodes its entries through ParserData.get_signature")
    stubs = {"call:" + PD + ".get_signature": lambda a, b, c: "SIG(%s,%s,%s)" % (a, b, c)}
    bad = None
    n = 0
    for count in (0, 1, 2, 3, 7):
        for extra in (0, 5):
            words = [bytes(((i * 29 + k * 7 + 0xA1) % 256) for k in range(4)) for i in range(3 * count)]
            payload = struct.pack(">I", count) + b"".join(words) + bytes(extra)
            got = _run_doc(I, r, payload, stubs, "signature list")
            want = {"Signature List": ["SIG(%s,%s,%s)" % tuple(w.hex() for w in words[3 * i:3 * i + 3]) for i in range(count)]}
            n += 1
            if got != want and bad is None:
                bad = "a list of %d signatures%s is shown as %s, documented %s" % (
                    count, " followed by %d unused bytes" % extra if extra else "", repr(got)[:200], repr(want)[:200])
    rep.count("signature list samples evaluated", n)
    rep.check(bad is None, rule, "signature list: 32-bit count, then per signature three consecutive 4-byte words a, b, c (hex), one entry each, in order",
              UD + "_parse_signature_list", "parser.get_signature(a, b, c)", "the signature list is not decoded as count + 12-byte signatures (a,b,c in order): %s" % bad)


def check_register_dump(rep, prog):
    """every chip, every register, in order, with exactly its data bytes: the summary of the dump parser is run on sample
    dumps (chips x registers x data sizes) with echoing look-up stubs and compared with the documented rendering"""
    import struct
    rule = "C20.R3.register-dump"
    I = Interpreter(prog, hooks={"opaque": {PD + ".get_chip_desc", PD + ".get_reg_data", PD + ".__init__"}})
    r = I.call(UD + "_parse_register_dump", [Const(1), DATA])
    where = UD + "_parse_register_dump"
    chip = [e for e in I.events if e.kind == "opaquecall" and e.data[0] == PD + ".get_chip_desc"]
    reg = [e for e in I.events if e.kind == "opaquecall" and e.data[0] == PD + ".get_reg_data"]
    if not chip or not reg or not chip[0].loops or len(reg[0].loops) < 2:
        rep.fail(rule, where, "for c in range(chip_count) / for r in range(num_regs)", "chips and registers are not decoded by a chip loop with a nested "
                 "register loop calling get_chip_desc / get_reg_data")
        return
    # no state carried from chip to chip / register to register other than the stream and the output: a dictionary keyed by
    # decoded values merges records that happen to share the key (two chips at one position, a register seen before)
    stores = [e for e in I.events if e.kind in ("dict_store", "dictmut") and e.loops and not pelx.is_temp(I, e.data[0])
              and not (e.kind == "dict_store" and is_const(e.data[1]))]
    rep.check(not stores, rule, "no lookup results / records are keyed by decoded values across chips and registers", where,
              stores[0].node if stores else "loop body",
              "chips / registers / looked-up names are collected in a dictionary keyed by decoded values (filled inside the loops): a later "
              "chip or register with the same key shows an earlier one's data or replaces it", node=stores[0].node if stores else None)
    pc = prog.func(PD + ".get_chip_desc").params[1:]
    pr = prog.func(PD + ".get_reg_data").params[1:]

    def chip_stub(*a):
        d = dict(zip(pc, a))
        return "chip<%s n%s c%s>" % (d.get("model_ec"), d.get("node_pos"), d.get("chip_pos"))

    def reg_stub(*a):
        d = dict(zip(pr, a))
        return ("reg<%s %s i%s>%s" % (d.get("model_ec"), d.get("reg_id"), d.get("reg_inst"), "x" * (int(d.get("reg_inst") or 0) % 7 * 3)),
                "0x%08X" % (0x1000 + int(d.get("reg_inst") or 0)))
    stubs = {"call:" + PD + ".get_chip_desc": chip_stub, "call:" + PD + ".get_reg_data": reg_stub}

    def payload_of(chips):
        b = struct.pack(">I", len(chips))
        for model, cpos, node, regs in chips:
            b += bytes.fromhex(model) + struct.pack(">HBI", cpos, node, len(regs))
            for rid, inst, data in regs:
                b += bytes.fromhex(rid) + bytes([inst, len(data)]) + data
        return b

    def want_of(chips):
        out = []
        for model, cpos, node, regs in chips:
            out.append((chip_stub(*[{"model_ec": model, "node_pos": node, "chip_pos": cpos}[k] for k in pc]) + " ").ljust(60, "*"))
            for rid, inst, data in regs:
                nm, ad = reg_stub(*[{"model_ec": model, "reg_id": rid, "reg_inst": inst}[k] for k in pr])
                hx = data.hex()
                out.append("  %s (%s) %s" % (nm[0:25].ljust(25), ad, " ".join(hx[i:i + 4] for i in range(0, len(hx), 4)).upper()))
        return {"Register Dump": out}

    def data_of(n, seed):
        return bytes((i * 37 + seed) % 256 for i in range(n))
    samples = [
        [],
        [("20da0020", 3, 1, [])],
        [("20da0020", 0x0102, 7, [("abcdef", 2, data_of(5, 1))])],
        [("20da0020", 3, 1, [("abcdef", 2, data_of(1, 3)), ("000102", 0, data_of(8, 5)), ("fffefd", 9, data_of(2, 9))]),
         ("120a0001", 0, 0, []),
         ("00d10010", 65535, 255, [("00000a", 255, data_of(3, 0xF0)), ("0b0000", 1, data_of(4, 0xAB))])],
        [("aabbccdd", 1, 2, [("a1b2c3", 4, data_of(255, 17)), ("010203", 5, data_of(16, 2))]), ("aabbccee", 2, 1, [("a1b2c3", 4, data_of(7, 1))])],
    ]
    bad = None
    for chips in samples:
        got = _run_doc(I, r, payload_of(chips), stubs, "register dump")
        want = want_of(chips)
        if got != want and bad is None:
            gl = got.get("Register Dump") if isinstance(got, dict) else None
            wl = want["Register Dump"]
            if isinstance(gl, list):
                k = next((i for i in range(max(len(gl), len(wl))) if i >= len(gl) or i >= len(wl) or gl[i] != wl[i]), 0)
                bad = "a dump of %d chip(s) with %s register(s): line %d is %r, documented %r" % (
                    len(chips), [len(c[3]) for c in chips], k, gl[k] if k < len(gl) else None, wl[k] if k < len(wl) else None)
            else:
                bad = "a dump of %d chip(s) is shown as %s" % (len(chips), repr(got)[:200])
    rep.count("register dump samples evaluated", len(samples))
    rep.check(bad is None, rule, "chip count @0/4; per chip model/EC @+0/4 (hex), position @+4/2, node @+6/1, register count @+7/4, one description line "
              "padded with '*' to 60; per register id @+0/3 (hex), instance @+3/1, size @+4/1, looked up under THIS chip's model/EC, one line with "
              "name (cropped/padded to 25), address and every hex digit of exactly its data bytes in groups of 4, upper case; all in order", where,
              "dump.append(...)", "the register dump does not list every chip and register in order with its own id, instance, address and exactly "
              "its data bytes: %s" % bad)


def check_small_sections(rep, prog):
    rule = "C20.R3.scratch-and-ffdc"
    I = Interpreter(prog)
    r = I.call(UD + "_parse_hb_scratch_regs", [Const(1), DATA])
    ok = isinstance(r, Op) and r.op == "json.dumps"
    if ok:
        outer, _ = final_entries(I, r.args[0])
        inner = outer.get("Hostboot Scratch Registers")
        ok = bool(inner)
        if ok:
            es = dict_entries(I, inner[-1][1]) or []
            want = [(Op("concat", Const("0x"), Op("m:hex", F(0, 4))), Op("concat", Const("0x"), Op("m:hex", F(4, 4)))),
                    (Op("concat", Const("0x"), Op("m:hex", F(8, 8))), Op("concat", Const("0x"), Op("m:hex", F(16, 8))))]
            ok = [(k, v) for k, v, g, lc in es] == want
    rep.check(ok, rule, "scratch registers: CFAM address/value = bytes 0..3 / 4..7, SCOM address/value = bytes 8..15 / 16..23", UD + "_parse_hb_scratch_regs",
              "cfamAddr = '0x' + stream.get_mem(4).hex()", "scratch register section is not decoded as 4,4,8,8 bytes in order")
    r2 = I.call(UD + "_parse_scratch_reg_sig", [Const(1), DATA])
    ok2 = isinstance(r2, Op) and r2.op == "json.dumps"
    if ok2:
        outer, _ = final_entries(I, r2.args[0])
        inner = outer.get("Scratch Register Error Signature")
        es = {k.v: v for k, v, g, lc in (dict_entries(I, inner[-1][1]) or []) if is_const(k, str)} if inner else {}
        ok2 = es.get("Chip ID") == Op("concat", Const("0x"), Op("m:hex", F(0, 4))) and es.get("Signature ID") == Op("concat", Const("0x"), Op("m:hex", F(4, 4)))
    rep.check(ok2, rule, "scratch signature: chip id = bytes 0..3, signature id = bytes 4..7", UD + "_parse_scratch_reg_sig", "chipId = ...",
              "scratch register signature is not decoded as 4+4 bytes in order")
    r3 = I.call(UD + "_parse_callout_ffdc", [Const(1), DATA])
    ok3 = isinstance(r3, Op) and r3.op == "json.dumps"
    if ok3:
        outer, _ = final_entries(I, r3.args[0])
        v = outer.get("Callout List FFDC")
        ok3 = bool(v) and isinstance(v[-1][1], Op) and v[-1][1].op == "json.loads"
        if ok3:
            s = v[-1][1].args[0]
            ok3 = any(isinstance(x, Op) and x.op == "m:rstrip" and x.args[1] == Const(b"\0") for x in walk(s)) and any(x == DATA for x in walk(s))
    rep.check(ok3, rule, "callout FFDC = the JSON text of the whole payload minus trailing NULs", UD + "_parse_callout_ffdc", "json.loads(s)",
              "callout FFDC is not the payload's JSON text with only trailing NULs removed")
    # sub-type routing
    I2 = Interpreter(prog, hooks={"opaque": {UD + n for n in ("_parse_signature_list", "_parse_register_dump", "_parse_callout_ffdc",
                                                              "_parse_hb_scratch_regs", "_parse_scratch_reg_sig", "_parse_default")}})
    st = Sym("subtype", "int")
    I2.call(UD + "parseUDToJson", [st, Sym("ver"), DATA])
    want = {1: "_parse_signature_list", 2: "_parse_register_dump", 3: "_parse_callout_ffdc", 4: "_parse_hb_scratch_regs", 5: "_parse_scratch_reg_sig"}
    okd = True
    for code, fn in want.items():
        es = [e for e in I2.events if e.kind == "opaquecall" and e.data[0] == UD + fn]
        okd = okd and len(es) == 1 and implies(es[0].guard, compare("eq", st, Const(code)))[0] and es[0].data[1][-1] == DATA
    rep.check(okd, rule, "sub-types 1..5 -> signature list, register dump, callout FFDC, scratch registers, scratch signature (payload passed on)",
              UD + "parseUDToJson", "parsers = {...}", "hardware-diagnostics sub-type routing changed")


def run(rep, prog, thorough):
    rep.explanation = (
        "Signature slicing is read off the arguments that get_signature hands to the three description functions (matched by "
        "callee parameter name); call sites (SRC words 6..8; count + 12-byte list entries) by argument terms and stream "
        "stride; register-dump layout by the offsets of the terms passed to get_chip_desc/get_reg_data relative to the "
        "loop-carried stream position; signature list and register dump by running the parser summaries on sample payloads "
        "with echoing look-up stubs; no caches across chips; every chip-data subscript key passes through lower()/str() and "
        "has a KeyError fallback; _check_int accepts the full field range; the section payload reaches the plug-in unaltered.")
    check_signature(rep, prog)
    check_lookups(rep, prog)
    check_src_parser(rep, prog)
    check_sig_list(rep, prog)
    check_register_dump(rep, prog)
    check_small_sections(rep, prog)
    # the hardware-diagnostics sections reach their plug-in as (subtype, version, exact payload) (rule shared with C18)
    from .c18 import check_ud_names_and_args
    check_ud_names_and_args(rep, prog)
    # the plug-in that decodes a section is found for THIS section's component: nothing a decode leaves behind (a cache
    # of found parsers keyed by something coarser) is read by a later one (rule shared with C19)
    from .c05 import decoder_runs
    from .c19 import check_decode_state
    check_decode_state(rep, prog, decoder_runs(prog))
