"""C12 - --clean never deletes a PEL whose decoded output was not completely written.

Must-pass-through / typestate rule on the interpreted event order: every execution
that reaches the removal of the input has (1) produced the output, (2) flushed and
closed it, (3) seen no exception from any output operation, (4) the delete option."""
from ..core import AnalysisError
from ..interp import Interpreter
from ..terms import Const, Sym, Op, Ite, Ref, TRUE, FALSE, walk, and_, or_, not_, is_const, subst, compare
from .. import pelx
from ..pelx import implies, env_str
from ..cli import Cli, PT, MODE_FUNCS, ARGS

REMOVERS = {"os.remove", "os.unlink", "os.rename", "os.replace", "shutil.move", "os.rmdir", "shutil.rmtree", "os.truncate"}


def mentions(t, x):
    return any(y == x for y in walk(t))


def facts_of(I, norm=lambda t: t, before=None):
    """'a raise under p sets the try's exception flag q': true of what is executed after that raise, so for an event only
    the facts recorded before it are used (the statements in front of a `raise` still run)"""
    return [or_(not_(norm(p)), norm(q)) for (p, q), sq in zip(I.facts, I.fact_seq) if before is None or sq <= before]


_TRY_RANGES = {}


def try_ranges(events):
    """{exception flag: (seq of try entry, seq at which the try body ends)}"""
    key = id(events)
    hit = _TRY_RANGES.get(key)
    if hit is not None and hit[0] is events and hit[1] == len(events):
        return hit[2]
    enter, end = {}, {}
    for e in events:
        if e.kind == "try_enter":
            enter.setdefault(e.data[0], e.seq)
        elif e.kind in ("try_body_end", "handler") and e.data[0] in enter:
            end.setdefault(e.data[0], e.seq)
    rng = {x: (enter[x], end.get(x, len(events))) for x in enter}
    _TRY_RANGES[key] = (events, len(events), rng)
    return rng


def tries_covering(events, ev):
    """exception flags of the try statements whose BODY contains event ev: their negation guards ev and ev lies between
    the try's entry and the end of its body (code after a try whose handler leaves is guarded by the same negation but is
    not protected by it)"""
    out = []
    g = ev.guard
    conj = g.args if isinstance(g, Op) and g.op == "and" else [g]
    rng = try_ranges(events)
    for c in conj:
        if isinstance(c, Op) and c.op == "not" and isinstance(c.args[0], Sym) and c.args[0].kind == "exc":
            r = rng.get(c.args[0])
            if r is None or r[0] < ev.seq < r[1]:
                out.append(c.args[0])
    return out


def is_write_mode(mode):
    return not is_const(mode, str) or any(ch in mode.v for ch in "wax+")


def check_json(rep, prog):
    rule = "C12.R1.json-clean"
    fn = PT + "parseAndWriteOutput"
    I = Interpreter(prog, hooks={"opaque": {PT + "parsePEL"}})
    f_in, outdir, cfg, dele = Sym("file"), Sym("output_dir"), Sym("config"), Sym("delete_after_parsing", "exc")
    I.call(fn, [f_in, outdir, cfg, dele])
    ev = I.events
    removes = [e for e in ev if e.kind == "extcall" and e.data[0] in REMOVERS and any(mentions(a, f_in) for a in e.data[1])]
    rep.count("input-removal sites (--json)", len(removes))
    if not removes:
        rep.note("parseAndWriteOutput never removes its input: --json --clean clause holds vacuously")
        rep.ok(rule, "no removal of the input in the --json path")
        return
    opens = [e for e in ev if e.kind == "open" and is_write_mode(e.data[1])]
    facts = facts_of(I)
    for R in removes:
        where = R.func
        Rg = and_(R.guard, *facts_of(I, before=R.seq))
        before = [o for o in opens if o.seq < R.seq]
        if not rep.check(bool(before), rule, "output file opened before the input is removed", where, R.node,
                         "input is removed although no output file has been opened before on this path", node=R.node):
            continue
        W = before[-1]
        fobj = Op("file", W.data[0], W.data[1])
        writes = [e for e in ev if e.kind == "methcall" and e.data[0] == fobj and e.data[1] in ("write", "writelines") and e.seq < R.seq]
        closes = [e for e in ev if e.seq > W.seq and ((e.kind == "with_exit" and fobj in e.data) or
                                                      (e.kind == "methcall" and e.data[0] == fobj and e.data[1] == "close"))]
        closes_before = [c for c in closes if c.seq < R.seq and all(c.seq > w.seq for w in writes)]
        ok = bool(writes) and bool(closes_before)
        rep.check(ok, rule, "the JSON text is written and the file closed (with-exit / close()) before os.remove(input)", where, R.node,
                  "input is removed before the output file is closed (remove at event %d, close at %s): a failing flush/close "
                  "(ENOSPC/EIO) would lose both copies" % (R.seq, [c.seq for c in closes] or "never"), node=R.node)
        if ok:
            i1, env = implies(Rg, or_(*[c.guard for c in closes_before]))
            rep.check(i1, rule, "every path reaching the removal passed the close", where, R.node,
                      "a path reaches the removal without closing the output (%s)" % env_str(env), node=R.node)
        i2, env = implies(Rg, dele)
        rep.check(i2, rule, "removal only under the delete-after-parsing flag", where, R.node,
                  "input can be removed although --clean was not given (%s)" % env_str(env), node=R.node)
        i3, env = implies(Rg, W.guard)
        rep.check(i3, rule, "removal only when a document was produced (filtered-out PELs are kept)", where, R.node,
                  "input can be removed although no output was written for it, e.g. a filtered-out PEL (%s)" % env_str(env), node=R.node)
        # ... and that document is the decoder's non-empty text (an accepted-but-empty result is not a document)
        decs = [e for e in ev if e.kind == "opaquecall" and e.data[0] == PT + "parsePEL" and e.seq < R.seq]
        if decs:
            res = Op("call:" + PT + "parsePEL", *decs[-1].data[1])
            js = Op("getitem", res, Const(1))
            forms = [compare("ne", Op("len", js), Const(0)), compare("gt", Op("len", js), Const(0)), I.truth(js), compare("ne", js, Const(""))]
            i4 = any(implies(Rg, f_)[0] for f_ in forms)
            wrote = any(any(x == js for a in w.data[2] for x in walk(a)) for w in writes)
            if wrote and not all(len(w.data[2]) == 1 and w.data[2][0] == js and not w.loops for w in writes):
                # written in pieces (blocks, lines): the pieces must add up to the whole text - the write summary is run on
                # texts of lengths around every block boundary
                from ..terms import evaluate, CannotEval
                items_ = []
                for w in writes:
                    t_ = w.data[2][0] if w.data[2] else Const("")
                    t_ = Op("splat", t_) if w.data[1] == "writelines" else t_
                    items_.append(("rep", w.loops[-1], t_, w.guard) if w.loops else ("v", t_, w.guard))
                try:
                    for n_ in (0, 1, 2, 3, 100, 4095, 4096, 4097, 8191, 8192, 8193, 12289, 65536, 65537):
                        text_ = "".join(chr(33 + (i_ * 7) % 90) for i_ in range(n_))
                        env_ = pelx.with_heap(I, {js: text_, Op("len", js): n_, Op("truthy", js): bool(text_), dele: True,
                                                  res: ("E", text_), Op("getitem", res, Const(0)): "E"})
                        for x_ in walk(and_(*[w.guard for w in writes])):
                            if isinstance(x_, Sym) and x_.kind == "exc":
                                env_[x_] = False
                        got_ = "".join(str(p_) for p_ in pelx.eval_items(items_, env_))
                        if got_ != text_ and n_ > 0:
                            wrote = False
                except CannotEval:
                    pass
            rep.check(i4 and wrote, rule, "the input is removed only when the decoder returned a non-empty document, and that text is what was written",
                      where, R.node, "the removal does not depend on a non-empty decoded document having been written (tests something else "
                      "than the JSON text: a PEL the filter rejects, or an empty result, is deleted with nothing or an empty file written)", node=R.node)
        # no exception from any output operation
        bad = None
        for e in [W] + writes + closes_before:
            for exc in tries_covering(ev, e):
                ok3, env = implies(Rg, not_(exc))
                if not ok3 and bad is None:
                    bad = "an exception raised by the output %s at %s:%s is swallowed before the removal runs" % (
                        e.kind if e.kind != "methcall" else e.data[1], e.func.split(".")[-1], getattr(e.node, "lineno", "?"))
        rep.check(bad is None, rule, "a failing open/write/close skips the removal", where, R.node, bad, node=R.node)
        # decode result: removal must depend on the decode having succeeded: same try as parsePEL or after its result
        dec = [e for e in ev if e.kind == "opaquecall" and e.data[0] == PT + "parsePEL"]
        rep.check(bool(dec) and all(d.seq < R.seq for d in dec), rule, "decode happens before the removal", where, R.node,
                  "input removed before/without decoding it", node=R.node)
        # which file is removed: the input path itself
        rep.check(R.data[1][0] == f_in, rule, "the file removed is the input path itself", where, R.node,
                  "the removed path is %r, not the input file" % (R.data[1][0],), node=R.node)


def check_file(rep, prog):
    rule = "C12.R2.file-clean"
    opaque = {PT + n for n in MODE_FUNCS if n != "parseAndPrintPELFile" and prog.has_func(PT + n)} | {PT + "parsePEL"}
    I = Interpreter(prog, hooks={"opaque": opaque})
    I.call(PT + "main", [])
    ev = I.events
    pa = None
    for e in ev:
        if e.kind == "methcall" and e.data[1] == "parse_args":
            pa = Op("m:parse_args", e.data[0], *e.data[2])
    if pa is None:
        raise AnalysisError("main(): parse_args not found")
    norm = lambda t: subst(t, {pa: ARGS})
    argfile = Op("attr:file", ARGS)
    removes = [e for e in ev if e.kind == "extcall" and e.data[0] in REMOVERS and any(mentions(norm(a), argfile) for a in e.data[1])]
    rep.count("input-removal sites (--file)", len(removes))
    if not removes:
        rep.ok(rule, "no removal of the --file input")
        return
    facts = facts_of(I, norm)
    disp = PT + "parseAndPrintPELFile"
    # document output = stdout prints executed inside the display function (and its callees)
    inside = set()
    depth = 0
    start = [e for e in ev if e.kind == "call" and e.data[0] == disp]
    if not start:
        raise AnalysisError("--file branch of main() no longer calls parseAndPrintPELFile")
    s0 = start[0].seq
    outs, flushes = [], []
    for e in ev:
        if e.seq <= s0 or e.func == PT + "main":
            continue
        if e.kind == "print":
            kw = dict(e.data[1])
            tgt = kw.get("file")
            to_stdout = tgt is None or repr(tgt) == "<sys.stdout>"
            if to_stdout:
                outs.append(e)
                fl = kw.get("flush")
                if fl is not None and fl == Const(True):
                    flushes.append(e)
        elif e.kind == "extcall" and e.data[0] in ("sys.stdout.flush",):
            flushes.append(e)
        elif e.kind == "methcall" and e.data[1] == "flush" and repr(e.data[0]) == "<sys.stdout>":
            flushes.append(e)
    rep.count("document output sites (--file)", len(outs))
    rep.count("flush sites (--file)", len(flushes))
    for R in removes:
        where = R.func
        Rg = and_(norm(R.guard), *facts_of(I, norm, before=R.seq))
        outs_b = [o for o in outs if o.seq < R.seq]
        i0, env = implies(Rg, Op("attr:clean", ARGS))
        rep.check(i0, rule, "removal only under --clean", where, R.node, "--file input can be removed without --clean (%s)" % env_str(env), node=R.node)
        i1, env = implies(Rg, or_(*[norm(o.guard) for o in outs_b])) if outs_b else (False, None)
        rep.check(i1, rule, "removal only when the document was printed", where, R.node,
                  "--file --clean removes the input on a path on which nothing was printed for it (decode failed / PEL filtered "
                  "out)%s" % ((": " + env_str(env)) if env else ""), node=R.node)
        # ... and that document came out of the decoder: on every path to the removal parsePEL returned a non-empty text (a
        # display that does not need the decode - the hex dump - does not show that the log is decodable)
        decs = [e for e in ev if e.kind == "opaquecall" and e.data[0] == PT + "parsePEL" and e.seq < R.seq]
        i5, env = False, None
        for D in decs:
            js = Op("getitem", Op("call:" + PT + "parsePEL", *[norm(a) for a in D.data[1]]), Const(1))
            for f_ in (compare("ne", Op("len", js), Const(0)), compare("gt", Op("len", js), Const(0)), I.truth(js), compare("ne", js, Const(""))):
                if not i5:
                    i5, env = implies(Rg, f_)
        rep.check(i5, rule, "removal only when the decoder returned a non-empty document", where, R.node,
                  "--file --clean removes the input on a path on which the decoder did not return a document for it%s" % (
                      (": " + env_str(env)) if env else ""), node=R.node)
        bad = None
        for o in outs_b:
            later = [f for f in flushes if o.seq <= f.seq < R.seq]
            okf, env = implies(and_(Rg, norm(o.guard)), or_(*[norm(f.guard) for f in later])) if later else (False, None)
            if not okf and bad is None:
                bad = "output printed at %s:%s is not flushed before the input is removed: a write error surfacing at exit " \
                      "(EPIPE/ENOSPC) comes after the deletion" % (o.func.split(".")[-1], getattr(o.node, "lineno", "?"))
        rep.check(bad is None, rule, "every document print is followed by a stdout flush before the removal", where, R.node, bad, node=R.node)
        bad = None
        for e in outs_b + [f for f in flushes if f.seq < R.seq]:
            for exc in tries_covering(ev, e):
                entered = and_(*[c for c in (norm(e.guard).args if isinstance(norm(e.guard), Op) and norm(e.guard).op == "and" else [norm(e.guard)])
                                 if not (isinstance(c, Op) and c.op == "not" and c.args[0] == exc)])
                ok3, env = implies(and_(Rg, entered), not_(exc))
                if not ok3 and bad is None:
                    bad = "an exception raised while printing/flushing at %s:%s is swallowed and the removal still runs" % (
                        e.func.split(".")[-1], getattr(e.node, "lineno", "?"))
        rep.check(bad is None, rule, "a failing print/flush skips the removal", where, R.node, bad, node=R.node)
        rep.check(norm(R.data[1][0]) == argfile, rule, "the file removed is args.file itself", where, R.node,
                  "removed path is %r" % (norm(R.data[1][0]),), node=R.node)


def check_other_removals(rep, prog):
    """--clean removals anywhere else than in the two places examined above: the pairing 'this file's own document was
    written / printed' cannot be established for them (e.g. a second pass that deletes by a list of earlier results)"""
    rule = "C12.R4.removal-sites"
    from ..cli import FullMain
    fm = FullMain(prog)
    clean = fm.arg("clean")
    argfile = fm.arg("file")
    n = 0
    for e in fm.events:
        if e.kind != "extcall" or e.data[0] not in REMOVERS:
            continue
        g = fm.norm(e.guard)
        if g == FALSE or not implies(g, clean)[0]:
            continue                # not a --clean removal (the delete modes are C11's)
        n += 1
        in_json = PT + "parseAndWriteOutput" in e.stack
        in_file = any(mentions(fm.norm(a), argfile) for a in e.data[1])
        rep.check(in_json or in_file, rule, "%s:%s a --clean removal happens where the file's own document was just written / printed" % (
            e.func.split(".")[-1], getattr(e.node, "lineno", "?")), e.func, e.node,
            "under --clean a file is removed outside the step that wrote / printed its own document (%s in %s): whether THIS file was "
            "converted successfully is not what decides its removal" % (e.data[0], e.func.split(".")[-1]), node=e.node)
    rep.count("--clean removal sites in the command line", n)
    return n


def check_decode_failure_visible(rep, prog):
    """'decoded successfully' is what licenses the removal: a failure while decoding any section must reach the caller
    (no document, or the exception) - a decoder that swallows it and returns a document anyway gets damaged logs deleted"""
    rule = "C12.R3.decode-failure-visible"
    I = Interpreter(prog, hooks={"opaque": {PT + "sectionFun", PT + "considerPEL", PT + "prettyPrint", PT + "buildOutput",
                                            PT + "generatePH", PT + "generateUH"}})
    st = pelx.new_stream(I)
    cfg = I.new("pel.peltool.config.Config")
    r = I.call(PT + "parsePEL", [st, cfg, Const(False)])
    ev = I.events
    decs = [e for e in ev if e.kind == "opaquecall" and e.data[0] in (PT + "sectionFun", PT + "generatePH", PT + "generateUH")]
    n = 0
    for D in decs:
        for exc in tries_covering(ev, D):
            n += 1
            # the value parsePEL returns when this try caught something
            doc = I.unpack_ite(r, 1, 2) if isinstance(r, (Ite, Ref)) else None
            got = pelx.specialise(doc, exc) if doc is not None else None
            hs = [h for h in ev if h.kind == "handler" and h.data[0] == exc]
            reraised = any(x.kind in ("raise", "exit") and exc in (x.guard.args if isinstance(x.guard, Op) and x.guard.op == "and" else (x.guard,))
                           for x in ev if hs and x.seq > hs[0].seq)
            ok = reraised or got in (Const(""), Const(None))
            rep.check(ok, rule, "parsePEL:%s a failure of %s caught inside the decoder yields no document" % (
                getattr(D.node, "lineno", "?"), D.data[0].split(".")[-1]), PT + "parsePEL", D.node,
                "a failure of %s is caught inside parsePEL and a document is returned all the same (%s): a log that is damaged there counts "
                "as decoded and --clean removes it" % (D.data[0].split(".")[-1], repr(got)[:80]), node=D.node)
    rep.count("try blocks around decode steps inside parsePEL", n)


def run(rep, prog, thorough):
    rep.explanation = (
        "Typestate/must-pass-through over the interpreted event order of parseAndWriteOutput and of main()'s --file "
        "branch (display function inlined): every path condition under which the input is removed must imply that the "
        "output was opened, written, flushed and closed, that no try/except swallowed an exception of an output operation, "
        "that a document was produced, and that --clean was given (implications decided by enumerating the path atoms).")
    check_json(rep, prog)
    check_file(rep, prog)
    # "the document was printed" means it went to the process's standard output: nobody re-points sys.stdout (shared with C09)
    from .c09 import check_no_stream_redirection
    check_no_stream_redirection(rep, prog, "C12.R2.file-clean")
    check_decode_failure_visible(rep, prog)
    nother = check_other_removals(rep, prog)
    rep.floor("input-removal sites", max(rep.analysed.get("input-removal sites (--json)", 0) +
              rep.analysed.get("input-removal sites (--file)", 0), nother), 2)
