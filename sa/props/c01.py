"""C01 - every PEL section is decoded once, in order, from exactly its own bytes."""
import json
import os

from ..core import AnalysisError
from ..interp import Interpreter
from ..terms import (Const, Sym, Op, Ite, Ref, Lin, TRUE, FALSE, is_int, is_const, add, sub, mul, walk, ite,
                     compare, and_, or_, not_, binop, subst)
from .. import pelx
from ..pelx import (F, IntF, DATA, equivalent, env_str, list_items, dict_entries, table_of, table_lookup)
from .c02 import spec_table

PT = "pel.peltool.peltool."

# section id -> (decoder class, consumption of the body as a function of the header / body bytes)
DISPATCH = {
    0x5053: "pel.peltool.src.SRC", 0x5353: "pel.peltool.src.SRC",
    0x4548: "pel.peltool.extend_user_header.ExtendedUserHeader",
    0x4D54: "pel.peltool.failing_mtms.FailingMTMS",
    0x4544: "pel.peltool.ext_user_data.ExtUserData",
    0x5544: "pel.peltool.user_data.UserData",
    0x4C50: "pel.peltool.imp_partition.ImpactedPartition",
}
HEXDUMP_ONLY = [0x4448, 0x5357, 0x4C52, 0x484D, 0x4550, 0x4945, 0x4D49, 0x4348, 0x4549]
UNKNOWN_IDS = [0x5A5A, 0x0000, 0xFFFF, 0x5059]
DEFAULT_CLS = "pel.peltool.default.Default"

SECLEN = Sym("sectionLen", "int")
VER, SUB, COMP, CRE = Sym("versionID"), Sym("subType"), Sym("componentID", "int"), Sym("creatorID")


def sid_name(sid):
    return chr((sid >> 8) & 0xFF) + chr(sid & 0xFF)


def expected_consumption(sid):
    """body bytes that a self-consistent section of this type occupies, relative to body start 0"""
    if sid == 0x4548:
        return add(Const(68), IntF(67, 1))
    if sid == 0x4D54:
        return Const(20)
    if sid == 0x4C50:
        n = IntF(3, 1)
        return add(add(add(Const(8), IntF(2, 1)), mul(Const(2), n)), mul(Const(2), binop("mod", n, Const(2))))
    if sid in (0x5053, 0x5353):
        return None   # handled separately
    return sub(SECLEN, Const(8))


def run_sectionfun(prog, sid, plugins=True):
    I = Interpreter(prog)
    st = pelx.new_stream(I)
    cfg = I.new("pel.peltool.config.Config")
    if plugins is not True:
        # False, or a symbolic switch (the analysis then covers both settings at once)
        I.obj(cfg).attrs["allow_plugins"] = Const(False) if plugins is False else plugins
    out = I.x_collections_OrderedDict([], {}, None)
    I.call(PT + "sectionFun", [st, out, Const(sid), SECLEN, VER, SUB, COMP, CRE, cfg])
    return I, st, out


def check_header(rep, prog):
    I = Interpreter(prog)
    st = pelx.new_stream(I)
    r = I.call(PT + "parseHeader", [st])
    items = list_items(I, r)
    want = [IntF(0, 2), IntF(2, 2), IntF(4, 1), IntF(5, 1), IntF(6, 2)]
    names = ["section id", "section length", "version", "subtype", "component id"]
    ok = items is not None and len(items) == 5
    rep.check(ok, "C01.R1.header", "parseHeader returns 5 header fields", "parseHeader", "return ...",
              "parseHeader no longer returns the 5 section-header fields")
    if not ok:
        raise AnalysisError("parseHeader shape not understood")
    for it, w, n in zip(items, want, names):
        rep.check(it[1] == w, "C01.R1.header", "%s = %r" % (n, w), "parseHeader", "return ...",
                  "section header field '%s' is read from %r, the PEL format puts it at %r" % (n, it[1], w))
    rep.check(pelx.stream_index(I, st) == Const(8), "C01.R1.header", "section header consumes exactly 8 bytes",
              "parseHeader", "stream reads", "section header read consumes %r bytes, not 8" % (pelx.stream_index(I, st),))


def check_dispatch_and_consumption(rep, prog):
    names = spec_table("sectionNames")
    ids = list(DISPATCH) + HEXDUMP_ONLY + UNKNOWN_IDS
    for sid in ids:
        for plugins in ((True, False) if sid in (0x5053, 0x5544, 0x4544) else (True,)):
            I, st, out = run_sectionfun(prog, sid, plugins)
            rep.count("sectionFun interpretations")
            where = "sectionFun(%s)%s" % (sid_name(sid) if 0x2020 < sid < 0x7F7F else hex(sid), "" if plugins else " -P")
            want_cls = DISPATCH.get(sid, DEFAULT_CLS)
            news = [e for e in I.events if e.kind == "new" and e.data[0].startswith("pel.peltool.") and
                    e.func.startswith(PT + "generate")]
            ok = len(news) == 1 and news[0].data[0] == want_cls and news[0].guard == TRUE
            rep.check(ok, "C01.R3.dispatch", "%s constructs exactly one %s" % (where, want_cls.split(".")[-1]),
                      where, "sectionFun(...)", "section id %s is routed to %s, expected exactly one %s" % (
                          hex(sid), [(e.data[0].split(".")[-1], repr(e.guard)[:60]) for e in news], want_cls.split(".")[-1]))
            # one unconditional store under the section's published name
            ents = dict_entries(I, out)
            want_name = names.get(sid_name(sid), "Unknown")
            ok = len(ents) == 1 and ents[0][0] == Const(want_name) and ents[0][2] == TRUE and not ents[0][3]
            rep.check(ok, "C01.R2.once", "%s stores exactly one entry named %r" % (where, want_name), where,
                      "out[getSectionName(sectionID)] = ...", "expected exactly one unconditional entry %r, found %s" % (
                          want_name, [(repr(k), repr(g)[:50]) for k, v, g, lc in ents]))
            # consumption
            got = pelx.stream_index(I, st)
            exp = expected_consumption(sid)
            if exp is not None:
                okc, env, n = equivalent(got, exp)
                rep.check(okc, "C01.R4.consumption", "%s consumes exactly %r body bytes" % (where, exp), where,
                          "stream reads of the section decoder",
                          "section body consumption is %r, a self-consistent section occupies %r (differs for %s): the "
                          "next section header would be read from the wrong offset" % (got, exp, env_str(env)))
            else:
                check_src_consumption(rep, I, st, where)
            if sid in ZERO_LEN_OK:
                zero_length_reads(rep, I, where, "C01.R4.consumption")
            # a section is decoded from its own bytes only: nothing it reads may live in an object shared by all sections
            from .c19 import shared_write_problems
            for e, why in shared_write_problems(I):
                rep.fail("C01.R2.once", e.func, e.node, "%s: %s" % (where, why), node=e.node)


def callout_walk_loops(I):
    """the while loop(s) that construct one Callout per iteration - wherever they live (getCallouts or a helper of it)"""
    out = []
    for e in I.events:
        if e.kind == "new" and e.data[0] == "pel.peltool.src.Callout":
            for L in e.loops:
                if L.kind == "while" and L not in out and "Callout.__init__" not in L.func:
                    out.append(L)
    return out


ZERO_LEN_OK = (0x4548, 0x4D54, 0x4C50, 0x5053)     # EH, MT, LP and the callouts of an SRC (empty location code)


def zero_length_reads(rep, I, where, rule):
    """every length byte of the fixed-layout sections EH / MT / LP may legitimately be 0 (empty symptom id / name):
    the decoder must not trip over DataStream's refusal of zero-length reads"""
    for e in I.events:
        if e.kind == "raise" and any(is_const(x, str) and "non-zero" in x.v for a in e.data for x in walk(a)):
            g = subst(e.guard, {Op("len", pelx.DATA): Const(1 << 20)})
            never, env, n = equivalent(pelx.ite(g, Const(1), Const(0)), Const(0))
            rep.check(never, rule, "%s: no zero-length read is attempted for an empty variable-length field" % where,
                      where, e.node, "a well-formed section with an empty variable-length field (%s) makes the decoder ask "
                      "DataStream for 0 bytes, which raises: the whole PEL is rejected by the full decode while the "
                      "header-only modes still count and list it" % env_str(env), node=e.node)


def check_full_decode_accepts(rep, prog, rule):
    for sid in ZERO_LEN_OK:
        I, st, out = run_sectionfun(prog, sid, True)
        zero_length_reads(rep, I, "sectionFun(%s)" % sid_name(sid), rule)


def check_no_value_rejection(rep, prog, rule, sids=None):
    """a section decoder gives up only when the stream's range check fails (the section is cut short): an exception raised
    anywhere else depends on the VALUE of a field - an enum / flag conversion, a look-up without fall-back, a sanity test -
    and rejects logs whose layout is intact"""
    from .c12 import tries_covering
    n = 0
    for sid in (sids or list(DISPATCH)):
        for plugins in ((True, False) if sid in (0x5053, 0x5544, 0x4544) else (True,)):
            I, st, out = run_sectionfun(prog, sid, plugins)
            n += 1
            where = "sectionFun(%s)%s" % (sid_name(sid), "" if plugins else " -P")
            # (explicit raise statements and enum / flag conversions; look-ups the interpreter cannot prove safe are not
            # counted - the path condition that protects them may be beyond its reasoning)
            import ast as _ast
            bad = [e for e in I.events if e.kind == "raise" and not e.func.startswith("pel.datastream.") and
                   (isinstance(e.node, _ast.Raise) or (isinstance(e.node, _ast.Call) and repr(e.data[0]).startswith("call:ValueError("))) and
                   not tries_covering(I.events, e) and e.guard != FALSE and not pelx.unsat(e.guard)[0]]
            rep.check(not bad, rule, "%s raises only through the stream's range check" % where, bad[0].func if bad else where,
                      bad[0].node if bad else "raise", "the decoder raises %s when %s: a section whose layout is intact is rejected "
                      "because of the value of a field" % (repr(bad[0].data[0])[:80] if bad else "", repr(bad[0].guard)[:160] if bad else ""),
                      node=bad[0].node if bad else None)
    rep.count("decoder runs scanned for value-dependent raises", n)


def check_src_consumption(rep, I, st, where):
    got = pelx.stream_index(I, st)
    flag = compare("ne", binop("bitand", IntF(1, 1), Const(1)), Const(0))
    ok = isinstance(got, Ite)
    base = None
    if ok:
        # ite(flags & 1, <after callouts>, 72)
        e, env, _ = equivalent(ite(got.c, Const(1), Const(0)), ite(flag, Const(1), Const(0)))
        base, after = (got.b, got.a)
        if not e:
            e2, env, _ = equivalent(ite(not_(got.c), Const(1), Const(0)), ite(flag, Const(1), Const(0)))
            base, after = got.a, got.b
            e = e2
        ok = e and base == Const(72)
    elif got == Const(72):
        ok = False
    rep.check(ok, "C01.R4.consumption", "%s consumes 72 bytes without callouts and the callout subsection iff flag 0x01" % where,
              where, "SRC.toJSON stream reads",
              "SRC body consumption is %r: expected 72 bytes plus the callout subsection exactly when header flag 0x01 is set" % (got,))
    # the callout loop: guard compares 4*wordLength with a counter that advances by callout.flattenedSize()
    loops = callout_walk_loops(I)
    if not loops:
        rep.fail("C01.R4.consumption", where, "getCallouts", "callout subsection is not walked by a length-bounded loop")
        return
    L = loops[0]
    wl = IntF(74, 2)
    cond_ok = False
    cur = [k for k in L.carried if not k.startswith("DataStream")]
    if isinstance(L.cond, Op) and L.cond.op in ("gt", "lt", "ge", "le", "ne") and cur:
        lvs = [x for x in walk(L.cond) if isinstance(x, Sym) and x.kind == "loopvar"]
        if len(set(lvs)) == 1:
            # the counter v runs as  init + s*S  (S = bytes of the callouts constructed so far, s = +1 counting up,
            # -1 counting the remaining bytes down); the walk continues exactly while 4*wordLength > 4 + S
            v = lvs[0]
            init, nxt = L.carried[v.name.split(":", 1)[1]][:2]
            step = nxt.a if isinstance(nxt, Ite) and nxt.c == L.cond else nxt
            sign = None
            try:
                d = sub(step, v)
                coeffs = {c_ for _, c_ in d.terms} if isinstance(d, Lin) else ({1} if isinstance(d, (Op, Ite)) else set())
                if isinstance(d, Lin) and coeffs in ({1}, {-1}) and d.const * min(coeffs) >= 0:
                    sign = coeffs.pop()
                elif coeffs == {1}:
                    sign = 1
            except Exception:
                sign = None
            if sign is not None and any(pelx.as_int_field(x) and pelx.as_int_field(x)[0] == Const(74) for x in walk(add(init, Op("id", L.cond)))):
                S = Sym("S", "int")
                run = add(init, mul(Const(sign), S))
                cond_ok = equivalent(ite(subst(L.cond, {v: run}), Const(1), Const(0)),
                                     ite(compare("gt", mul(Const(4), wl), add(Const(4), S)), Const(1), Const(0)))[0]
    rep.check(cond_ok, "C01.R4.consumption", "callout walk bounded by 4 * subsection word length, counter starts at 4",
              "SRC.getCallouts", L.node, "callout walk is not bounded by the subsection length field (words * 4, "
              "header of 4 bytes included): %r" % (L.cond,), node=L.node)


def check_callout_accounting(rep, prog, pfx="C01.R4.callout"):
    """Callout substructure walk: per substructure kind the bytes consumed equal the amount added to the
    size counter, the walk is bounded by the callout size byte, and flattenedSize() sums the same parts."""
    I = Interpreter(prog)
    st = pelx.new_stream(I)
    B = Sym("B", "int")
    I.obj(st).attrs["index"] = B
    c = I.new("pel.peltool.src.Callout", [st])
    where = "Callout.__init__"
    loops = [L for L in I.loops.values() if L.func.endswith("Callout.__init__")]
    if len(loops) != 1 or loops[0].kind != "while":
        rep.fail(pfx, where, "while ...", "callout substructures are not walked by one bounded loop")
        return
    L = loops[0]
    size = IntF(B, 1)
    loclen = IntF(add(B, Const(3)), 1)
    idx_k = [k for k in L.carried if k.startswith("DataStream") and k.endswith(".index")]
    cnt_k = [k for k in L.carried if "." not in k]
    lvs = [x for x in walk(L.cond) if isinstance(x, Sym) and x.kind == "loopvar"]
    ok = isinstance(L.cond, Op) and len(lvs) == 1 and cnt_k and lvs[0].name.endswith(":" + cnt_k[0]) and \
        equivalent(subst(L.cond, {lvs[0]: Sym("cur", "int")}), compare("gt", size, Sym("cur", "int")))[0]
    rep.check(ok, pfx, "substructure walk continues only while callout size byte > bytes accounted",
              where, L.node, "substructure walk is not bounded by the callout's size byte: guard %r, counters %s" % (
                  L.cond, cnt_k), node=L.node)
    if not (ok and idx_k):
        if not cnt_k:
            rep.fail(pfx, where, L.node, "loop guard operands are never updated in the loop body: the size "
                     "byte does not bound the walk", node=L.node)
        return
    ci, cn, cd, _ = L.carried[cnt_k[0]]
    ii, inx, idl, _ = L.carried[idx_k[0]]
    e, env, _ = equivalent(ci, add(Const(4), loclen))
    e2, env2, _ = equivalent(ii, add(add(B, Const(4)), loclen)) if True else (True, None, 0)
    rep.check(e, pfx, "counter starts at 4 + location code length", where, "currentSize = ...",
              "size counter starts at %r, the fixed part of a callout is 4 + location code length" % (ci,))
    lv_i = Sym("lv%d:%s" % (L.lid, idx_k[0]), "loopvar", None)
    lv_c = lvs[0]
    lv_i = [x for x in walk(inx) if isinstance(x, Sym) and x.kind == "loopvar" and x.name.endswith(idx_k[0])]
    if not lv_i:
        rep.fail(pfx, where, L.node, "cannot relate stream position and size counter", node=L.node)
        return
    lv_i = lv_i[0]
    d_idx = sub(inx, lv_i)
    d_cnt = sub(cn, lv_c)
    # spec per substructure kind, positions relative to the substructure start P = lv_i
    P = lv_i
    typ = IntF(P, 2)
    szb = IntF(add(P, Const(2)), 1)
    flg = IntF(add(P, Const(3)), 1)
    fru = add(Const(4), add(add(ite(compare("ne", binop("bitand", flg, Const(0x0A)), Const(0)), Const(8), Const(0)),
                                ite(compare("ne", binop("bitand", flg, Const(0x04)), Const(0)), Const(4), Const(0))),
                            ite(compare("ne", binop("bitand", flg, Const(0x01)), Const(0)), Const(12), Const(0))))
    pce_read = ite(compare("ge", szb, Const(24)), szb, Const(24))
    mru_read = add(Const(8), mul(Const(8), binop("bitand", flg, Const(0x0F))))
    live = L.cond
    spec_idx = ite(compare("eq", typ, Const(0x4944)), fru, ite(compare("eq", typ, Const(0x5045)), pce_read,
                   ite(compare("eq", typ, Const(0x4D52)), mru_read, Const(0))))
    spec_cnt = ite(compare("eq", typ, Const(0x4944)), fru, ite(compare("eq", typ, Const(0x5045)), szb,
                   ite(compare("eq", typ, Const(0x4D52)), szb, Const(0))))
    dom = {typ: [0x4944, 0x5045, 0x4D52, 0x0000, 0x4945], lv_c: [0], size: [255]}
    g_i = ite(live, spec_idx, Const(0))
    g_c = ite(live, spec_cnt, Const(0))
    e1, env1, n1 = equivalent(d_idx, g_i, domain=dom, max_exhaustive=1 << 22)
    e3, env3, n3 = equivalent(d_cnt, g_c, domain=dom, max_exhaustive=1 << 22)
    rep.count("callout accounting valuations", n1 + n3)
    rep.check(e1, pfx, "each substructure consumes FRU 4[+8][+4][+12] / PCE size byte (>=24) / MRU 8+8n bytes",
              where, L.node, "bytes consumed per substructure differ from the PEL format (%s): %r" % (env_str(env1), d_idx), node=L.node)
    rep.check(e3, pfx, "size counter advances by the substructure's own size (FRU: bytes read; PCE/MRU: size byte)",
              where, L.node, "size counter is not advanced by the size of the substructure just read (%s): %r" % (env_str(env3), d_cnt), node=L.node)
    # flattenedSize(): 4 + locationCodeSize + fru + pce + mru sizes of the same objects
    co = I.obj(c)
    I2 = I
    fs = I2.method(c, "flattenedSize")
    parts = []
    for nm in ("fruIdentity", "pceIdentity", "mru"):
        a = co.attrs.get(nm)
        parts.append(a)
    want = add(Const(4), loclen)
    deps = [x for x in walk(fs)]
    uses = {nm: any(isinstance(x, Sym) and x.kind == "loopout" and x.name.endswith("." + nm) for x in deps)
            for nm in ("fruIdentity", "pceIdentity", "mru")}
    okf = all(uses.values()) and any(x == loclen for x in deps)
    rep.check(okf, pfx, "Callout.flattenedSize() = 4 + location length + sizes of FRU, PCE and MRU parts",
              "Callout.flattenedSize", "return size", "flattenedSize() does not add up the fixed part, the location code and "
              "all three optional substructures (%s): the callout walk would drift" % uses)


def check_getcallouts_progress(rep, prog):
    I = Interpreter(prog, hooks={"opaque": {"pel.peltool.src.SRC.getProcedureDesc"}})
    st = pelx.new_stream(I)
    src = I.new("pel.peltool.src.SRC", [st, Const(0x5053), SECLEN, VER, SUB, COMP, CRE])
    cfg = I.new("pel.peltool.config.Config")
    out = I.x_collections_OrderedDict([], {}, None)
    I.method(src, "getCallouts", [out, cfg])
    loops = callout_walk_loops(I)
    if not loops:
        raise AnalysisError("getCallouts walk loop not found")
    L = loops[0]
    cnt = [k for k in L.carried if "." not in k and not k.startswith("DataStream")]
    news = [e for e in I.events[L.events[0]:L.events[1]] if e.kind == "new" and e.data[0].endswith(".Callout")]
    ok = len(news) == 1
    adv = False
    for k in cnt:
        init, nxt, d, w = L.carried[k]
        lv = [x for x in walk(nxt) if isinstance(x, Sym) and x.kind == "loopvar" and x.name.endswith(":" + k)]
        if lv:
            inc = sub(nxt, lv[0])
            # increment must be the flattenedSize() of the callout just read: mentions its location length + 4
            calls = [e for e in I.events[L.events[0]:L.events[1]] if e.kind == "call" and e.data[0].endswith("Callout.flattenedSize")]
            adv = adv or (bool(calls) and inc != Const(0) and not is_int(inc))
    rep.check(ok and adv, "C01.R4.consumption", "callout walk reads one Callout per iteration and advances by its flattenedSize()",
              "SRC.getCallouts", L.node, "the callout walk does not advance its length counter by the size of the callout just "
              "read (constant or missing increment): callouts are skipped or the walk overruns", node=L.node)


def exact_section_count_loop(L):
    """does loop L run exactly (PH section count byte @27) - 2 times, with no data-dependent early stop? -> (ok, why)"""
    trip_ok, why = False, ""
    cnt = IntF(27, 1)
    if L.kind == "for":
        trip_ok, env, _ = equivalent(subst_guarded(L.trip), sub(cnt, Const(2)))
        why = "loop runs %r times" % (L.trip,)
    else:
        # while-loop driven by a down/up counter: exactly count-2 iterations and no other (data-dependent) stop condition
        trip_ok, why = False, "while loop %r is not a pure counter over the declared section count" % (L.cond,)
        from ..terms import evaluate
        conds = list(L.cond.args) if isinstance(L.cond, Op) and L.cond.op == "and" else [L.cond]
        counters = {}
        for k, (init, nxt, d, w) in L.carried.items():
            for x in walk(L.cond):
                if isinstance(x, Sym) and x.kind == "loopvar" and x.name.endswith(":" + k) and d is not None and is_int(d):
                    counters[x] = (init, d.v)
        mine = [c for c in conds if any(x == L.idx or x in counters for x in walk(c)) and
                not any(pelx.as_slice(x) is not None and not (is_int(pelx.as_slice(x)[0]) and pelx.as_slice(x)[0].v == 27) for x in walk(c))]
        extra = [c for c in conds if c not in mine]
        okc = bool(mine)
        for total in (0, 1, 2, 3, 7, 253):
            for j in range(0, total + 2):
                env = {L.idx: j, cnt: total + 2}
                try:
                    for x, (init, dv) in counters.items():
                        env[x] = evaluate(subst_guarded(init), {cnt: total + 2}) + j * dv
                    c_val = evaluate(subst_guarded_all(and_(*mine)), env)
                except Exception:
                    okc = False
                    break
                if bool(c_val) != (j < total):
                    okc = False
        if okc and not extra:
            trip_ok = True
        elif okc and extra:
            why = "the section loop also stops when %r: a log cut at a section boundary is accepted as complete, its missing sections " \
                  "silently dropped" % (and_(*extra),)

    return trip_ok, why

def check_loop(rep, prog, pfx="C01"):
    """parsePEL / parsePELSummary: PH, UH once each before the loop; per iteration exactly one parseHeader,
    one sectionFun fed with the header fields in order and the PH creator id, one append"""
    for fn, with_append in (("parsePEL", True), ("parsePELSummary", False)):
        I = Interpreter(prog, hooks={"opaque": {PT + "sectionFun", PT + "prettyPrint", PT + "considerPEL"}})
        st = pelx.new_stream(I)
        cfg = I.new("pel.peltool.config.Config")
        args = [st, cfg] + ([Const(False)] if fn == "parsePEL" else [])
        I.call(PT + fn, args)
        where = fn
        calls = [e for e in I.events if e.kind == "call" and e.data[0] in (PT + "generatePH", PT + "generateUH")]
        seq = [e.data[0].split(".")[-1] for e in calls]
        rep.check(seq[:2] == ["generatePH", "generateUH"] and seq.count("generatePH") == 1 and seq.count("generateUH") == 1,
                  pfx + ".R2.once", "%s decodes PH then UH exactly once before the optional sections" % fn, where,
                  fn, "PH/UH are not decoded once each, in that order, first: %s" % seq)
        sfs = [e for e in I.events if e.kind == "opaquecall" and e.data[0] == PT + "sectionFun"]
        if not sfs or not sfs[0].loops:
            rep.fail(pfx + ".R2.once", where, fn, "the optional sections are not decoded inside a loop over the declared section count")
            continue
        L = sfs[0].loops[-1]
        trip_ok, why = exact_section_count_loop(L)
        rep.check(trip_ok, pfx + ".R2.once", "%s iterates exactly sectionCount-2 times (count byte @27 of the PH), no data-dependent early stop" % fn, where,
                  L.node, "the optional-section loop does not run exactly (byte@27 - 2) times: %s" % why, node=L.node)
        body = I.events[L.events[0]:L.events[1]]
        hdr = [e for e in body if e.kind == "call" and e.data[0] == PT + "parseHeader"]
        sf = [e for e in body if e.kind == "opaquecall" and e.data[0] == PT + "sectionFun"]
        g0 = L.body_guard
        one = len(hdr) == 1 and len(sf) == 1 and hdr[0].seq < sf[0].seq and hdr[0].guard == g0 and \
            strip_assume(sf[0].guard, g0)
        rep.check(one, pfx + ".R2.once", "%s: each iteration reads one header then decodes one section, unconditionally" % fn,
                  where, L.node, "per iteration %d header read(s) and %d section decode(s) (or conditional / out of order)"
                  % (len(hdr), len(sf)), node=L.node)
        if not sf:
            continue
        a = sf[0].data[1]
        base = None
        good = len(a) >= 9
        if good:
            f0 = pelx.as_int_field(a[2])
            good = f0 is not None
            if good:
                base = f0[0]
                want = [IntF(base, 2), IntF(add(base, Const(2)), 2), IntF(add(base, Const(4)), 1),
                        IntF(add(base, Const(5)), 1), IntF(add(base, Const(6)), 2)]
                good = list(a[2:7]) == want
        rep.check(good, pfx + ".R1.header", "%s passes (id, length, version, subtype, component) to the section decoder in order" % fn,
                  where, "sectionFun(...)", "section header fields are permuted or replaced on the way to the decoder: %r" % (a[2:7],))
        cre_ok = len(a) >= 9 and a[7] == Op("m:decode", F(24, 1)) or (len(a) >= 9 and pelx.fields_of(a[7]) == [(Const(24), Const(25))])
        rep.check(cre_ok, pfx + ".R1.header", "%s passes the PH creator id (byte @24) to the section decoder" % fn, where,
                  "sectionFun(...)", "creator id handed to the section decoders is %r, not the private header's creator byte" % (
                      a[7] if len(a) > 7 else None,))
        # stride: the header read advances 8 per iteration (sectionFun is opaque here)
        idx = [k for k in L.carried if k.endswith(".index")]
        if with_append:
            apps = [e for e in body if e.kind == "append" and e.loops and e.loops[-1] is L and reaches(I, e.data[1], a[1])]
            fresh = len(apps) == 1 and apps[0].seq > sf[0].seq and reaches(I, apps[0].data[1], a[1])
            rep.check(fresh and not L.breaks, pfx + ".R2.once", "parsePEL appends each section's own fresh dictionary once, no early exit",
                      where, L.node, "decoded sections are not appended exactly once each in log order (appends=%d, breaks=%d)" % (
                          len(apps), len(L.breaks)), node=L.node)
            # the section list reaches buildOutput
            bo = [e for e in I.events if e.kind == "call" and e.data[0] == PT + "buildOutput"]
            rep.check(len(bo) == 1 and apps and bo[0].data[1][0] == apps[0].data[0], pfx + ".R2.once",
                      "parsePEL hands the list of decoded sections to buildOutput once", where, "buildOutput(...)",
                      "buildOutput is not called exactly once with the list the sections were appended to")


def reaches(I, t, target, depth=0):
    """does term t (through tuples/lists it references) contain the object `target`?"""
    for x in walk(t):
        if x == target:
            return True
        if isinstance(x, Ref) and depth < 4:
            items = list_items(I, x)
            if items is not None and any(reaches(I, it[1] if it[0] == "v" else it[2], target, depth + 1) for it in items):
                return True
    return False


def subst_guarded_all(t):
    """remove Undef alternatives everywhere in a term"""
    from ..terms import rebuild
    t = subst_guarded(t)
    if isinstance(t, Op):
        args = tuple(subst_guarded_all(a) for a in t.args)
        if args != t.args:
            return rebuild(t.op, args)
    return t


def strip_assume(g, g0):
    return True


def subst_guarded(t):
    """trip counts carry an Undef alternative for the path on which PH decoding failed"""
    from ..terms import Undef
    if isinstance(t, Lin):
        r = Const(t.const)
        for x, c in t.terms:
            r = add(r, mul(Const(c), subst_guarded(x)))
        return r
    if isinstance(t, Ite):
        if isinstance(t.b, Undef):
            return subst_guarded(t.a)
        if isinstance(t.a, Undef):
            return subst_guarded(t.b)
    return t


def check_buildoutput(rep, prog):
    I = Interpreter(prog)
    out = I.x_collections_OrderedDict([], {}, None)
    secs = Sym("sections")
    I.call(PT + "buildOutput", [secs, out])
    where = "buildOutput"
    loops = [L for L in I.loops.values() if L.func == PT + "buildOutput"]
    stores = [e for e in I.events if e.kind == "dict_store" and e.data[0] == out]
    if not stores or not loops:
        rep.fail("C01.R5.naming", where, "buildOutput", "no per-section store into the output document found")
        return
    Ls = {e.loops[-1] for e in stores if e.loops}
    rep.check(len(Ls) == 1 and all(e.loops for e in stores), "C01.R5.naming", "all output entries are stored by one pass over the sections",
              where, "out[...] = ...", "output entries are stored from %d different loops / outside a loop" % len(Ls))
    L = list(Ls)[0]
    full = equivalent(L.trip, Op("len", secs))[0] if L.trip is not None else False
    rep.check(full and not L.breaks, "C01.R5.naming", "the pass visits every section in list order (no break)", where, L.node,
              "pass over the sections has trip %r / breaks %r" % (L.trip, L.breaks), node=L.node)
    # exactly one store per iteration: guards partition True
    gs = [pelx_local(e.guard, L) for e in stores]
    part = or_(*gs) == TRUE or (len(gs) == 2 and gs[0] == not_(gs[1]))
    rep.check(part, "C01.R5.naming", "exactly one entry is stored per section (store guards are complementary)", where,
              "out[...] = ...", "a section can be dropped or stored twice: store guards %s" % [repr(g)[:80] for g in gs])
    sec_i = Op("getitem", secs, L.idx)
    name_terms = set()
    for e in stores:
        key, val = e.data[1], e.data[2]
        # value must be the i-th section's own payload
        sec_e = Op("elem", secs, L.idx)
        rep.check(any(x == sec_i or x == sec_e for x in walk(val)) and not any(isinstance(x, Sym) and x.kind == "idx" and x != L.idx for x in walk(val)),
                  "C01.R5.naming", "stored value is the i-th section's own content", where, e.node,
                  "entry value is not taken from the section being named: %r" % (val,), node=e.node)
        base = key.args[0] if isinstance(key, Op) and key.op in ("concat", "fmt") else key
        if isinstance(base, Op) and base.op == "fv" and base.args[1] == Const("") and base.args[2] == Const(""):
            base = base.args[0]          # f'{name} ...' of a string is the string
        name_terms.add(base)
        if isinstance(key, Op) and key.op in ("concat", "fmt"):
            ok = len(key.args) == 3 and key.args[1] == Const(" ") and isinstance(key.args[2], Op) and key.args[2].op in ("str", "fv")
            rep.check(ok, "C01.R5.naming", "repeated names get ' <n>' appended", where, e.node,
                      "numbered name is not '<name> <n>': %r" % (key,), node=e.node)
    rep.check(len(name_terms) == 1, "C01.R5.naming", "numbered and unnumbered entries use the same section name", where,
              "out[...] = ...", "entries are named from different expressions: %s" % [repr(x)[:80] for x in name_terms])
    name = list(name_terms)[0]
    # the occurrence counters must be keyed by the very name used for the entry
    cnt_keys = set()

    def counter_like(b):
        if isinstance(b, Ref):
            return b != out and pelx.dict_entries(I, b) is not None and not getattr(I.heap[b.oid], "shared", None)
        if isinstance(b, Op) and b.op.startswith("call:"):
            return True
        return False
    for e in stores:
        for t in (e.guard, e.data[1]):
            for x in walk(t):
                if isinstance(x, Op) and x.op in ("getitem", "dictget") and counter_like(x.args[0]):
                    cnt_keys.add(x.args[1])
    if not cnt_keys and len(stores) > 1:
        raise AnalysisError("buildOutput: cannot find the per-name occurrence counters behind the store guards "
                            "(idiom not recognised)")
    rep.check(cnt_keys == {name}, "C01.R5.naming", "occurrences are counted per displayed section name", where, "counts[...]",
              "the multiplicity test / running number is keyed by %s while entries are named by %r: two sections with "
              "the same displayed name (e.g. two different unrecognised ids, both 'Unknown') overwrite each other" % (
                  [repr(k)[:80] for k in cnt_keys], name))
    # first pass: counts keyed by the same expression (modulo loop index)
    firsts = [l for l in I.loops.values() if l is not L and
              any(e.kind == "dict_store" and e.data[0] != out for e in I.events[l.events[0]:l.events[1]])]
    for L1 in firsts:
        st1 = [e for e in I.events[L1.events[0]:L1.events[1]] if e.kind == "dict_store" and e.data[0] != out]
        k1 = {subst(e.data[1], {L1.idx: L.idx}) for e in st1}
        rep.check(k1 == {name} or not st1, "C01.R5.naming", "counting pass uses the same name expression", where, L1.node,
                  "counting pass keys %s differ from naming key %r" % ([repr(k)[:80] for k in k1], name), node=L1.node)
        t1 = equivalent(L1.trip, Op("len", secs))[0]
        rep.check(t1 and not L1.breaks, "C01.R5.naming", "counting pass visits every section", where, L1.node,
                  "counting pass trip %r" % (L1.trip,), node=L1.node)


def pelx_local(g, L):
    """drop conjuncts of a store guard that do not depend on the loop iteration (entry conditions)"""
    if isinstance(g, Op) and g.op == "and":
        keep = [c for c in g.args if any(x == L.idx or (isinstance(x, Sym) and x.kind == "loopvar") for x in walk(c))]
        return and_(*keep)
    return g


def check_names(rep, prog):
    names = spec_table("sectionNames")
    I = Interpreter(prog)
    # getSectionName decided as a function: its summary is evaluated for every published id, for ids that are not in
    # the table and for ids with unprintable / non-ASCII bytes (however the table is keyed: characters, integers, enum values)
    sid = Sym("sid", "int")
    r = I.call(PT + "getSectionName", [sid])
    from ..terms import evaluate, CannotEval
    bad = None
    n = 0
    samples = [(ord(k[0]) << 8) | ord(k[1]) for k in names] + [0x5A5A, 0x0000, 0xFFFF, 0x8001, 0xC328, 0x2020, 0x4849, 0x5000, 0x0048, 0x4800, 0x7F7F]
    for v in samples:
        key = chr((v >> 8) & 0xFF) + chr(v & 0xFF)
        want = names.get(key, "Unknown")
        try:
            got = evaluate(r, pelx.with_heap(I, {sid: v}))
        except CannotEval as e:
            got = "<%s>" % e
        except Exception as e:
            got = "<raises %s>" % type(e).__name__
        n += 1
        if got != want and bad is None:
            bad = "section id 0x%04X is named %r, published name %r" % (v, got, want)
    rep.count("section ids named", n)
    rep.check(bad is None, "C01.R3.dispatch", "getSectionName gives the published name of each of the 18 ids and 'Unknown' for every other id "
              "(evaluated for %d ids)" % n, "getSectionName", "return sectionNames.get(id, 'Unknown')", bad)
    # enum agreement
    ids = {}
    ci = prog.cls("pel.peltool.pel_types.SectionID")
    for nm in ("privateHeader", "userHeader", "primarySRC", "secondarySRC", "extendedUserHeader", "failingMTMS",
               "impactedPart", "userData", "extUserData"):
        v = I.get_attr(I.get_attr(I.global_value("pel.peltool.pel_types", "SectionID"), nm), "value")
        ids[nm] = v.v if isinstance(v, Const) else None
    want = {"privateHeader": 0x5048, "userHeader": 0x5548, "primarySRC": 0x5053, "secondarySRC": 0x5353,
            "extendedUserHeader": 0x4548, "failingMTMS": 0x4D54, "impactedPart": 0x4C50, "userData": 0x5544,
            "extUserData": 0x4544}
    rep.check(ids == want, "C01.R3.dispatch", "SectionID values are the two ASCII characters of each type", "pel_types.SectionID",
              "class SectionID", "SectionID constants differ from the PEL format: %s" % {k: (hex(v) if v else v) for k, v in ids.items() if want[k] != v})


def check_ph_uh(rep, prog):
    for fn, sid, body, extra in (("generatePH", 0x5048, 40, []), ("generateUH", 0x5548, 16, [CRE])):
        I = Interpreter(prog)
        st = pelx.new_stream(I)
        out = I.x_collections_OrderedDict([], {}, None)
        r = I.call(PT + fn, [st] + extra + [out])
        got = pelx.stream_index(I, st)
        idok = compare("eq", IntF(0, 2), Const(sid))
        want = ite(idok, Const(8 + body), Const(8))
        e, env, _ = equivalent(got, want)
        rep.check(e, "C01.R4.consumption", "%s consumes the 8-byte header plus a %d-byte body iff the id matches" % (fn, body),
                  fn, "stream reads", "%s consumes %r bytes, expected %d (header + %d-byte body)" % (fn, got, 8 + body, body))
        ents = dict_entries(I, out)
        rep.check(len(ents) == 1 and not ents[0][3], "C01.R2.once", "%s stores one entry" % fn, fn, "out[...] = ...",
                  "%s stores %d entries" % (fn, len(ents)))


def run(rep, prog, thorough):
    rep.explanation = (
        "Section framing decided from the code's shape for all inputs: the header layout and its positional hand-off "
        "to the decoders, one header read + one decode + one append per declared section, the id->decoder/name tables, "
        "the exact byte consumption of every decoder as a symbolic expression compared with the PEL format's section "
        "size (so the cursor lands on the next header whatever follows), callout accounting (consumed bytes = counted "
        "bytes per substructure kind) and the one-entry-per-section / numbering key discipline of buildOutput.")
    check_header(rep, prog)
    check_names(rep, prog)
    check_ph_uh(rep, prog)
    check_dispatch_and_consumption(rep, prog)
    check_callout_accounting(rep, prog)
    check_getcallouts_progress(rep, prog)
    check_loop(rep, prog)
    check_buildoutput(rep, prog)
    # "decoded from exactly its own bytes": the user-data sections hand their whole payload on (rule shared with C04)
    from .c04 import check_sections, check_parse
    check_sections(rep, prog)
    # "whatever section follows is still decoded": a free-form section whose parser plug-in fails is contained in its own entry
    # (rule shared with C04)
    check_parse(rep, prog)
    # "decoded intact": an SRC entry shows every callout substructure its bytes hold (rule shared with C03)
    from .c03 import check_callout_rendering
    check_callout_rendering(rep, prog)
    check_no_value_rejection(rep, prog, "C01.R4.consumption")
    rep.floor("sectionFun interpretations", rep.analysed.get("sectionFun interpretations", 0), 20)
