"""C04 - user data is rendered from its content or preserved byte-for-byte as a hex dump."""
from ..core import AnalysisError
from ..interp import Interpreter, Instance
from ..terms import (Const, Sym, Op, Ite, Ref, TRUE, FALSE, NONE, Undef, walk, and_, or_, not_, is_const, is_int, subst, compare,
                     evaluate, CannotEval, sub, add)
from .. import pelx
from ..pelx import implies, env_str, unsat, DATA, F, list_items, dict_entries, final_entries
from .c01 import run_sectionfun, SECLEN, VER, SUB, COMP, CRE

PU = "pel.peltool.parse_user_data.ParseUserData"
HEXDUMP = "pel.hexdump.hexdump"
P = Sym("P")
HD = Op("call:" + HEXDUMP, P)


def leaves(t, conds=()):
    if isinstance(t, Ite):
        yield from leaves(t.a, conds + (t.c,))
        yield from leaves(t.b, conds + (not_(t.c),))
    else:
        yield t, and_(*conds)


def mentions(I, t, x, depth=0):
    for y in walk(t):
        if y == x:
            return True
        if isinstance(y, Ref) and depth < 4:
            es = dict_entries(I, y)
            if es is not None and any(mentions(I, v, x, depth + 1) for k, v, g, lc in es):
                return True
            it = list_items(I, y)
            if it is not None and any(mentions(I, (i[1] if i[0] == "v" else i[2]), x, depth + 1) for i in it):
                return True
    return False


def is_stripped_decode(t):
    while isinstance(t, Op) and t.op in ("m:strip", "m:rstrip", "m:lstrip"):
        t = t.args[0]
    return isinstance(t, Op) and t.op == "m:decode" and t.args[0] == P


def classify(I, leaf, path):
    """-> (kind, carries_payload_condition or None, problem or None)"""
    if isinstance(leaf, Undef) or leaf == NONE:
        return "none", FALSE, None
    if isinstance(leaf, Op) and leaf.op == "m:parseUDToJson":
        return "plugin", TRUE, None
    if is_stripped_decode(leaf):
        return "builtin-json", TRUE, None
    if isinstance(leaf, Op) and leaf.op == "json.dumps":
        x = leaf.args[0]
        if x == HD:
            return "hexdump", TRUE, None
        if x == Const(""):
            return "empty", FALSE, None
        es = dict_entries(I, x)
        if es is not None:
            data = [(v, g) for k, v, g, lc in es if k == Const("Data")]
            other = [k for k, v, g, lc in es if k not in (Const("Data"), Const("Error"))]
            if other:
                return "dict", FALSE, "unexpected keys %r" % (other,)
            if not data:
                return "dict-no-data", FALSE, None
            if any(v != HD for v, g in data):
                return "dict", FALSE, "'Data' is %r, not the hex dump of the whole payload" % (data[0][0],)
            return "dict+hexdump", or_(*[g for v, g in data]), None
        it = list_items(I, x)
        if it is not None:
            return "builtin-text", TRUE, None
        # a list of lines computed from the decoded payload in some other way (split of a joined text, a slice of it, one
        # of two such lists): what the lines are is decided by running the renderer's summary on sample payloads
        alts = []

        def lv(t):
            if isinstance(t, Ite):
                lv(t.a), lv(t.b)
            else:
                alts.append(t)
        lv(x)
        liney = lambda t: (isinstance(t, Ref) and list_items(I, t) is not None) or (
            isinstance(t, Op) and t.op in ("list", "m:split", "m:splitlines", "getslice", "listsummary"))
        if alts and all(liney(t) for t in alts) and any(mentions(I, t, P) for t in alts):
            return "builtin-text", TRUE, None
    return "other", FALSE, "unrecognised result %r" % (leaf,)


def check_parse(rep, prog):
    rule = "C04.R1.payload-never-dropped"
    I = Interpreter(prog, hooks={"opaque": {HEXDUMP}})
    creator, comp, subt, ver = Sym("creator"), Sym("comp", "int"), Sym("sub", "int"), Sym("ver")
    pu = I.new(PU, [creator, comp, subt, ver, P])
    cfg = I.new("pel.peltool.config.Config")
    plugins = Sym("plugins", "exc")
    I.obj(cfg).attrs["allow_plugins"] = plugins
    r = I.method(pu, "parse", [cfg])
    where = "ParseUserData.parse"
    n = 0
    kinds = {}
    builtin_paths = []
    for leaf, path in leaves(r):
        if path == FALSE or unsat(path)[0]:
            continue
        n += 1
        kind, carries, problem = classify(I, leaf, path)
        kinds[kind] = kinds.get(kind, 0) + 1
        if kind.startswith("builtin"):
            # the BMC built-in formats are part of the tool, not a plug-in: -P must not turn them into hex dumps
            builtin_paths.append(path)
        if problem:
            rep.fail(rule, where, "return ...", "a result of the user-data renderer neither presents the payload nor hex-dumps it: %s" % problem)
            continue
        # when the payload is non-empty the result must carry it
        viol = and_(path, P, not_(carries))
        u, w = unsat(viol)
        rep.check(u, rule, "result '%s' carries the payload whenever the payload is non-empty" % kind, where, "return ...",
                  "with a non-empty payload the section's data can be dropped: result %r is returned (%s)" % (leaf, env_str(w)))
    off_ok = bool(builtin_paths) and all(not unsat(and_(pth, not_(plugins)))[0] for pth in builtin_paths)
    rep.check(off_ok, rule, "built-in JSON/text sections are rendered whether or not parser plug-ins are enabled", where,
              "if self.creatorID in creatorIDs and ... self.compID == 0x2000", "with parser plug-ins disabled (-P) a BMC built-in format "
              "section is no longer rendered by the built-in formatter (its result is reachable only with plug-ins enabled)")
    rep.count("feasible result alternatives of parse()", n)
    rep.note("result kinds: %s" % kinds)
    for need in ("plugin", "hexdump", "dict+hexdump", "builtin-json", "builtin-text"):
        rep.check(need in kinds, rule, "renderer has a '%s' alternative" % need, where, "parse", "no '%s' result found" % need)
    # plugin call is contained: covered by a handler for Exception that yields Error + Data
    calls = [e for e in I.events if e.kind == "methcall" and e.data[1] == "parseUDToJson"]
    handlers = [e for e in I.events if e.kind == "handler" and e.func.startswith(PU)]
    broad = [h for h in handlers if h.data[1] in ("Exception", "BaseException", None)]
    okc = bool(calls) and bool(broad)
    if okc:
        from .c12 import tries_covering
        for c in calls:
            # the try statements whose BODY holds the call (code after a try whose handler returns carries the same "no
            # exception so far" condition but is not protected by it)
            excs = tries_covering(I.events, c)
            okc = okc and any(h.data[0] in excs for h in broad)
    rep.check(okc, "C04.R2.parser-failure-contained", "the parser call is covered by 'except Exception' (error note + hex dump)", where,
              "cls.parseUDToJson(...)", "an exception raised by a parser module is not caught by a handler for Exception: the section "
              "(and the PEL) is lost instead of being hex-dumped (handlers: %s)" % [h.data[1] for h in handlers])
    imps = [e for e in I.events if e.kind == "import_module"]
    oki = bool(imps)
    for c in imps:
        from .c12 import tries_covering
        excs = tries_covering(I.events, c)
        oki = oki and any(h.data[0] in excs for h in broad)
    rep.check(oki, "C04.R2.parser-failure-contained", "importing the parser module is covered by 'except Exception' too", where,
              "importlib.import_module(...)", "a parser module that fails to import with anything but ImportError (SyntaxError, missing data "
              "file, ...) aborts the decode of the whole PEL instead of yielding an error note plus hex dump")
    # ... and the containing handlers cannot fail themselves (e.args[0] of an exception raised without arguments, a re-raise)
    hf = pelx.handler_failures(I.events, {h.data[0] for h in broad})
    rep.check(not hf, "C04.R2.parser-failure-contained", "the handlers that contain a parser failure cannot fail themselves", where,
              hf[0][0].node if hf else "except Exception", "the handler that turns a parser failure into an error note can raise itself "
              "(%s): the whole PEL is lost instead of showing the error and the hex dump" % (repr(hf[0][0].data[0])[:100] if hf else ""),
              node=hf[0][0].node if hf else None)
    # None / JSON-null results are replaced by error + hexdump
    nulls = [x for x in walk(r) if isinstance(x, Op) and x.op in ("eq", "is") and NONE in x.args]
    rep.check(bool(nulls), "C04.R2.parser-failure-contained", "a parser result of None is detected", where, "if value == None",
              "a parser returning nothing is not detected")
    jn = [x for x in walk(r) if isinstance(x, Op) and x.op == "eq" and Const("null") in x.args]
    rep.check(bool(jn), "C04.R2.parser-failure-contained", "a parser result of JSON null is treated as nothing", where, "if value == 'null'",
              "a parser returning the JSON text null is shown as \"Data\": null - the payload is dropped silently")
    return I


def check_text_format(rep, prog):
    rule = "C04.R3.builtin-text"
    I = Interpreter(prog, hooks={"opaque": {HEXDUMP}})
    pu = I.new(PU, [Const("O"), Const(0x2000), Const(3), Sym("ver"), P])
    r = I.method(pu, "getBuiltinFormatJSON")
    where = "ParseUserData.getBuiltinFormatJSON"
    # The text renderer is *run as a summary* on sample payloads and compared with the documented rendering: decode, strip
    # surrounding blanks and trailing NULs, one line per newline plus a non-empty remainder, every character outside
    # ' '..'~' shown as '.'.  (Any loop idiom: character loop with an accumulator, split + comprehension, ...)
    def reference(data):
        text = data.decode().strip().rstrip("\x00")
        lines, line = [], ""
        for ch in text:
            if ch != "\n":
                line += ch if " " <= ch <= "~" else "."
            else:
                lines.append(line)
                line = ""
        if line != "":
            lines.append(line)
        return lines
    if not (isinstance(r, Op) and r.op == "json.dumps" and len(r.args) == 1):
        raise AnalysisError("text format does not return json.dumps(<list of lines>): %r" % (r,))
    samples = [b"line one\nline two", b"abc\n", b"a\x01b\x7fc\n\ncd", b"", b"   padded  \x00\x00", b"tab\there\x00", b"caf\xc3\xa9\nx",
               b"\n", b"a\n\n", b"x\r\ny", b"~ {}|\x1f\x20!", b"\x00\x00", b"one\ntwo\nthree\n", b"\xe2\x80\xa8sep", b"\n\nlead"]
    samples += [bytes([k]) + b"|" for k in range(1, 0x80) if k not in (9, 10, 11, 12, 13, 28, 29, 30, 31, 32)]
    bad = None
    n = 0
    for data in samples:
        env = pelx.with_heap(I, {P: data, Op("len", P): len(data)})
        try:
            got = evaluate(r.args[0], env)
        except CannotEval as e:
            raise AnalysisError("text format summary not evaluable: %s" % e)
        n += 1
        want = reference(data)
        if list(got) != want and bad is None:
            bad = "payload %r is rendered %r, documented rendering %r" % (data, got, want)
    rep.count("text payload samples evaluated", n)
    rep.check(bad is None, rule, "text format = one line per newline (+ non-empty remainder) of the stripped payload text, characters "
              "outside ' '..'~' replaced by '.' (summary run on %d payloads)" % n, where, "lines.append(line)",
              "text format output differs from the documented rendering: %s" % bad)
    # JSON format: the text itself
    pu2 = I.new(PU, [Const("O"), Const(0x2000), Const(1), Sym("ver"), P])
    r2 = I.method(pu2, "getBuiltinFormatJSON")
    rep.check(is_stripped_decode(r2), "C04.R3.builtin-json", "built-in JSON format returns the payload text itself", where, "return string",
              "built-in JSON user data is not the decoded payload text: %r" % (r2,))
    for stype in (2, 4, 99):
        pu3 = I.new(PU, [Const("O"), Const(0x2000), Const(stype), Sym("ver"), P])
        r3 = I.method(pu3, "getBuiltinFormatJSON")
        rep.check(r3 == Op("json.dumps", HD), "C04.R1.payload-never-dropped", "BMC sub-type %d (no built-in decoder) is hex-dumped whole" % stype,
                  where, "return json.dumps(hexdump(mv))", "BMC user data sub-type %d is not preserved as a hex dump of the whole payload: %r" % (stype, r3))


def check_sections(rep, prog):
    """UD / ED / unrecognised sections: the payload handed on is exactly the section body, and whatever the
    renderer returns reaches the output on every path"""
    rule = "C04.R4.section-merge"
    for sid, name, lo in ((0x5544, "User Data", 0), (0x4544, "Extended User Data", 4)):
        I = Interpreter(prog, hooks={"opaque": {PU + ".parse", HEXDUMP}})
        st = pelx.new_stream(I)
        cfg = I.new("pel.peltool.config.Config")
        out = I.x_collections_OrderedDict([], {}, None)
        I.call("pel.peltool.peltool.sectionFun", [st, out, Const(sid), SECLEN, VER, SUB, COMP, CRE, cfg])
        where = name
        news = [e for e in I.events if e.kind == "new" and e.data[0] == PU]
        ok = len(news) == 1
        if ok:
            a = news[0].data[2]
            payload = Op("getslice", DATA, Const(lo), add(Const(lo), sub(SECLEN, Const(8 + lo))))
            cre = CRE if sid == 0x5544 else Op("chr", pelx.IntF(0, 1))
            ok = len(a) == 5 and a[1] == COMP and a[2] == SUB and a[3] == VER and a[4] == payload and a[0] == cre
        rep.check(ok, rule, "%s: renderer gets (creator, component, subtype, version, the whole section body)" % name, where,
                  "ParseUserData(...)", "%s does not hand creator/component/subtype/version and exactly its payload bytes to the renderer: %r" % (
                      name, news[0].data[2] if news else None))
        sec = dict_entries(I, out)
        if not sec:
            rep.fail(rule, where, "out[...]", "section not stored")
            continue
        ents = dict_entries(I, sec[0][1])
        val_terms = [x for k, v, g, lc in ents for x in walk(v) if isinstance(x, Op) and x.op.startswith("call:" + PU + ".parse")]
        merged = [(k, v, g) for k, v, g, lc in ents if any(isinstance(x, Op) and x.op.startswith("call:" + PU + ".parse") for x in walk(v))]
        guards = [g for k, v, g in merged]
        cover = or_(*guards)
        u, w = unsat(not_(cover)) if merged else (False, None)
        rep.check(bool(merged) and (cover == TRUE or u), rule, "%s: the rendered value reaches the section on every path (dict merged, anything else under 'Data')" % name,
                  where, "out['Data'] = j / out.update(j)", "%s drops the rendered value on some path (e.g. a scalar or list result): stores under %s" % (
                      name, [repr(g)[:100] for g in guards]))
        # undecodable JSON text is hex-dumped, not dropped
        hd = [x for k, v, g in merged for x in walk(v) if isinstance(x, Op) and x.op == "call:" + HEXDUMP]
        rep.check(bool(hd), rule, "%s: a result that is not valid JSON is hex-dumped" % name, where, "except json.decoder.JSONDecodeError",
                  "%s has no fallback for a renderer result that is not valid JSON" % name)
    # unrecognised section: hexdump of exactly its body
    I = Interpreter(prog, hooks={"opaque": {HEXDUMP}})
    st = pelx.new_stream(I)
    cfg = I.new("pel.peltool.config.Config")
    out = I.x_collections_OrderedDict([], {}, None)
    I.call("pel.peltool.peltool.sectionFun", [st, out, Const(0x5A5A), SECLEN, VER, SUB, COMP, CRE, cfg])
    sec = dict_entries(I, out)
    ents, _ = final_entries(I, sec[0][1])
    d = ents.get("Data")
    want = Op("call:" + HEXDUMP, Op("getslice", DATA, Const(0), sub(SECLEN, Const(8))))
    rep.check(bool(d) and d[-1][1] == want and d[-1][2] == TRUE, rule, "unrecognised section: Data = hex dump of exactly its body", "Default.toJSON",
              "out['Data'] = hexdump(mv)", "an unrecognised section is not preserved as the hex dump of its whole body: %r" % (d[-1][1] if d else None,))


def run(rep, prog, thorough):
    rep.explanation = (
        "Payload-derivation analysis: ParseUserData.parse is summarised into an ite tree over its path atoms; every feasible "
        "result alternative is classified (plugin result / decoded text / text lines / hex dump / error+hex dump / empty) and "
        "the path condition together with 'payload non-empty' must make a payload-carrying alternative unavoidable; the "
        "printable-character test of the text format is evaluated for U+0000..U+017F; UD/ED hand exactly their body to the "
        "renderer and merge the result on complementary conditions; unrecognised sections hex-dump their whole body.")
    check_parse(rep, prog)
    check_text_format(rep, prog)
    check_sections(rep, prog)
    # "the section still appears": the document assembly keeps one entry per decoded section (rule shared with C01)
    from .c01 import check_buildoutput, check_header
    check_buildoutput(rep, prog)
    # the payload handed to a section is the one its header delimits (rule shared with C01)
    check_header(rep, prog)
    # what a section shows comes from this log's payload, not from an earlier one (rule shared with C19)
    from .c05 import decoder_runs
    from .c19 import check_decode_state
    check_decode_state(rep, prog, decoder_runs(prog))
    # a hex dump stands for the payload only if it shows every byte (rule shared with C16)
    from .c16 import check_hexdump_lines
    check_hexdump_lines(rep, prog, "C04.R1.payload-never-dropped", thorough)
    # UserData / ExtUserData.toJSON show "Created by" through getDisplayCompID before the payload is rendered: a component id
    # it cannot turn into text (an exception) loses the payload - the function is evaluated for every creator class and a
    # boundary set of component ids (rule shared with C02)
    from .c02 import check_getDisplayCompID
    check_getDisplayCompID(rep, prog, "C04.R1.payload-never-dropped")
