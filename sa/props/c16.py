"""C16 - history logs show a full hex dump and exactly the non-zero fields."""
from ..core import AnalysisError
from ..interp import Interpreter, Instance, ListObj
from ..terms import (Const, Sym, Op, Ite, Ref, TRUE, FALSE, NONE, Undef, walk, and_, or_, not_, is_const, is_int, subst, compare,
                     add, sub, mul)
from .. import pelx
from ..pelx import implies, env_str, unsat, DATA, list_items, equivalent, flat_parts

HL = "io_drawer.hlog."
HEXDUMP = "pel.hexdump.hexdump"


def nt_canon(t, fields):
    """x.name / x.size of a HistoryLogField namedtuple == x[0] / x[1]"""
    m = {}
    for x in walk(t):
        if isinstance(x, Op) and x.op.startswith("attr:") and x.op[5:] in fields and len(x.args) == 1:
            m[x] = Op("getitem", nt_canon(x.args[0], fields), Const(fields.index(x.op[5:])))
    return subst(t, m) if m else t


def check_parse(rep, prog):
    rule = "C16.R1.fields"
    I = Interpreter(prog, hooks={"opaque": {HEXDUMP, HL + "get_hlog_fields"}})
    hdr = Sym("header_file")
    r = I.call(HL + "parse_hlog_data", [DATA, hdr])
    where = "parse_hlog_data"
    items = list_items(I, r)
    if items is None:
        raise AnalysisError("parse_hlog_data does not return a list")
    NT = ["name", "size"]
    cz = lambda t: nt_canon(t, NT)
    # full hex dump first
    hd = [k for k, it in enumerate(items) if it[0] == "v" and any(isinstance(x, Op) and x.op == "call:" + HEXDUMP for x in walk(it[1]))]
    reps = [k for k, it in enumerate(items) if it[0] == "rep"]
    okh = len(hd) == 1 and items[hd[0]][2] == TRUE and items[hd[0]][1] == Op("splat", Op("call:" + HEXDUMP, DATA)) and reps and hd[0] < reps[0]
    rep.check(okh, "C16.R2.hexdump", "a hex dump of ALL the bytes is emitted (unconditionally) before any field line", where,
              "lines.extend(hexdump(data))", "the output does not start with a hex dump of the whole history log: %r" % ([items[k][1] for k in hd],))
    fcall = [e for e in I.events if e.kind == "opaquecall" and e.data[0] == HL + "get_hlog_fields"]
    rep.check(len(fcall) == 1 and fcall[0].data[1] == (hdr,), rule, "fields come from get_hlog_fields(header file)", where, "get_hlog_fields(header_file_path)",
              "field table is not read from the given header file")
    # which fields are listed with which bytes: the summary is run on sample field tables x sample logs (fields that fit,
    # the first one that does not, zero and non-zero values, widths 1 and 2 and wider) and compared with the documented listing
    import collections
    from ..terms import evaluate, CannotEval
    HF = collections.namedtuple("HistoryLogField", ["name", "size"])
    tables = [[HF("a_field_with_a_description_much_longer_than_usual_0123456789", 2), HF("b" * 26, 1), HF("c" * 25, 1)], [], [HF("a", 1)], [HF("first", 2), HF("second field", 1), HF("third-3", 2), HF("x.y", 1)],
              [HF("w1", 1), HF("w2", 2), HF("w4", 4), HF("w1b", 1), HF("w2b", 2)], [HF("n%d" % i, 1 + i % 2) for i in range(12)]]
    logs = [b"", b"\x00", b"\x07", b"\x00\x00\x00", b"\x01\x02\x03", b"\x00\x10\x00\x00\x05\x09", b"\xff" * 5, bytes(range(1, 9)),
            b"\x00\x00\x01\x00\x00\x00\x00\x02\x00\x00", bytes((i * 7) % 5 for i in range(20))]
    bad = None
    n = 0
    for tbl in tables:
        for data in logs:
            env = pelx.with_heap(I, {DATA: data, Op("len", DATA): len(data), Op("truthy", DATA): bool(data), hdr: "hlog.h"})
            env["__ops__"] = {"call:" + HL + "get_hlog_fields": lambda *a_: list(tbl),
                              "call:" + HEXDUMP: lambda d_, *r_: ["<hex dump of %s>" % bytes(d_).hex()]}
            try:
                got = evaluate(r, env)
            except CannotEval as e:
                rep.count("summary not runnable on samples (%s): decided from its shape" % str(e)[:60], 1)
                return check_parse_structural(rep, I, items, reps, hdr, cz)
            except Exception as e:
                got = "<raises %s: %s>" % (type(e).__name__, e)
            n += 1
            want = ["Hex Dump", "--------", "<hex dump of %s>" % data.hex(), "", "Non-Zero Field Values", "---------------------"]
            pos = 0
            for f in tbl:
                if pos + f.size > len(data):
                    break
                v = int.from_bytes(data[pos:pos + f.size], "big")
                pos += f.size
                if v != 0:
                    want.append("%s: 0x%0*X" % (f.name, f.size * 2, v))
            if got != want and bad is None:
                k = next((i for i in range(max(len(got), len(want))) if i >= len(got) or i >= len(want) or got[i] != want[i]), 0) \
                    if isinstance(got, list) else 0
                bad = "fields %s on log bytes %s: line %d is %r, documented %r" % (
                    [(f.name, f.size) for f in tbl][:6], data.hex(), k, got[k] if isinstance(got, list) and k < len(got) else got,
                    want[k] if k < len(want) else None)
    rep.count("field table x log samples evaluated", n)
    rep.check(bad is None, rule, "fields are consumed contiguously from offset 0 in table order, each by its declared width; the listing stops at the "
              "first field that does not fit; a line '<name>: 0x<big-endian unsigned value, upper hex, 2*width digits>' iff the value is non-zero",
              where, "for field in fields", "the field listing does not show exactly the non-zero fields with their own bytes: %s" % bad)


def check_parse_structural(rep, I, items, reps, hdr, cz):
    """the same obligations read off the shape of the summary (used when the summary cannot be run on samples)"""
    rule = "C16.R1.fields"
    where = "parse_hlog_data"
    if len(reps) != 1:
        rep.fail(rule, where, "for field in fields", "field values are not produced by exactly one pass over the field table "
                 "(%d line sources): a field value must come from this pass' own read" % len(reps))
        return
    L = items[reps[0]][1]          # the loop the field lines are produced in (inline, helper or generator)
    fields = Op("call:" + HL + "get_hlog_fields", hdr)
    rep.check(L.iter == fields, rule, "fields are visited in table order", where, L.node, "the loop does not iterate the field table as returned: %r" % (L.iter,), node=L.node)
    fld = Op("elem", fields, L.idx)
    size = Op("getitem", fld, Const(1))
    name = Op("getitem", fld, Const(0))
    idxk = [k for k in L.carried if k.endswith(".index")]
    if not idxk:
        rep.fail(rule, where, L.node, "fields are not read from one stream that advances field by field", node=L.node)
        return
    init, nxt, d, w = L.carried[idxk[0]]
    nxt = cz(nxt)
    lv = [x for x in walk(nxt) if isinstance(x, Sym) and x.kind == "loopvar" and x.name.endswith(idxk[0])]
    Bi = lv[0] if lv else None
    fits = compare("le", Op("add", Bi, size), Op("len", DATA)) if Bi is not None else None
    okc = Bi is not None and init == Const(0) and nxt == pelx.ite(fits, Op("add", Bi, size), Bi)
    rep.check(okc, rule, "fields are consumed contiguously from offset 0, each advancing by its declared width", where, L.node,
              "stream position per field: start %r, step %r" % (init, nxt), node=L.node)
    stops = [cz(x) for x in L.stops]
    okb = len(stops) == 1 and Bi is not None and stops[0] == not_(fits)
    rep.check(okb, rule, "listing stops at the first field that does not fit (break/return, not skip)", where, L.node,
              "a field that does not fit in the data does not end the listing (stop conditions: %r): later, narrower fields are decoded "
              "from the leftover bytes" % (stops,), node=L.node)
    if Bi is None:
        return
    value = Op("int_from_bytes", Op("getslice", DATA, Bi, Op("add", Bi, size)), Const("big"), Const(False))
    _, _, line, g = items[reps[0]]
    line, g = cz(line), cz(g)
    want_g = and_(compare("ne", value, Const(0)), fits)
    okg = implies(g, want_g)[0] and implies(want_g, g)[0]
    rep.check(okg, rule, "a line is emitted iff the field fits and its big-endian unsigned value is non-zero", where, "if value != 0",
              "field lines are emitted under %r, expected: value != 0 (of the bytes just read)" % (g,))
    parts = flat_parts(line)
    okl = len(parts) == 3 and parts[0] in (name, Op("fv", name, Const(""), Const(""))) and parts[1] == Const(": 0x") and isinstance(parts[2], Op) and parts[2].op == "fv"
    detail = ""
    if okl:
        fvv = parts[2]
        spec = fvv.args[1]
        want_spec = Op("fmt", Const("0"), Op("fv", mul(Const(2), size), Const(""), Const("")), Const("X"))
        okl = fvv.args[0] == value and spec == want_spec
        detail = "value %r, format %r" % (fvv.args[0], spec)
    rep.check(okl, rule, "line = '<field name>: 0x<value, upper hex, zero-padded to 2*width digits>' of THIS field's bytes", where,
              "lines.append(f'{field.name}: 0x{value:0{field.size * 2}X}')", "a field line does not show the field's own name and value padded to its "
              "width (%s): %r" % (detail, line))


def check_fields(rep, prog):
    rule = "C16.R3.field-table"
    I = Interpreter(prog)
    r = I.call(HL + "get_hlog_fields", [Sym("hdr")])
    items = list_items(I, r)
    ok = items is not None and len(items) == 1 and items[0][0] == "rep"
    if ok:
        _, L, ref, g = items[0]
        o = I.heap.get(ref.oid) if isinstance(ref, Ref) else None
        ok = isinstance(o, ListObj) and getattr(o, "fields", None) == ["name", "size"] and isinstance(L.iter, Op) and L.iter.op == "file" and not L.stops
        if ok:
            nm, sz = o.items[0][1], o.items[1][1]
            grp = [x for x in walk(sz) if isinstance(x, Op) and x.op == "m:groups"]
            ok = bool(grp) and sz == Op("int", Op("getitem", grp[0], Const(0))) and nm == Op("getitem", grp[0], Const(1))
    # by evaluation: the loader's summary is run on a sample header whose lines have known roles (array start / end, field
    # rows inside and outside the array, a second array block, names with blanks / dots / padding, other C++ lines)
    from ..terms import evaluate, CannotEval
    S, E, O = "start", "end", "other"
    sample = [("// generated\n", O), ('  { 1, "before_the_array" },\n', O),
              ("static struct mex_hlog_field mex_hlog_fields[MEX_HLOG_FIELD_COUNT] =\n", S), ("{\n", O),
              ('  { 1, "hl_one" },\n', ("hl_one", 1)), ('  {2,"hl two.words-x"} ,\n', ("hl two.words-x", 2)), ("  // comment\n", O),
              ('  { 3, "too_wide" },\n', O), ('  { 1, "path//name /* x */ #1" },\n', ("path//name /* x */ #1", 1)),
              ('  { 1, "with_trailing_comment" }, // not a field row\n', O), ('  { 1, " padded name " }\n', (" padded name ", 1)), ("};\n", E),
              ('  { 2, "after_the_array" },\n', O), ("#ifdef VARIANT\n", O),
              ("struct mex_hlog_field mex_hlog_fields[] = {\n", S), ('{ 2, "second_block" },\n', ("second_block", 2)), ("  } ;\n", E),
              ('  { 1, "after_second" },\n', O)]
    hdr_ = Sym("hdr")
    evald = None
    try:
        lines_ = [l_ for l_, _ in sample]
        fobj = Op("file", hdr_, Const("r"))
        env = pelx.with_heap(I, {fobj: lines_, Op("len", fobj): len(lines_), hdr_: "hlog.h"})
        got = evaluate(r, env)
        got = [(x_.name, x_.size) if hasattr(x_, "name") else tuple(x_)[:2] for x_ in got]
        inside, want = False, []
        for l_, role in sample:
            if role == S:
                inside = True
            elif role == E:
                inside = False
            elif inside and isinstance(role, tuple):
                want.append(role)
        evald = got == want
        rep.count("sample header lines evaluated", len(sample))
        rep.check(evald, rule, "one field (name, width) per field row inside a field array, in file order (run on a sample header)",
                  HL + "get_hlog_fields", "fields.append(HistoryLogField(name, size))",
                  "on a sample header the field table is %r, documented %r" % (got, want))
    except CannotEval as e_:
        rep.count("field table loader not runnable on a sample (%s): decided from its shape" % str(e_)[:50], 1)
    if evald is None:
        rep.check(ok, rule, "one field (name = 2nd group, size = int(1st group)) per matching line, appended in file order", HL + "get_hlog_fields",
                  "fields.append(HistoryLogField(name, size))", "field table entries are not (name, width) in header-file order")
    # the line grammar: width is exactly one of 1/2; the name is any run of non-quote characters
    import re._parser as rp
    v = I.global_value("io_drawer.hlog", "HLOG_FIELD_RE")
    pat = v.args[0].v if isinstance(v, Op) and v.op == "re.compile" and is_const(v.args[0], str) else None
    if pat is None:
        raise AnalysisError("HLOG_FIELD_RE is not a constant regular expression")
    tree = rp.parse(pat)
    groups = {}

    def rec(t):
        for op, av in t:
            if op == rp.SUBPATTERN:
                groups[av[0]] = av[3]
                rec(av[3])
            elif op in (rp.MAX_REPEAT, rp.MIN_REPEAT):
                rec(av[2])
            elif op == rp.BRANCH:
                for b in av[1]:
                    rec(b)
    rec(tree)
    g1 = groups.get(1)
    okw = g1 is not None and len(g1) == 1 and g1[0][0] == rp.IN and sorted(x[1] for x in g1[0][1] if x[0] == rp.LITERAL) == [ord("1"), ord("2")] \
        and all(x[0] == rp.LITERAL for x in g1[0][1])
    rep.check(okw, rule, "declared widths are exactly 1 or 2 bytes", "io_drawer.hlog.HLOG_FIELD_RE", "([12])",
              "the width group of the field grammar accepts something other than '1' / '2'")
    g2 = groups.get(2)
    okn = g2 is not None and len(g2) == 1 and g2[0][0] == rp.MAX_REPEAT and g2[0][1][0] == 1 and g2[0][1][1] >= 65535
    if okn:
        inner = g2[0][1][2]
        inner = list(inner)
        okn = len(inner) == 1 and ((inner[0][0] == rp.NOT_LITERAL and inner[0][1] == ord('"')) or
                                   (inner[0][0] == rp.IN and inner[0][1][0][0] == rp.NEGATE and [x[1] for x in inner[0][1][1:]] == [ord('"')]))
    rep.check(okn, rule, "a field name is any non-empty run of characters other than '\"'", "io_drawer.hlog.HLOG_FIELD_RE", '"([^"]+)"',
              "the name group of the field grammar no longer accepts every quoted name (e.g. names with spaces, '-' or '.'): such table lines are "
              "dropped silently and every later field is read from the wrong offset")


def check_hexdump_lines(rep, prog, rule, thorough=False):
    """the shared hex dump shows every byte: its summary is run on sample byte strings of every length around the line
    and chunk boundaries and compared with the documented line format"""
    from ..terms import evaluate, CannotEval
    I = Interpreter(prog)
    r = I.call(HEXDUMP, [DATA])

    def ref(data):
        out = []
        for i in range(0, len(data), 16):
            chunk = data[i:i + 16]
            raw = "  ".join(chunk[j:j + 4].hex().upper() for j in range(0, len(chunk), 4))
            text = "".join(chr(b) if 0x20 <= b < 0x7F else "." for b in chunk)
            out.append("%08X     %s     %s" % (i, raw.ljust(38), text.ljust(16)))
        return out
    bad = None
    n = 0
    lengths = list(range(0, 50)) + ([63, 64, 65, 255, 256, 257] if thorough else [64, 65])
    samples = [bytes((i * 37 + seed) % 256 for i in range(ln)) for ln in lengths for seed in (11, 0x20, 0x7E)]
    # every printable character appears in the text column as itself - also those that mean something to a formatter
    samples += [bytes(range(0x20, 0x7F)), b"100% %s %d {0} {} \\n%(x)s %%", bytes([0x25]), bytes([0x7B, 0x7D, 0x5C])]
    for data in samples:
            ln = len(data)
            try:
                got = evaluate(r, pelx.with_heap(I, {DATA: data, Op("len", DATA): ln}))
            except CannotEval as e:
                raise AnalysisError("hexdump summary not evaluable: %s" % e)
            except (ValueError, TypeError, KeyError, IndexError) as e:
                got = ["<raises %s: %s>" % (type(e).__name__, e)]
            n += 1
            if list(got) != ref(data) and bad is None:
                bad = "%d bytes %s are dumped as %r, expected %r" % (ln, data.hex(), list(got)[-2:], ref(data)[-2:])
    rep.count("hexdump samples evaluated", n)
    rep.check(bad is None, rule, "hexdump() shows every byte of its input: offset, 16 bytes per line in 4-byte groups, printable column "
              "(summary run on %d byte strings of length 0..95)" % n, HEXDUMP, "dump.append(...)", bad)


def run(rep, prog, thorough):
    rep.explanation = (
        "parse_hlog_data summarised: whole-input hex dump first; one pass over the field table in order; stream position "
        "starts at 0 and advances by each field's width; break (not skip) at the first field that does not fit; a line iff the "
        "value just read is non-zero; line = name + 0x + upper hex padded to 2*width. Field grammar: width group = [12], name "
        "group = [^\"]+ (regex AST via re._parser); fields appended in file order as (name, size).")
    check_parse(rep, prog)
    check_fields(rep, prog)
    check_hexdump_lines(rep, prog, "C16.R2.hexdump", thorough)
    from ..effects import check_text_decoding
    check_text_decoding(rep, prog, "C16.R3.field-table", "io_drawer", "a definition file of the IO drawer decoders")
    from ..effects import check_no_memoised
    check_no_memoised(rep, prog, 'C16.R3.field-table', ['io_drawer', 'pel.hexdump'], 'the field table of an earlier decode is reused although the header file given now may differ')
