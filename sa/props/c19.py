"""C19 - decoding a PEL gives the same result whatever was decoded before it.

Shared-state inventory + write discipline: the only state that survives one decode
is created at module / class level (or as a default argument); every write to it
that a decode can perform is enumerated by interpreting all decode entry points,
and each must store a function of its key only (import caches, one-shot loads)."""
import ast

from ..core import AnalysisError
from ..interp import Interpreter, Instance, ListObj, DictObj
from ..terms import (Const, Sym, Op, Ite, Ref, TRUE, FALSE, NONE, Undef, walk, and_, or_, not_, is_const, is_int, subst, compare)
from .. import pelx, effects
from ..pelx import implies, env_str, unsat, DATA
from ..cli import FullMain, PT
from .c05 import decoder_runs
from .c09 import conj, dir_loops, is_stdout_print, DECODERS

LOG_SYMS = {"DATA", "P"}
_NONE_EXCS = {}


def log_derived(I, t, depth=0, _seen=None):
    """does the term depend on log bytes (stream data / payload) or on values read from them?"""
    from ..interp import Instance
    _seen = set() if _seen is None else _seen
    for x in walk(t):
        if isinstance(x, Sym) and x.kind in ("loopout", "loopvar") and x.info and depth < 4 and x not in _seen:
            # a value carried by a loop: what the loop computes for it
            _seen.add(x)
            L_ = I.loops.get(x.info[0]) if isinstance(x.info, tuple) and x.info else None
            nm_ = x.name.split(":", 1)[1] if ":" in x.name else None
            c_ = L_.carried.get(nm_) if L_ is not None and nm_ else None
            if c_ is not None and (log_derived(I, c_[1], depth + 1, _seen) or log_derived(I, c_[0], depth + 1, _seen)):
                return True
        if isinstance(x, Ref) and depth < 3:
            o_ = I.heap.get(x.oid)
            if isinstance(o_, Instance) and not getattr(o_, "shared", None) and x.oid not in _seen:
                _seen.add(x.oid)
                if any(log_derived(I, v_, depth + 1, _seen) for k_, v_ in o_.attrs.items() if k_ != "stream"):
                    return True
        if isinstance(x, Sym) and (x.name in LOG_SYMS or x.name.startswith(("refcode", "w", "hw", "word", "proc")) and x.kind == "sym" and False):
            return True
        if isinstance(x, Op) and x.op in ("getslice",) and any(isinstance(y, Sym) and y.name in LOG_SYMS for y in walk(x)):
            return True
        if isinstance(x, Ref) and depth < 3:
            o = I.heap.get(x.oid)
            if isinstance(o, ListObj) and not getattr(o, "shared", None):
                if any(log_derived(I, (i[1] if i[0] == "v" else i[2]), depth + 1) for i in o.items):
                    return True
            if isinstance(o, DictObj) and not getattr(o, "shared", None):
                if any(log_derived(I, v, depth + 1) for k, v, g, lc in o.entries):
                    return True
    return False


def captured_per_log(I, val):
    """a function object (lambda / nested def / bound method) kept in shared state drags along what it closes over: name of a
    captured per-log object or log-derived value, else None"""
    import ast as _ast
    from ..interp import Instance
    from ..terms import FuncV
    alts = []

    def lv(t):
        if isinstance(t, Ite):
            lv(t.a), lv(t.b)
        else:
            alts.append(t)
    lv(val)
    for t in alts:
        if not isinstance(t, FuncV):
            continue
        if t.selfv is not None and isinstance(t.selfv, Ref) and not getattr(I.heap.get(t.selfv.oid), "shared", None):
            return "the object the method is bound to"
        cf = getattr(t.info, "closure_frame", None)
        if cf is None:
            continue
        params = {a.arg for a in t.info.node.args.args + t.info.node.args.kwonlyargs + t.info.node.args.posonlyargs}
        for n in _ast.walk(t.info.node):
            if isinstance(n, _ast.Name) and n.id not in params and n.id in cf.env:
                v = cf.env[n.id]
                if isinstance(v, Ref):
                    o = I.heap.get(v.oid)
                    if isinstance(o, Instance) and not getattr(o, "shared", None):
                        return "%s (a %s object of the log being decoded)" % (n.id, o.cls.name)
                if not isinstance(v, FuncV) and log_derived(I, v):
                    return n.id
    return None


def classify_store(I, e, store):
    """shared_mutation event e with its dict_store/attr_store/append companion `store`"""
    label, how, ref = e.data
    if store is None:
        return "unknown", "mutation %s of %s" % (how, label)
    if store.kind in ("dict_store", "attr_store", "global_store", "class_store", "append"):
        cap = captured_per_log(I, store.data[2] if store.kind != "append" else store.data[1])
        if cap:
            return "bad", "a function that closes over %s is kept in shared state: every later decode that uses it works on the " \
                          "first log's data" % cap
    if store.kind == "dict_store":
        key, val = store.data[1], store.data[2]
        # (a parameter the path condition pins to a constant may already be replaced by it in one of the two terms)
        pins = {c.args[0]: c.args[1] for c in conj(store.guard) if isinstance(c, Op) and c.op == "eq" and len(c.args) == 2 and
                isinstance(c.args[0], Sym) and isinstance(c.args[1], Const)}
        if pins:
            key, val = subst(key, pins), subst(val, pins)
        if isinstance(val, Op) and val.op == "import_module":
            if val.args[0] == key:
                return "import-cache", None
            return "bad", "module cached under a key that is not its name (%r vs %r)" % (key, val.args[0])
        if val == NONE:
            return "import-cache-missing", None
        # one store for both outcomes:  module = import_module(k) / except ImportError: module = None;  cache[k] = module
        alts = []

        def leaves(t, cs):
            if isinstance(t, Ite):
                leaves(t.a, cs + conj(t.c)), leaves(t.b, cs + [not_(t.c)])
            else:
                alts.append((t, cs))
        leaves(val, [])
        if len(alts) > 1 and all(t == NONE or (isinstance(t, Op) and t.op == "import_module" and t.args[0] == key) or isinstance(t, Undef)
                                 for t, _ in alts):
            for t, cs in alts:
                if t == NONE and not any(isinstance(c, Sym) and c.kind == "exc" for c in cs):
                    return "bad", "the import cache records the module as missing on a path on which its import was not attempted " \
                                  "(under %s): a later decode with other options finds the stale entry" % (repr(and_(*cs))[:120],)
            _NONE_EXCS[id(store)] = [c for t, cs in alts if t == NONE for c in cs if isinstance(c, Sym) and c.kind == "exc"]
            return "import-cache-missing", None
        if log_derived(I, val) or log_derived(I, key):
            return "bad", "a value derived from the log being decoded is stored in shared state"
        return "load", None
    if store.kind in ("attr_store", "global_store", "class_store"):
        val = store.data[2]
        if log_derived(I, val):
            return "bad", "a value derived from the log being decoded is stored in shared state"
        # ... or WHICH value is stored is decided by the log (the condition of the store inside its function)
        entry = [c for c in I.events[:store.seq] if c.kind == "call" and c.data[0] == store.func]
        base = set(conj(entry[-1].guard)) if entry else set()
        local = [c for c in conj(store.guard) if c not in base]
        if any(log_derived(I, c) for c in local):
            return "bad", "what is stored in shared state is selected by the log being decoded (store under %s)" % (repr(and_(*local))[:100],)
        return "flag", None
    return "bad", "%s on an object shared by all decodes" % how


def missing_store_ok(I, store):
    """cache[k] = None is only sound when the handler it sits in can be entered solely by the import of k failing:
    the try body must not use the module (no call into it)."""
    excs = [c for c in conj(store.guard) if isinstance(c, Sym) and c.kind == "exc"] + list(_NONE_EXCS.get(id(store), []))
    if not excs:
        # stored unconditionally / on a normal path
        return False, "cache entry is set to None outside an exception handler"
    entered = {e.data[0] for e in I.events if e.kind == "try_enter"}
    excs = [x for x in excs if x in entered] or excs      # (handler-type selectors are not try statements)
    exc = excs[-1]
    te = [e for e in I.events if e.kind == "try_enter" and e.data[0] == exc]
    hs = [e for e in I.events if e.kind == "handler" and e.data[0] == exc]
    if not te or not hs:
        return False, "handler structure not understood"
    be = [e for e in I.events if e.kind == "try_body_end" and e.data[0] == exc]
    lo, hi = te[0].seq, (be[0].seq if be else hs[0].seq)
    body = [e for e in I.events if lo < e.seq < hi and not_(exc) in conj(e.guard)]
    uses = [e for e in body if e.kind == "methcall" and e.data[1] in ("parseUDToJson", "parseSRCToJson", "getMaintProcDesc") or
            (e.kind == "methcall" and isinstance(e.data[0], Op) and e.data[0].op in ("import_module",)) or
            (e.kind == "extcall" and e.data[0] in ("json.loads",))]
    if uses:
        u = uses[0]
        return False, "the try whose handler marks the module as missing also covers the use of the module (%s at line %s): a parser " \
                      "failing on one log disables it for every later log" % (u.data[1] if u.kind == "methcall" else u.data[0], getattr(u.node, "lineno", "?"))
    return True, None


def shared_write_problems(I):
    """[(event, message)] for every write a decode makes into state that outlives it and that is not one of the accepted
    idioms (import cache keyed by module name, 'missing' recorded by the import's own handler, one-shot log-independent
    load, flag).  Used by the properties whose statement implies 'this part of the output depends on this log only'."""
    out = []
    seen = set()
    evs = I.events
    for i, e in enumerate(evs):
        if e.kind != "shared_mutation":
            continue
        key = (e.func, getattr(e.node, "lineno", 0), e.data[0], e.data[1])
        if key in seen:
            continue
        seen.add(key)
        store = None
        for x in evs[i + 1:i + 4]:
            if x.kind in ("dict_store", "attr_store", "append", "extend", "listmut", "dictmut", "dict_update", "global_store", "class_store") and x.node is e.node:
                store = x
                break
        if e.data[0].startswith("class ") or e.data[0].startswith("default argument"):
            out.append((e, "decoded data is accumulated in %s, which is shared by all objects of that kind: a later section / log shows an "
                           "earlier one's values" % e.data[0]))
            continue
        kind, problem = classify_store(I, e, store)
        if kind in ("bad", "unknown"):
            out.append((e, "write to state shared by all decodes (%s): %s" % (e.data[0], problem)))
        elif kind == "import-cache-missing":
            ok, why = missing_store_ok(I, store)
            if not ok:
                out.append((e, why))
    return out


def check_decode_state(rep, prog, runs):
    rule = "C19.R3.shared-state-writes"
    seen = set()
    n = 0
    # a write site is reached by several entry points with different arguments: it is judged in every one of them and
    # reported once, with the worst verdict (a key that is a plain parameter in one run is a decoded field in another)
    sites = {}
    for label, I in runs:
        evs = I.events
        for i, e in enumerate(evs):
            if e.kind != "shared_mutation":
                continue
            key = (e.func, getattr(e.node, "lineno", 0), e.data[0], e.data[1])
            store = None
            for x in evs[i + 1:i + 4]:
                if x.kind in ("dict_store", "attr_store", "append", "extend", "listmut", "dictmut", "dict_update", "global_store", "class_store") and x.node is e.node:
                    store = x
                    break
            kind, problem = classify_store(I, e, store)
            verdict = None
            if e.data[0].startswith("class ") or e.data[0].startswith("default argument"):
                verdict = ("fail", "C19.R2.per-instance-accumulators", "per-log data is accumulated in %s, which is shared by all "
                           "instances: values of an earlier log appear in a later one" % e.data[0])
            elif kind == "bad" or kind == "unknown":
                verdict = ("fail", rule, "write to shared state (%s): %s" % (e.data[0], problem))
            elif kind == "import-cache-missing":
                ok, why = missing_store_ok(I, store)
                verdict = ("ok" if ok else "fail", rule, why if not ok else
                           "%s:%s marks a module missing only when its import failed" % (e.func.split(".")[-1], getattr(e.node, "lineno", "?")))
            else:
                verdict = ("ok", rule, "%s:%s %s store into %s is a function of its key only" % (
                    e.func.split(".")[-1], getattr(e.node, "lineno", "?"), kind, e.data[0]))
            old = sites.get(key)
            if old is None or (old[1][0] == "ok" and verdict[0] == "fail"):
                sites[key] = (e, verdict)
    for key, (e, (st_, rl_, msg_)) in sites.items():
        n += 1
        seen.add(key)
        if st_ == "fail":
            rep.fail(rl_, e.func, e.node, msg_, node=e.node)
        else:
            rep.ok(rl_, msg_)
    for label, I in runs:
        evs = I.events
        # global rebinding during decode
        for e in evs:
            if e.kind == "global_store" and e.func and not e.func.endswith("<module>") and "." in e.func:
                k2 = (e.func, e.data[1])
                if k2 in seen:
                    continue
                seen.add(k2)
                n += 1
                rep.check(not log_derived(I, e.data[2]), rule, "global %s.%s is rebound to a log-independent value" % (e.data[0], e.data[1]),
                          e.func, e.node, "a module-level name is rebound to a value derived from the log being decoded", node=e.node)
    rep.count("shared-state write sites reached by decoding", n)
    rep.floor("shared-state write sites", n, 5)


def check_inventory(rep, prog, runs):
    """every module/class-level mutable object of the decode modules is classified"""
    rule = "C19.R1.inventory"
    I = runs[0][1]
    mutated = {}
    for label, J in runs:
        for e in J.events:
            if e.kind == "shared_mutation":
                mutated.setdefault(e.data[0], set()).add(e.func)
    n = 0
    inv = []
    for m in prog.modules.values():
        for node in m.tree.body + [s for c in m.classes.values() for s in c.node.body]:
            tgt = None
            if isinstance(node, ast.Assign) and len(node.targets) == 1 and isinstance(node.targets[0], ast.Name):
                tgt, val = node.targets[0].id, node.value
            elif isinstance(node, ast.AnnAssign) and isinstance(node.target, ast.Name) and node.value is not None:
                tgt, val = node.target.id, node.value
            if tgt is None:
                continue
            if isinstance(val, (ast.List, ast.Dict, ast.Set)) or (isinstance(val, ast.Call) and effects.dotted(val.func) in (
                    "dict", "list", "set", "OrderedDict", "collections.OrderedDict", "defaultdict", "collections.defaultdict", "Counter", "bytearray")):
                n += 1
                inv.append("%s.%s" % (m.name, tgt))
    rep.count("module/class-level mutable containers", n)
    rep.note("inventory: " + ", ".join(inv))
    # memoisation decorators on functions reachable from decoding
    for m in prog.modules.values():
        for f in m.all_functions():
            for d in f.node.decorator_list:
                dn = effects.dotted(d.func if isinstance(d, ast.Call) else d) or ""
                if dn.split(".")[-1] in ("lru_cache", "cache", "cached_property"):
                    used_with_log = False
                    for label, J in runs:
                        for e in J.events:
                            if e.kind == "call" and e.data[0] == f.qual and any(log_derived(J, a) for a in e.data[1]):
                                used_with_log = True
                    rep.check(not used_with_log, rule, "memoised function %s is keyed by log-independent arguments" % f.qual, f.qual, d,
                              "memoised function is called with values derived from the log: its cache makes results depend on earlier logs",
                              node=d, file=m.rel)
    rep.ok(rule, "%d shared containers inventoried; all writes to them during decoding are classified by C19.R3" % n)


def check_dir_loops(rep, prog):
    """no per-file value may flow from one directory entry to the next (stale locals after a failed decode)"""
    rule = "C19.R4.no-value-outlives-its-file"
    fm = FullMain(prog)
    dls = dir_loops(fm)
    n = 0
    for L in dls:
        for k, (init, nxt, d, w) in L.carried.items():
            if "." in k or k.startswith("DataStream"):
                continue
            nx = fm.norm(nxt)
            lvs = [x for x in walk(nx) if isinstance(x, Sym) and x.kind == "loopvar" and x.name.endswith(":" + k)]
            if not lvs:
                continue       # reassigned on every path
            # value alternatives other than "unchanged"
            vals = []

            def alts(t):
                if isinstance(t, Ite):
                    alts(t.a), alts(t.b)
                else:
                    vals.append(t)
            alts(nx)
            carried_data = [v for v in vals if v != lvs[0] and any(isinstance(x, Op) and x.op.startswith("call:") and x.op[5:] in DECODERS for x in walk(v))]
            if not carried_data:
                continue
            # the stale value matters only if something inside the loop reads it before reassigning: any event using lv
            body = fm.events[L.events[0]:L.events[1]]
            users = [e for e in body if e.kind in ("print", "dict_store", "opaquecall", "extcall", "append") and
                     any(x == lvs[0] for a in _event_terms(e) for x in walk(fm.norm(a)))]
            n += 1
            rep.check(not users, rule, "%s: per-file variable '%s' is never read with the previous file's value" % (L.func.split(".")[-1], k), L.func,
                      users[0].node if users else L.node,
                      "variable '%s' keeps the value decoded from the previous file when the current file fails to decode, and that stale "
                      "value is then used (%s at line %s): one log's data shows up in another log's slot" % (
                          k, users[0].kind if users else "", getattr(users[0].node, "lineno", "?") if users else ""),
                      node=users[0].node if users else L.node)
    rep.count("per-file loops examined", len(dls))
    rep.count("loop-carried decode results", n)


def _event_terms(e):
    d = e.data
    out = []
    for x in d:
        if isinstance(x, (tuple, list)):
            for y in x:
                if isinstance(y, tuple):
                    out += [z for z in y if hasattr(z, "children")]
                elif hasattr(y, "children"):
                    out.append(y)
        elif hasattr(x, "children"):
            out.append(x)
    return out


def check_registry(rep, prog, runs):
    """the registry object is written only while it is constructed"""
    rule = "C19.R3.shared-state-writes"
    bad = []
    for label, I in runs:
        for e in I.events:
            if e.kind == "shared_mutation" and "Registry" in e.func and not e.func.endswith("__init__") and not e.func.endswith("loadJson"):
                bad.append(e)
    rep.check(not bad, rule, "registry entries are never modified after loading", "pel.peltool.registry.Registry", "self.pels",
              "the loaded message registry is modified during decoding")


ONE_SHOT_OPS = ("call:filter", "call:map", "zip", "enumerate", "reversed", "call:iter", "file", "call:os.scandir", "call:os.walk")


def one_shot(t, I=None):
    from ..interp import GenV
    if isinstance(t, GenV):
        return "generator object"
    if I is not None and isinstance(t, Ref) and getattr(I.heap.get(t.oid), "comp", None) == "gen":
        return "generator expression / filter() / map() object"
    if isinstance(t, Op) and (t.op in ONE_SHOT_OPS or t.op.startswith("call:itertools.")):
        return t.op.replace("call:", "") + "(...)"
    return None


def check_one_shot_iterators(rep, prog, runs):
    """an iterator kept in state that outlives one decode is consumed by the first decode that walks it: the second
    decode sees what is left (nothing, or the tail)"""
    rule = "C19.R3.shared-state-writes"
    from ..interp import Instance
    seen = set()
    n = 0
    for label, I in runs:
        for oid, o in I.heap.items():
            if not getattr(o, "shared", None):
                continue
            vals = []
            if isinstance(o, Instance):
                vals = [("attribute ." + k, v) for k, v in o.attrs.items()]
            elif isinstance(o, DictObj):
                vals = [("entry %r" % (k,), v) for k, v, g, lc in o.entries]
            elif isinstance(o, ListObj):
                vals = [("element", (it[1] if it[0] == "v" else it[2])) for it in o.items]
            for what, v in vals:
                alts = []

                def lv(t):
                    if isinstance(t, Ite):
                        lv(t.a), lv(t.b)
                    else:
                        alts.append(t)
                lv(v)
                for a in alts:
                    kind = one_shot(a, I)
                    key = (getattr(o, "shared", None), what, kind)
                    if key in seen:
                        continue
                    seen.add(key)
                    n += 1
                    rep.check(kind is None, rule, "%s: %s is not a one-shot iterator" % (o.shared, what), str(o.shared), what,
                              "%s of an object shared by all decodes (%s) holds a one-shot iterator (%s): the first decode that walks "
                              "it consumes it and every later decode sees the remainder" % (what, o.shared, kind))
    rep.count("values held by shared objects", n)


def check_options_reusable(rep, fm, rule="C19.R3.shared-state-writes"):
    """the options object main() builds is read again for every file of a directory mode: a selection list kept there as a
    generator / map / filter object is consumed by the first file, and the later files are selected against nothing"""
    from ..interp import Instance
    I = fm.I
    n = 0
    for oid, o in I.heap.items():
        if not (isinstance(o, Instance) and o.cls.name == "Config"):
            continue
        for k, v in o.attrs.items():
            alts = []

            def lv(t):
                if isinstance(t, Ite):
                    lv(t.a), lv(t.b)
                else:
                    alts.append(t)
            lv(v)
            kinds = sorted({kd for kd in (one_shot(a, I) for a in alts) if kd})
            n += 1
            rep.check(not kinds, rule, "Config.%s can be read again for every file" % k, "pel.peltool.peltool.main", "config.%s = ..." % k,
                      "the option Config.%s can hold a one-shot iterator (%s): the first file that is tested against it consumes "
                      "it and every later file of the run is selected against what is left" % (k, ", ".join(kinds)))
    rep.floor("option attributes", n, 5)


def check_loaded_data_and_options(rep, prog, runs):
    """(a) values reached through data that was loaded once and is shared (the message registry, component-id files) are
    never modified in place by a decode; (b) a decode does not change the options object it was given"""
    rule = "C19.R3.shared-state-writes"
    n = 0
    seen = set()
    for label, I in runs:
        for e in I.events:
            if e.kind == "ext_setitem" and any(isinstance(x, Op) and x.op in ("call:json.load", "call:json.loads") and
                                               any(isinstance(y, Op) and y.op == "file" for y in walk(x)) for x in walk(e.data[0])):
                k = (e.func, getattr(e.node, "lineno", 0))
                if k in seen:
                    continue
                seen.add(k)
                n += 1
                rep.fail(rule, e.func, e.node, "an element of data loaded from a file and kept for all decodes (%s) is overwritten in place: "
                         "the next decode that uses this entry sees the values of this log" % (repr(e.data[0])[:100],), node=e.node)
            # ... or a mutating method is called on a value that is part of such loaded data (pop / append / sort / update ...)
            if e.kind == "methcall" and e.data[1] in ("pop", "append", "extend", "remove", "clear", "insert", "sort", "reverse", "update",
                                                      "setdefault", "popitem", "add", "discard") and \
                    any(isinstance(x, Op) and x.op in ("call:json.load", "call:json.loads") and any(isinstance(y, Op) and y.op == "file" for y in walk(x))
                        for x in walk(e.data[0])):
                k = (e.func, getattr(e.node, "lineno", 0))
                if k not in seen:
                    seen.add(k)
                    n += 1
                    rep.fail(rule, e.func, e.node, "%s() is called on a value that belongs to data loaded from a file and kept for all decodes (%s): the "
                             "next decode that uses this entry finds it changed" % (e.data[1], repr(e.data[0])[:100]), node=e.node)
            # ... or an element looked up in a container that outlives the decode (an index built once, a table of a
            # module-level object) gets a value of this log written into it
            if e.kind == "ext_setitem":
                held = [x for x in walk(e.data[0]) if isinstance(x, Ref) and getattr(I.heap.get(x.oid), "shared", None)]
                looked_up = isinstance(e.data[0], Op) and e.data[0].op in ("dictget", "getitem", "elem", "m:get", "m:setdefault")
                if held and looked_up and (log_derived(I, e.data[2]) or log_derived(I, e.data[1])):
                    k = (e.func, getattr(e.node, "lineno", 0))
                    if k not in seen:
                        seen.add(k)
                        n += 1
                        rep.fail(rule, e.func, e.node, "an entry looked up in %s, which is shared by all decodes, is overwritten in place with a value "
                                 "derived from the log being decoded: the next decode that finds this entry sees the values of this log" % (
                                     I.heap[held[0].oid].shared,), node=e.node)
    # (b) drivers of a whole decode, with the section decoders opaque
    for fn, extra in (("parsePEL", [Const(False)]), ("parsePELSummary", [])):
        I = Interpreter(prog, hooks={"opaque": {"pel.peltool.peltool.sectionFun", "pel.peltool.peltool.considerPEL", "pel.peltool.peltool.prettyPrint",
                                                "pel.peltool.peltool.buildOutput"}})
        st = pelx.new_stream(I)
        cfg = I.new("pel.peltool.config.Config")
        seq0 = len(I.events)
        I.call("pel.peltool.peltool." + fn, [st, cfg] + extra)
        for e in I.events[seq0:]:
            if e.kind == "attr_store" and e.data[0] == cfg:
                n += 1
                rep.fail(rule, e.func, e.node, "%s changes the options object it was given (Config.%s): if the decode is left by an exception, or "
                         "simply afterwards, every later decode with the same options runs with another setting" % (fn, e.data[1]), node=e.node)
    rep.count("in-place updates of loaded data / option writes examined", n)
    if not n:
        rep.ok(rule, "no decode overwrites loaded shared data or its options object")


def run(rep, prog, thorough):
    rep.explanation = (
        "All decode entry points (every section kind, both header decoders, every shipped plugin entry) are interpreted and "
        "each write to an object created at module/class level or as a default argument is enumerated: it must be an import "
        "cache store keyed by the module name (None only in a handler whose try covers nothing but the import), a one-shot "
        "load of log-independent data, or a flag; nothing derived from log bytes may be stored. Class-level accumulators and "
        "log-keyed memoisation are violations. In directory modes no loop-carried local holding a decode result may be read "
        "in a later iteration.")
    runs = decoder_runs(prog)
    # the sections that consult plug-ins once more with the plug-in switch symbolic: what a decode leaves behind must not
    # depend on the options of the decode that happened to run first
    from .c01 import run_sectionfun
    for sid in (0x5544, 0x4544, 0x5053):
        I_, _, _ = run_sectionfun(prog, sid, Sym("plugins", "exc"))
        runs.insert(0, ("sectionFun(0x%04X) with a symbolic plug-in switch" % sid, I_))      # examined first: sites are reported once
    rep.count("decode entry points interpreted", len(runs))
    check_decode_state(rep, prog, runs)
    check_inventory(rep, prog, runs)
    check_registry(rep, prog, runs)
    check_one_shot_iterators(rep, prog, runs)
    check_loaded_data_and_options(rep, prog, runs)
    check_dir_loops(rep, prog)
    # what --all-pels shows for one file does not depend on the other files of the directory (e.g. two files with the same
    # entry id): the mode's stdout summary run over all outcome patterns (rule shared with C06 / C08 / C09)
    from .c09 import check_all_separator
    from ..cli import FullMain
    fm = FullMain(prog)
    check_all_separator(rep, fm, "C19.R4.no-value-outlives-its-file")
    check_options_reusable(rep, fm)
    from ..effects import check_no_memoised
    check_no_memoised(rep, prog, 'C19.R3.shared-state-writes', None, 'a decode returns what an earlier decode computed for equal arguments')
    from ..effects import check_lazy_init_order
    check_lazy_init_order(rep, prog, "C19.R3.shared-state-writes")
