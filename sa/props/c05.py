"""C05 - malformed PELs are rejected cleanly: never a hang, crash or fabricated decode."""
import ast
import itertools

from ..core import AnalysisError
from ..interp import Interpreter, Instance
from ..terms import (Const, Sym, Op, Ite, Ref, Lin, TRUE, FALSE, NONE, walk, and_, or_, not_, is_const, is_int, subst,
                     evaluate, CannotEval, sub, add, compare)
from .. import pelx, effects
from ..pelx import implies, env_str, unsat, DATA, as_int_field, as_slice
from ..cli import FullMain, PT, MODE_FUNCS, ARGS
from .c12 import tries_covering
from .c09 import DECODERS, BROAD, is_stdout_print, conj, dir_loops
from .c01 import run_sectionfun, DISPATCH, HEXDUMP_ONLY

DS = "pel.datastream.DataStream"


def mk_stream(I, prog):
    ci = prog.cls(DS)
    o = Instance(ci, ())
    o.attrs.update(data=DATA, size=Sym("size", "int"), index=Sym("idx", "int"), byte_order=Const("big"), is_signed=Const(False))
    return I.alloc(o)


def check_stream_guards(rep, prog):
    """R1: every slice of the buffer / advance of the index happens under a path condition (made of real
    conditionals - assert statements are not path conditions: python -O removes them) that entails
    0 < n and index + n <= size."""
    rule = "C05.R1.range-check-survives-O"
    n_sites = 0
    for meth in ("get_mem", "inc_index", "get_int"):
        I = Interpreter(prog)
        st = mk_stream(I, prog)
        n = Sym("n", "int")
        if not prog.has_func(DS + "." + meth):
            raise AnalysisError("anchor %s.%s not found" % (DS, meth))
        I.method(st, meth, [n])
        idx, size = Sym("idx", "int"), Sym("size", "int")
        sites = []
        for e in I.events:
            if e.kind == "slice" and e.data[0] == DATA:
                sites.append((e, "reads self.data[%r:%r]" % (e.data[1], e.data[2]), e.data[1], e.data[2]))
            if e.kind == "attr_store" and e.data[0] == st and e.data[1] == "index":
                sites.append((e, "advances self.index", idx, e.data[2]))
        if meth != "get_int" and not sites:
            raise AnalysisError("DataStream.%s no longer reads the buffer / advances the index in a recognisable way" % meth)
        for e, what, lo, hi in sites:
            n_sites += 1
            bad = None
            for iv, nv, sv in itertools.product(range(0, 5), range(-1, 6), range(0, 6)):
                env = {idx: iv, n: nv, size: sv, Op("len", DATA): sv}
                try:
                    g = bool(evaluate(e.guard, env))
                except CannotEval as ex:
                    raise AnalysisError("guard of %s not evaluable: %s" % (what, ex))
                if g:
                    try:
                        lov, hiv = evaluate(lo, env), evaluate(hi, env)
                    except CannotEval:
                        lov, hiv = iv, iv + nv
                    if not (nv > 0 and 0 <= lov and hiv <= sv):
                        bad = "index=%d, size=%d, n=%d is let through" % (iv, sv, nv)
                        break
            rep.check(bad is None, rule, "DataStream.%s %s only under a real (non-assert) check 0 < n and index + n <= size" % (meth, what),
                      e.func, e.node, "DataStream.%s %s without a range check that survives python -O (assert statements are "
                      "removed by -O): %s; a truncated PEL is decoded from missing bytes" % (meth, what, bad), node=e.node)
        # get_int must go through the checked read
        if meth == "get_int":
            via = [e for e in I.events if e.kind == "call" and e.data[0] == DS + ".get_mem"]
            rep.check(bool(via) or bool(sites), rule, "get_int reads through the checked primitive", DS + ".get_int", "get_int",
                      "get_int does not read through get_mem / a checked slice")
    # check_range's verdict
    I = Interpreter(prog)
    st = mk_stream(I, prog)
    n = Sym("n", "int")
    r = I.truth(I.method(st, "check_range", [n]))
    bad = None
    for iv, nv, sv in itertools.product(range(0, 5), range(1, 6), range(0, 6)):
        env = {Sym("idx", "int"): iv, n: nv, Sym("size", "int"): sv}
        try:
            if bool(evaluate(r, env)) != (iv + nv <= sv):
                bad = "check_range(%d) at index %d of %d answers %s" % (nv, iv, sv, bool(evaluate(r, env)))
                break
        except CannotEval as ex:
            raise AnalysisError("check_range result not evaluable: %s" % ex)
    rep.check(bad is None, rule, "check_range(n) == (index + n <= size) for n > 0", DS + ".check_range", "return ...", bad)
    rep.count("buffer access sites in DataStream", n_sites)


PLUGIN_ENTRIES = [
    ("udparsers.oe500.oe500.parseUDToJson", [[Const(k), Const(1), DATA] for k in (1, 2, 3, 4, 5, 99)]),
    ("udparsers.m2c00.m2c00.parseUDToJson", [[Const(k), Const(v), DATA] for k in (72, 73, 84, 1) for v in (1, 2)][:8]),
    ("srcparsers.oe500.oe500.parseSRCToJson", [[Sym("refcode")] + [Sym("w%d" % i) for i in range(2, 10)]]),
    ("srcparsers.osrc.osrc.parseSRCToJson", [[Sym("refcode")] + [Sym("w%d" % i) for i in range(2, 10)]]),
    ("calloutparsers.ocallouts.ocallouts.getMaintProcDesc", [[Sym("proc")]]),
]


def decoder_runs(prog):
    """(label, Interpreter) for every decode entry point: all section kinds + shipped plugin entry points"""
    out = []
    for sid in list(DISPATCH) + HEXDUMP_ONLY[:1] + [0x5A5A]:
        I, st, o = run_sectionfun(prog, sid, True)
        out.append(("sectionFun(0x%04X)" % sid, I))
    for fn, extra in (("generatePH", []), ("generateUH", [Sym("creatorID")])):
        I = Interpreter(prog)
        st = pelx.new_stream(I)
        o = I.x_collections_OrderedDict([], {}, None)
        I.call(PT + fn, [st] + extra + [o])
        out.append((fn, I))
    for q, arglists in PLUGIN_ENTRIES:
        if not prog.has_func(q):
            continue
        for args in arglists:
            I = Interpreter(prog)
            I.call(q, args)
            out.append(("%s(%s)" % (q.split(".")[-2] + "." + q.split(".")[-1], repr(args[0])[:12]), I))
    return out


def is_stream_obj(I, ref):
    o = I.heap.get(ref.oid) if isinstance(ref, Ref) else None
    return isinstance(o, Instance) and o.cls.qual == DS


def check_unchecked_access(rep, runs):
    rule = "C05.R2.no-unchecked-access"
    n = 0
    for label, I in runs:
        datas = set()
        for o in I.heap.values():
            if isinstance(o, Instance) and o.cls.qual == DS:
                d = o.attrs.get("data")
                if d is not None:
                    datas.add(d)
        # everything stored into output containers
        stored = []
        for o in I.heap.values():
            if getattr(o, "entries", None) is not None:
                stored += [v for k, v, g, lc in o.entries] + [k for k, v, g, lc in o.entries]
            elif getattr(o, "items", None) is not None:
                stored += [(it[1] if it[0] == "v" else it[2]) for it in o.items]
        stored_terms = set()

        def value_walk(t, seen=None):
            """sub-terms a value is computed FROM; what merely selects between alternatives (conditions) is control flow"""
            seen = set() if seen is None else seen
            if id(t) in seen:
                return
            seen.add(id(t))
            stored_terms.add(t)
            if isinstance(t, Ite):
                value_walk(t.a, seen), value_walk(t.b, seen)
            elif isinstance(t, Op):
                for a_ in t.args:
                    value_walk(a_, seen)
            elif isinstance(t, Lin):
                for a_, _ in t.terms:
                    value_walk(a_, seen)
        for t in stored:
            value_walk(t)
        readers = {e.func for e in I.events if e.kind == "stream_data_read"}
        for e in I.events:
            if e.kind == "call" and e.func in readers and any(a in datas for a in e.data[1]):
                readers.add(e.data[0])
        for e in I.events:
            if e.kind == "slice" and e.data[0] in datas and not e.func.startswith(DS + ".") and e.func in readers:
                n += 1
                t = Op("getslice", e.data[0], e.data[1], e.data[2])
                leaks = t in stored_terms
                rep.check(not leaks, rule, "%s: buffer peek at %s:%s only selects a branch" % (label, e.func.split(".")[-1], getattr(e.node, "lineno", "?")),
                          e.func, e.node, "bytes are taken from the stream buffer without a range check and flow into the output "
                          "(read past the end yields fabricated values)", node=e.node)
            if e.kind == "call" and e.data[0] == DS + ".check_range" and e.func.startswith("pel.peltool."):
                # a PEL decoder that asks whether bytes remain and carries on without them accepts truncated input: after a
                # "no" the decode must not be able to complete (the checked reads that follow have to run into the end all the
                # same).  Completion = the entry point's last event; its path condition carries every "read succeeded" fact.
                n += 1
                rets = [x for x in I.events[e.seq:] if x.kind == "return" and x.func == DS + ".check_range" and len(x.stack) == len(e.stack) + 1]
                res = rets[0].data[0] if rets else None
                last = I.events[-1]
                done = None
                if res is not None:
                    done = unsat(and_(last.guard, *[c for c in conj(e.guard)], not_(res)))[0]
                rep.check(bool(done), rule, "%s:%s a failed check_range cannot lead to a completed decode" % (e.func.split(".")[-1], getattr(e.node, "lineno", "?")),
                          e.func, e.node, "the decoder tests the remaining length itself (check_range) and can carry on without the bytes: a "
                          "section cut short at this point is decoded as if it were complete", node=e.node)
            if e.kind == "attr_store" and is_stream_obj(I, e.data[0]) and e.data[1] in ("index", "data", "size") and \
                    not e.func.startswith(DS + ".") and e.func.startswith("pel.peltool."):
                n += 1
                rep.fail(rule, e.func, e.node, "stream .%s is written outside DataStream: the position no longer follows the checked "
                         "reads" % e.data[1], node=e.node)
    rep.count("buffer accesses outside DataStream", n)


def check_loops(rep, runs):
    """R4 termination: every continuing iteration of a data-driven loop performs a checked stream read
    (so size - index is a ranking function) or advances a counter/list the condition tests."""
    rule = "C05.R4.termination"
    seen = set()
    n = 0
    for label, I in runs:
        for L in I.loops.values():
            key = (L.func, getattr(L.node, "lineno", 0))
            if key in seen:
                continue
            data_driven = False
            if L.kind == "while":
                data_driven = True
            elif L.trip is not None and isinstance(L.iter, Op) and L.iter.op == "range":
                for x in walk(L.trip):
                    f = as_int_field(x)
                    if f is not None:
                        w = sub(f[1], f[0])
                        if is_int(w) and w.v >= 3:
                            data_driven = True
            if data_driven and L.kind == "for" and L.trip is not None:
                # a trip count that is capped by the amount of input ( min(count field, bytes left // record size) ) cannot
                # be driven beyond the input by a crafted field
                def capped(t):
                    if isinstance(t, Op) and t.op == "min":
                        return any(not any(as_int_field(y) is not None for y in walk(a)) and
                                   any(isinstance(y, Op) and y.op == "len" for y in walk(a)) for a in t.args)
                    if isinstance(t, Op) and t.op in ("rangelen",) and len(t.args) == 3:
                        # range(a, a + n*k, k): n iterations
                        try:
                            span = sub(t.args[1], t.args[0])
                        except Exception:
                            return False
                        return any(capped(y) for y in walk(span))
                    if isinstance(t, Op) and t.op in ("floordiv", "max"):
                        return capped(t.args[0])
                    if isinstance(t, Lin):
                        return all(capped(x) or not any(as_int_field(y) is not None for y in walk(x)) for x, _ in t.terms) and \
                            any(capped(x) for x, _ in t.terms)
                    return False
                if capped(L.trip):
                    data_driven = False
            if not data_driven:
                continue
            seen.add(key)
            n += 1
            body = I.events[L.events[0]:L.events[1]]
            base = getattr(L, "body_guard_full", None) or getattr(L, "body_guard_set", set())

            def rel(g):
                return and_(*[c for c in conj(g) if c not in base])
            reads = [e for e in body if e.kind == "call" and e.data[0] in (DS + ".get_mem", DS + ".inc_index") and
                     len(e.data[1]) >= 2 and L in e.loops]
            progress = or_(*[rel(e.guard) for e in reads]) if reads else FALSE
            # (a return / break only leaves this loop when it belongs to the loop's own activation: helpers called in the
            # body return all the time)
            leave = [rel(e.guard) for e in body if e.kind in ("break", "return", "raise", "exit") and L in e.loops and e.loops[-1] is L
                     and (e.kind in ("raise", "exit") or (e.func == L.func and len(e.stack) == len(L.stack)))]
            cont = and_(*[not_(c) for c in leave])
            ok = False
            why = ""
            if reads:
                ok, env = implies(cont, progress)
                why = "a path through the body neither reads from the stream nor leaves the loop (%s)" % env_str(env)
            if not ok and L.kind == "while":
                # counter / list-length progress: a location or list the condition tests grows by a positive constant
                for k, (init, nxt, d, w) in L.carried.items():
                    if d is not None and is_int(d) and d.v != 0 and L.cond is not None and \
                            any(isinstance(x, Sym) and x.kind == "loopvar" and x.name.endswith(":" + k) for x in walk(L.cond)):
                        ok = True
                    # the same counter in closed form (the condition was rewritten to  start + i*step ) ...
                    if d is not None and is_int(d) and d.v != 0 and L.cond is not None and "." not in k and \
                            any(x == L.idx for x in walk(L.cond)) and \
                            not any(isinstance(x, Sym) and x.kind == "loopvar" for x in walk(L.cond)):
                        ok = True
                    # ... or stepping by a constant on every continuing iteration without a closed form (conditional start value)
                    lvs_ = [x for x in walk(L.cond) if isinstance(x, Sym) and x.kind == "loopvar" and x.name.endswith(":" + k)] if L.cond is not None else []
                    if lvs_ and "." not in k:
                        step_ = nxt.a if isinstance(nxt, Ite) else nxt
                        try:
                            dl_ = sub(step_, lvs_[0])
                        except Exception:
                            dl_ = None
                        if dl_ is not None and is_int(dl_) and dl_.v != 0 and (not isinstance(nxt, Ite) or nxt.b == lvs_[0]):
                            ok = True
                apps = [e for e in body if e.kind == "append" and rel(e.guard) == TRUE]
                if apps and L.cond is not None and any(isinstance(x, Op) and x.op in ("count", "len") for x in walk(L.cond)):
                    ok = True
                if not ok and ast_len_progress(L.node):
                    ok = True
                if not ok and L.cond is not None:
                    # the stream position itself is the ranking function: on every iteration that continues, the position
                    # after it is strictly larger (decided by evaluation over structured samples of the fields involved)
                    for k, (init, nxt, d, w) in L.carried.items():
                        if not k.endswith(".index"):
                            continue
                        lv_ = [x for x in walk(L.cond) if isinstance(x, Sym) and x.kind == "loopvar" and x.name.endswith(":" + k)]
                        if not lv_:
                            continue
                        cont_ = and_(L.cond, *[not_(s_) for s_ in L.stops])
                        try:
                            stuck = pelx.ite(and_(cont_, compare("le", nxt, lv_[0])), Const(1), Const(0))
                            if pelx.equivalent(stuck, Const(0))[0]:
                                ok = True
                        except Exception:
                            pass
                if not reads:
                    why = "the loop body performs no checked stream read and advances nothing its condition tests"
            rep.check(ok, rule, "%s:%s every continuing iteration makes progress (checked read / counter)" % (L.func.split(".")[-1], key[1]),
                      L.func, L.node, "data-driven loop can iterate without consuming input: %s - a crafted length/count field makes "
                      "decoding hang" % why, node=L.node)
    rep.count("data-driven loops", n)
    rep.floor("data-driven loops checked", n, 5)


def ast_len_progress(node):
    """while len(X) < K: ... X.append(...) unconditionally in the body"""
    if not isinstance(node, ast.While):
        return False
    names = {a.args[0].id for a in ast.walk(node.test) if isinstance(a, ast.Call) and isinstance(a.func, ast.Name)
             and a.func.id == "len" and a.args and isinstance(a.args[0], ast.Name)}
    for st in node.body:
        if isinstance(st, ast.Expr) and isinstance(st.value, ast.Call) and isinstance(st.value.func, ast.Attribute) and \
                st.value.func.attr in ("append", "extend") and isinstance(st.value.func.value, ast.Name) and st.value.func.value.id in names:
            return True
    return False


def S_base(e):
    return e.data[0]


def check_barriers_all_modes(rep, prog):
    rule = "C05.R3.ordinary-errors"
    fm = FullMain(prog)
    ev = fm.events
    handlers, try_enter = {}, {}
    for e in ev:
        if e.kind == "try_enter":
            try_enter[e.data[0]] = e
        if e.kind == "handler":
            handlers.setdefault(e.data[0], []).append(e)
    n = 0
    for D in [e for e in ev if e.kind == "opaquecall" and e.data[0] in DECODERS]:
        n += 1
        where = D.func
        ok, why = False, "no enclosing try"
        for exc in tries_covering(ev, D):
            hs = handlers.get(exc, [])
            broad = [h for h in hs if h.data[1] in BROAD]
            if not broad:
                why = "handler only catches %s: other exception types (IndexError, AttributeError, UnicodeDecodeError, ...) escape as a traceback" % [h.data[1] for h in hs]
                continue
            body = [x for x in ev if x.seq > broad[0].seq and exc in conj(fm.norm(x.guard))]
            rer = [x for x in body if x.kind == "raise"]
            diag = [x for x in body if x.kind == "print" and not is_stdout_print(x)]
            if rer:
                why = "handler re-raises"
            elif not diag:
                why = "handler does not report the failure on stderr"
            else:
                ok = True
                break
        rep.check(ok, rule, "%s:%s decode call is inside try/except Exception that reports on stderr" % (where.split(".")[-1], getattr(D.node, "lineno", "?")),
                  where, D.node, "a decode error is not turned into an ordinary stderr report (%s)" % why, node=D.node)
    rep.floor("decode call sites in the CLI", n, 10)
    # what is read out of a decode result (summary['SRC'], ...) can fail for a damaged PEL just like the decode itself:
    # it must sit behind the same kind of barrier
    m = 0
    for S in [e for e in ev if e.kind == "subscript" and any(isinstance(x, Op) and x.op.startswith("call:") and x.op[5:] in DECODERS
                                                             for x in walk(S_base(e)))]:
        m += 1
        covered = any(any(h.data[1] in BROAD for h in handlers.get(exc, [])) for exc in tries_covering(ev, S))
        rep.check(covered, rule, "%s:%s look-up in a decode result is inside try/except Exception" % (S.func.split(".")[-1], getattr(S.node, "lineno", "?")),
                  S.func, S.node, "a field is read out of a decode result outside any 'except Exception' barrier: a PEL without that field "
                  "(e.g. no primary SRC) ends the run with a traceback", node=S.node)
    rep.count("look-ups in decode results", m)
    # parsePEL's own exits: only under exit_on_error, status 1
    I = Interpreter(prog, hooks={"opaque": {PT + "sectionFun", PT + "considerPEL", PT + "prettyPrint", PT + "buildOutput"}})
    st = pelx.new_stream(I)
    cfg = I.new("pel.peltool.config.Config")
    eoe = Sym("exit_on_error", "exc")
    I.call(PT + "parsePEL", [st, cfg, eoe])
    for e in I.events:
        if e.kind == "exit":
            okx, env = implies(e.guard, eoe)
            code = e.data[1][0] if e.data[1] else Const(0)
            rep.check(okx and code in (Const(1), Const(0)), rule, "parsePEL exits only when asked to (exit_on_error) with status 0/1", e.func, e.node,
                      "the decoder can end the process without exit_on_error / with status %r" % (code,), node=e.node)
    # only the -f path may ask for it
    for D in [e for e in ev if e.kind == "opaquecall" and e.data[0] == PT + "parsePEL"]:
        a = D.data[1]
        if len(a) >= 3 and a[2] != Const(False):
            okf, env = implies(fm.norm(D.guard), fm.arg("file"))
            rep.check(okf, rule, "exit_on_error is requested on the --file path only", D.func, D.node,
                      "exit_on_error=%r outside the --file path" % (a[2],), node=D.node)
    # every way the command line ends the process: status 0 or 1 (None = 0, a message string = 1), nothing computed from the input
    nx = 0
    for e in ev:
        if e.kind != "exit" or fm.norm(e.guard) == FALSE:
            continue
        nx += 1
        code = fm.norm(e.data[1][0]) if e.data[1] else NONE
        texty = isinstance(code, Const) and isinstance(code.v, str) or (isinstance(code, Op) and code.op in ("fmt", "concat", "fv", "m:format", "mod_format"))
        okc = texty or code in (NONE, Const(0), Const(1), Const(False), Const(True))
        if not okc and isinstance(code, Ite):
            alts = []

            def lv_(t):
                if isinstance(t, Ite):
                    lv_(t.a), lv_(t.b)
                else:
                    alts.append(t)
            lv_(code)
            okc = all(a in (NONE, Const(0), Const(1), Const(False), Const(True)) or (isinstance(a, Const) and isinstance(a.v, str)) for a in alts)
        rep.check(okc, rule, "%s:%s the process ends with status 0 or 1" % (e.func.split(".")[-1], getattr(e.node, "lineno", "?")), e.func, e.node,
                  "the exit status is computed (%s): with malformed input the command ends with a status other than 0 or 1" % (repr(code)[:120],),
                  node=e.node)
    rep.count("exit sites of the command line", nx)
    # ... and the option parser does not look into files: a type= / action callable of the repository that opens or inspects
    # the named file turns a malformed input file into an argparse usage error (status 2) before any decoding starts
    import ast as _ast
    from .. import effects as _eff
    nconv = 0
    nadd = 0
    for cs in _eff.call_sites(prog):
        if not (isinstance(cs.node.func, _ast.Attribute) and cs.node.func.attr == "add_argument"):
            continue
        nadd += 1
        for kw in cs.node.keywords:
            if kw.arg not in ("type", "action") or not isinstance(kw.value, (_ast.Name, _ast.Lambda, _ast.Attribute)):
                continue
            body = None
            if isinstance(kw.value, _ast.Lambda):
                body = kw.value
            elif isinstance(kw.value, _ast.Name):
                for f_ in cs.module.all_functions():
                    if f_.name == kw.value.id and f_.cls is None:
                        body = f_.node
                for c_ in _ast.walk(cs.module.tree):
                    if isinstance(c_, _ast.ClassDef) and c_.name == kw.value.id:
                        body = c_
            if body is None:
                continue
            nconv += 1
            looks = [c for c in _ast.walk(body) if isinstance(c, _ast.Call) and (
                (isinstance(c.func, _ast.Name) and c.func.id == "open") or
                (_eff.dotted(c.func) or "").startswith(("os.", "io.", "pathlib.", "Path", "stat.", "mmap.")))]
            rep.check(not looks, rule, "%s: option converter %s does not inspect files" % (cs.where, _ast.unparse(kw.value)[:40]), cs.where,
                      looks[0] if looks else cs.node, "the %s= callable of an option (%s) opens / inspects a file (%s): a missing, unreadable or "
                      "malformed input file ends the command with argparse's status 2 instead of the decode barrier's message and status 1" % (
                          kw.arg, _ast.unparse(kw.value)[:40], _ast.unparse(looks[0])[:60] if looks else ""),
                      node=looks[0] if looks else cs.node, file=cs.module.rel)
    rep.count("repository callables used as option converters", nconv)
    rep.floor("add_argument call sites scanned", nadd, 20)
    return fm


def parsepel_exit_helpers(prog):
    """exit call nodes that belong to parsePEL's documented exit_on_error path although they are written in a helper:
    the helper is a module-level function whose only callers (over-approximate call graph) are parsePEL or other such
    helpers, and the node is executed when parsePEL is interpreted with its helpers inlined - where the rule above checks
    that every exit executed there is under exit_on_error.  A helper anything else can call is not exempt."""
    cached = getattr(prog, "_parsepel_exit_helpers", None)
    if cached is not None:
        return cached
    graph = effects.call_graph(prog)
    callers = {}
    for src, dsts in graph.items():
        for d in dsts:
            callers.setdefault(d, set()).add(src)
    own = {PT + "parsePEL"}
    changed = True
    while changed:
        changed = False
        for q in graph.get(PT + "parsePEL", ()) | set().union(*[graph.get(x, set()) for x in own]):
            if q not in own and q.startswith(PT) and callers.get(q) and callers[q] <= own:
                own.add(q)
                changed = True
    nodes = set()
    if len(own) > 1:
        I = Interpreter(prog, hooks={"opaque": {PT + "sectionFun", PT + "considerPEL", PT + "prettyPrint", PT + "buildOutput"}})
        st = pelx.new_stream(I)
        cfg = I.new("pel.peltool.config.Config")
        I.call(PT + "parsePEL", [st, cfg, Sym("exit_on_error", "exc")])
        for e in I.events:
            if e.kind == "exit" and e.func in own:
                nodes.add(id(e.node))
    res = (own - {PT + "parsePEL"}, nodes)
    try:
        prog._parsepel_exit_helpers = res
    except Exception:
        pass
    return res


def check_exits_in_decoders(rep, prog, runs):
    rule = "C05.R3.ordinary-errors"
    executed = set()
    funcs = set()
    for label, I in runs:
        for e in I.events:
            funcs.add(e.func)
            if e.kind in ("exit", "print", "extcall"):
                executed.add(id(e.node))
    graph = effects.call_graph(prog)
    roots = set(DECODERS) | {q for q in graph if q.split(".")[-1] in ("parseUDToJson", "parseSRCToJson")}
    decode_side = effects.reachable(graph, roots)
    n = 0
    for cs in effects.call_sites(prog):
        name = cs.name or ""
        short = name[len("builtins."):] if name.startswith("builtins.") else name
        if short not in effects.EXITS:
            continue
        q = cs.qual
        top = effects.enclosing_top_function(cs.node)
        tq = effects._qual_of(cs.module, top) if top is not None else cs.module.name + ".<module>"
        if tq not in decode_side or tq == PT + "parsePEL":
            # command-line side code (argument validation, mode dispatch) may end the run; parsePEL's own exit is the
            # documented exit_on_error path checked above
            continue
        hq, hnodes = parsepel_exit_helpers(prog)
        if tq in hq and id(cs.node) in hnodes:
            continue            # the same path, written in a helper only parsePEL calls
        n += 1
        dead = q in funcs and id(cs.node) not in executed
        rep.check(dead, rule, "process exit at %s:%s is unreachable (dominated by a contradicting condition)" % (cs.module.rel, cs.node.lineno),
                  q, cs.node, "a decoder can terminate the process (%s): not an ordinary error the command line reports, and it "
                  "escapes every 'except Exception' barrier" % short, node=cs.node, file=cs.module.rel)
    rep.count("exit sites in decoder modules", n)


def check_regex_termination(rep, prog):
    """every constant regular expression the decoders apply to decoded text must not admit exponentially many parses of
    one line (Python's backtracking engine would then not terminate in reasonable time on a crafted string)"""
    from ..automata import ambiguous_star
    rule = "C05.R4.termination"
    n = 0
    for cs in effects.call_sites(prog):
        if cs.name in ("re.compile", "re.match", "re.fullmatch", "re.search", "re.sub", "re.findall", "re.split") and cs.node.args:
            a0 = cs.node.args[0]
            if isinstance(a0, ast.Constant) and isinstance(a0.value, str):
                n += 1
                why = ambiguous_star(a0.value)
                rep.check(why is None, rule, "regex at %s:%s has no ambiguous alternation under '*'" % (cs.module.rel, cs.node.lineno), cs.qual, cs.node,
                          "the regular expression %r is ambiguous (%s): on a long run of such characters followed by a mismatch the match "
                          "takes exponential time - decoding one crafted PEL never finishes" % (a0.value, why), node=cs.node, file=cs.module.rel)
    rep.count("constant regular expressions examined", n)


def run(rep, prog, thorough):
    rep.explanation = (
        "R1: DataStream's buffer slices / index advances are interpreted with symbolic index, size and n; their path "
        "conditions (assert statements excluded, as under python -O) must entail 0<n and index+n<=size for all small "
        "(index,size,n) - a statement about the guard's logic, valid for every input. R2: no buffer access / index write outside "
        "DataStream that reaches the output (all section decoders + shipped plugins interpreted). R3: every decode call of "
        "every CLI mode sits in try/except Exception reporting on stderr; process exits only under exit_on_error on the -f path; "
        "exits in decoders proved dead. R4: every data-driven loop makes progress (checked read on every continuing path or a "
        "monotone counter), so buffer size - index is a ranking function.")
    check_stream_guards(rep, prog)
    runs = decoder_runs(prog)
    rep.count("decode entry points interpreted", len(runs))
    check_unchecked_access(rep, runs)
    check_loops(rep, runs)
    check_barriers_all_modes(rep, prog)
    check_exits_in_decoders(rep, prog, runs)
    check_regex_termination(rep, prog)
    # R5: a truncated log must run into a failing checked read: the section loop may not stop early on its own
    from .c01 import check_loop, check_callout_accounting, check_getcallouts_progress
    check_loop(rep, prog, pfx="C05.R5-prefix-rejection")
    # ... and the callout subsection is accounted by the bytes actually read, not by what a size byte claims (shared with C01)
    check_callout_accounting(rep, prog, pfx="C05.R5-prefix-rejection")
    check_getcallouts_progress(rep, prog)
    # ... and whether the callout subsection is read at all depends on the header flag only, never on bytes peeked without a
    # range check (past the end such a peek yields 0 and the truncated log is accepted)
    from .c01 import check_src_consumption, run_sectionfun
    for plug in (True, False):
        I5, st5, _ = run_sectionfun(prog, 0x5053, plug)
        check_src_consumption(rep, I5, st5, "sectionFun(PS)%s" % ("" if plug else " -P"))
    # ... and the free-form sections take exactly the bytes the checked reads delivered (a body cut out of the buffer with an
    # unchecked slice is silently shorter for a truncated log) - rule shared with C04
    from .c04 import check_sections
    check_sections(rep, prog)
    # "reported on stderr": no decoder / library function prints its failure message to stdout (who-may-print, shared with C09)
    from .c09 import check_decoder_prints
    check_decoder_prints(rep, prog, rule="C05.R3.barrier-reports-on-stderr")
    rep.note("R5 (every proper prefix of a well-formed PEL is rejected) is derived from R1 + C01.R4 (exact consumption), not re-proved here")
