"""C11 - only delete options remove files, and only the files they name."""
import ast

from ..core import AnalysisError
from ..interp import Interpreter
from ..terms import Const, Sym, Op, Ite, Ref, TRUE, FALSE, NONE, walk, and_, or_, not_, is_const, subst, ite, compare
from .. import pelx, effects
from ..pelx import implies, env_str, equivalent, IntF, hex_render
from ..cli import Cli, FullMain, PT, MODE_FUNCS, ARGS

REMOVE_LIKE = {"os.remove", "os.unlink"}


def site_label(cs):
    return "%s:%s %s" % (cs.module.rel, cs.node.lineno, cs.name)


def scan_sites(rep, prog):
    """every mutation-capable construct in every shipped module"""
    sites = []
    dyn = []
    for cs in effects.call_sites(prog):
        n = cs.name or ""
        short = n[len("builtins."):] if n.startswith("builtins.") else n
        if short in effects.FS_MUTATORS:
            sites.append((cs, "fs"))
        elif short == "open" or short == "io.open" or short == "codecs.open":
            mode = effects.open_mode(cs.node)
            if mode is None or any(c in mode for c in "wax+"):
                sites.append((cs, "open-write"))
        elif isinstance(cs.node.func, ast.Attribute) and cs.node.func.attr in effects.PATHLIB_MUTATING_METHODS and \
                not n.startswith("os."):
            sites.append((cs, "pathlib"))
        elif isinstance(cs.node.func, ast.Attribute) and cs.node.func.attr == "open" and cs.node.args and \
                isinstance(cs.node.args[0], ast.Constant) and any(c in str(cs.node.args[0].value) for c in "wax+"):
            sites.append((cs, "open-write"))
        if short in ("setattr", "delattr"):
            # rebinding an attribute of an imported module/object (setattr(os.path, 'join', os.remove)) is an escape hatch;
            # storing a field of a local object / self is an ordinary attribute store
            if cs.arg0_imported or not cs.arg0_plain:
                dyn.append(cs)
        elif short == "vars" and len(cs.node.args) == 1 and not cs.arg0_imported and _only_formats(cs.node):
            # vars(obj) of a local object handed straight to str.format_map / str.format(**..): the mapping is only read by
            # the formatter, nothing can be called or rebound through it
            pass
        elif short in effects.DYNAMIC or short.startswith("subprocess."):
            dyn.append(cs)
        if short == "getattr" and cs.node.args and isinstance(cs.node.args[0], ast.Name) and cs.node.args[0].id in ("os", "shutil", "pathlib"):
            dyn.append(cs)
    rep.count("call sites scanned", len(effects.call_sites(prog)))
    return sites, dyn


def _only_formats(call):
    """the value of `call` is consumed as the mapping of s.format_map(<call>) or s.format(**<call>) and nowhere else"""
    p = getattr(call, "_parent", None)
    if isinstance(p, ast.keyword) and p.arg is None:
        pp = getattr(p, "_parent", None)
        return isinstance(pp, ast.Call) and isinstance(pp.func, ast.Attribute) and pp.func.attr == "format"
    return isinstance(p, ast.Call) and isinstance(p.func, ast.Attribute) and p.func.attr == "format_map" and \
        list(p.args) == [call] and not p.keywords


def run(rep, prog, thorough):
    rep.explanation = (
        "Who-may-mutate rule: every filesystem-mutating construct of every shipped module is enumerated syntactically "
        "(calls resolved through import aliases; no eval/exec/subprocess/getattr(os) escape hatches); each must be executed by "
        "the interpretation of main() (mode functions inlined) and its path condition must imply the option that licenses it "
        "(-D, -d, --clean with -j/-f, -j for the JSON file). Delete loops are checked for top-level-only walk, the path "
        "removed, the at-most-one break, and the JSON output name template; modes are pairwise exclusive.")
    sites, dyn = scan_sites(rep, prog)
    for cs in dyn:
        rep.fail("C11.R1.who-may-mutate", cs.qual, cs.node, "dynamic code/command execution (%s) makes the enumeration of "
                 "filesystem effects incomplete" % cs.name, node=cs.node, file=cs.module.rel)
    rep.count("fs-mutation sites", len(sites))
    fm = FullMain(prog)
    I = fm.I
    by_node = {}
    for e in fm.events:
        if e.node is not None:
            by_node.setdefault(id(e.node), []).append(e)
    facts = fm.fact_terms()
    A = fm.arg
    lic_delete = {"deleteAll": A("deleteAll"), "IDToDelete": A("IDToDelete")}
    for cs, kind in sites:
        evs = [e for e in by_node.get(id(cs.node), []) if e.kind in ("extcall", "open", "methcall")]
        where = cs.qual
        if not evs:
            rep.fail("C11.R1.who-may-mutate", where, cs.node,
                     "filesystem mutation (%s) outside the option-dispatched CLI paths: a read-only mode or a decoder could "
                     "modify the directory tree" % (cs.name or ast.unparse(cs.node.func)), node=cs.node, file=cs.module.rel)
            continue
        for e in evs:
            g = and_(fm.norm(e.guard), *facts)
            if kind == "open-write":
                ok, env = implies(g, A("json"))
                rep.check(ok, "C11.R2.licensed", "%s: file is created only under --json" % site_label(cs), where, cs.node,
                          "a file can be opened for writing without --json (%s)" % env_str(env), node=cs.node, file=cs.module.rel)
            else:
                lic = or_(A("deleteAll"), A("IDToDelete"), and_(A("clean"), or_(A("json"), A("file"))))
                ok, env = implies(g, lic)
                rep.check(ok, "C11.R2.licensed", "%s: runs only under -D, -d or --clean with -j/-f" % site_label(cs), where, cs.node,
                          "a file can be removed in a mode that must leave the directory unchanged (%s)" % env_str(env),
                          node=cs.node, file=cs.module.rel)
                if (cs.name or "") not in REMOVE_LIKE:
                    rep.fail("C11.R2.licensed", where, cs.node, "%s can affect more than the single named regular file" % cs.name,
                             node=cs.node, file=cs.module.rel)
    check_delete_loops(rep, fm)
    check_json_name(rep, prog, fm)
    check_exclusive(rep, prog)
    # the id given to --delete is the one normalised and length-checked by processId (rule shared with C10)
    from .c10 import check_processId
    check_processId(rep, prog)
    rep.floor("fs-mutation sites", len(sites), 5)


def first_walk_entry(t):
    """elem(os.walk(P), k) -> (P, k)"""
    if isinstance(t, Op) and t.op == "elem" and isinstance(t.args[0], Op) and t.args[0].op == "call:os.walk":
        return t.args[0].args[0] if t.args[0].args else None, t.args[1]
    return None


def walk_elem_parts(fm, t):
    """os.path.join(root, file) with (root, _, files) = an os.walk tuple W and file taken from W's files:
       ('each', W, elem(files, j))                      - the j-th file of a loop over the files
       ('first', W, loop, condition, elem(files, j))    - the first file (in listing order) satisfying a condition:
                                                          next(f for f in files if cond) / return inside a scan"""
    # the whole path handed out of a scan:  ite(exists(L, c), loopret(L, join(root, file_i)), <nothing found>)
    if isinstance(t, Ite) and isinstance(t.c, Op) and t.c.op == "exists" and isinstance(t.a, Op) and t.a.op == "loopret" \
            and t.a.args[0] == t.c.args[0]:
        inner = walk_elem_parts(fm, t.a.args[1])
        if inner is not None and inner[0] == "each":
            return ("first", inner[1], t.c.args[0].v, t.c.args[1], inner[2], t.c)
    if isinstance(t, Op) and t.op == "loopret":
        inner = walk_elem_parts(fm, t.args[1])
        if inner is not None and inner[0] == "each":
            return ("first", inner[1], t.args[0].v, None, inner[2], None)
    if isinstance(t, Op) and t.op == "call:os.path.join" and len(t.args) == 2:
        a, b = t.args
        if isinstance(a, Op) and a.op == "getitem" and a.args[1] == Const(0) and first_walk_entry(a.args[0]) is not None:
            w = a.args[0]
            files = Op("getitem", w, Const(2))
            if isinstance(b, Op) and b.op == "elem" and b.args[0] == files:
                return ("each", w, b)
            # ite(exists(L, c), loopret(L, elem(files, iL)), <nothing found>)
            if isinstance(b, Ite) and isinstance(b.c, Op) and b.c.op == "exists" and isinstance(b.a, Op) and b.a.op == "loopret" \
                    and b.a.args[0] == b.c.args[0] and isinstance(b.a.args[1], Op) and b.a.args[1].op == "elem" and b.a.args[1].args[0] == files:
                return ("first", w, b.c.args[0].v, b.c.args[1], b.a.args[1], b.c)
            if isinstance(b, Op) and b.op == "loopret" and isinstance(b.args[1], Op) and b.args[1].op == "elem" and b.args[1].args[0] == files:
                return ("first", w, b.args[0].v, None, b.args[1], None)
    return None


def check_delete_loops(rep, fm):
    I = fm.I
    rm = [e for e in fm.events if e.kind == "extcall" and e.data[0] in REMOVE_LIKE]
    for e in rm:
        g = fm.norm(e.guard)
        is_all = implies(g, fm.arg("deleteAll"))[0] and not implies(g, fm.arg("clean"))[0]
        is_one = implies(g, fm.arg("IDToDelete"))[0] and not is_all and not implies(g, fm.arg("clean"))[0]
        if not (is_all or is_one):
            continue
        where = e.func
        tag = "--delete-all" if is_all else "--delete"
        target = fm.norm(e.data[1][0])
        parts = walk_elem_parts(fm, target)
        rep.check(parts is not None, "C11.R3.scope", "%s removes os.path.join(root, file) for file in the walk's files" % tag,
                  where, e.node, "%s removes %r: not a file entry of the walked directory" % (tag, target), node=e.node)
        if parts is None:
            continue
        w = parts[1]
        top_only = first_walk_entry(w)[1] == Const(0)       # index 0: the walk is left unconditionally after its first entry
        rep.check(top_only, "C11.R3.scope", "%s: only the first (top-level) os.walk entry is used" % tag, where, e.node,
                  "%s walks below the top level of the PEL directory (no unconditional break/return after the first os.walk entry): "
                  "files in subdirectories such as the archive are affected" % tag, node=e.node)
        if is_all:
            Li = [L for L in e.loops if parts[0] == "each" and L.idx == parts[2].args[1]]
            isf = [x for x in walk(g) if isinstance(x, Op) and x.op == "call:os.path.isfile"]
            rep.check(bool(Li) and any(fm.norm(x.args[0]) == target for x in isf) and not Li[0].stops and
                      iterates_all(fm, Li[0], parts[2].args[0]), "C11.R3.scope",
                      "--delete-all removes every regular file (os.path.isfile guard on the same path, no early exit)", where, e.node,
                      "--delete-all does not remove exactly the regular files of the directory", node=e.node)
        elif parts[0] == "each":
            fname = parts[2]
            Li = [L for L in e.loops if L.idx == fname.args[1]]
            cont = [x for x in walk(g) if isinstance(x, Op) and x.op in ("in",) and x.args[1] == fname]
            rep.check(bool(cont) and bool(Li), "C11.R3.scope", "--delete removes only a file whose name contains the id", where, e.node,
                      "--delete does not test that the file name contains the entry id", node=e.node)
            # at most one: the scan is left under exactly the removal condition, after the removal
            one = False
            if Li:
                brk = [ev for ev in fm.events[Li[0].events[0]:Li[0].events[1]] if ev.kind in ("break", "return") and ev.seq > e.seq
                       and ev.loops and ev.loops[-1] is Li[0] and (ev.kind == "break" or ev.func == Li[0].func)]
                one = any(implies(fm.norm(e.guard), fm.norm(b.guard))[0] for b in brk)
            rep.check(one, "C11.R3.scope", "--delete stops after the first removal (break on the removal path)", where, e.node,
                      "--delete can remove more than one file: no break follows the removal on every path", node=e.node)
        else:
            _, w, lid, cond, fname, ex = parts
            Lk = I.loops.get(lid)
            cnd = fm.norm(cond) if cond is not None else None
            has = cnd is not None and any(isinstance(x, Op) and x.op == "in" and x.args[1] == fname for x in conj_terms(cnd))
            rep.check(has and Lk is not None and fm.norm(Lk.iter) == fname.args[0], "C11.R3.scope",
                      "--delete removes only a file whose name contains the id", where, e.node,
                      "--delete does not test that the file name contains the entry id", node=e.node)
            once = Lk is not None and Lk not in e.loops and not any(fm.norm(L.iter) == fname.args[0] for L in e.loops) and \
                (ex is None or implies(g, ex)[0])
            rep.check(once, "C11.R3.scope", "--delete removes the first matching file only (outside any scan, on the found path)", where, e.node,
                      "--delete can remove more than one file / runs when nothing matched", node=e.node)
        if is_one:
            # not found message
            nf = [ev for ev in fm.events if ev.kind == "print" and implies(fm.norm(ev.guard), fm.arg("IDToDelete"))[0] and any(
                is_const(a, str) and "not found" in a.v for a in ev.data[0])]
            rep.check(bool(nf), "C11.R3.scope", "--delete reports 'PEL not found' when nothing matched", where, "print('PEL not found')",
                      "--delete no longer reports 'PEL not found'")


def iterates_all(fm, L, files):
    """the loop visits every element of `files` once: it iterates the list itself, or a sequence built with exactly one
    element per file (a generator expression / comprehension over it without a filter)"""
    it = fm.norm(L.iter)
    if it == files:
        return True
    items = pelx.list_items(fm.I, it) if isinstance(it, Ref) else None
    if items and len(items) == 1 and items[0][0] == "rep" and fm.norm(items[0][3]) == TRUE:
        L0 = items[0][1]
        return fm.norm(L0.iter) == files and not L0.stops
    return False


def conj_terms(c):
    return list(c.args) if isinstance(c, Op) and c.op == "and" else [c]


def check_json_name(rep, prog, fm):
    opens = [e for e in fm.events if e.kind == "open" and not (is_const(e.data[1], str) and not any(c in e.data[1].v for c in "wax+"))]
    for e in opens:
        p = fm.norm(e.data[0])
        where = e.func
        ok = isinstance(p, Op) and p.op == "call:os.path.join" and len(p.args) == 2
        detail = ""
        if ok:
            d, name = p.args
            # directory: args.output_dir or the PEL path
            dirs = []

            def leaves(t):
                if isinstance(t, Ite):
                    leaves(t.a), leaves(t.b)
                else:
                    dirs.append(t)
            leaves(d)
            ok_dir = any(x == fm.arg("output_dir") for x in dirs)
            if ok_dir:
                # with -o given, nothing is ever written anywhere else (e.g. a silent fall-back to the PEL directory when the
                # chosen directory does not exist)
                A_ = fm.arg("output_dir")
                alts_ = []

                def lv_(t, cs):
                    if isinstance(t, Ite):
                        lv_(t.a, cs + [t.c]), lv_(t.b, cs + [not_(t.c)])
                    else:
                        alts_.append((t, and_(*cs)))
                lv_(d, [])
                g_open = fm.norm(e.guard)
                for t_, c_ in alts_:
                    if t_ != A_ and not pelx.unsat(and_(c_, A_, g_open))[0]:
                        ok_dir = False
            parts = [x.args[0] if isinstance(x, Op) and x.op == "fv" and x.args[1] == Const("") and x.args[2] == Const("") else x
                     for x in pelx.flat_parts(name)]          # f'{s}' of a string is the string
            ok_name = len(parts) == 4 and isinstance(parts[0], Op) and parts[0].op == "call:os.path.basename" and \
                parts[1] == Const(".") and parts[3] == Const(".json") and isinstance(parts[2], Op) and parts[2].op == "getitem" \
                and parts[2].args[1] == Const(0) and isinstance(parts[2].args[0], Op) and parts[2].args[0].op == "call:" + PT + "parsePEL"
            ok = ok_dir and ok_name
            detail = "dir ok=%s name ok=%s" % (ok_dir, ok_name)
        rep.check(ok, "C11.R4.json-name", "JSON output path = join(output dir, basename(pel file) + '.' + entry id + '.json')", where, e.node,
                  "JSON output file is not named <pel file>.<entry id>.json in the chosen output directory (%s): %r" % (detail, p), node=e.node)
    # the entry id part: parsePEL returns the entry id with its 0x prefix removed
    I = Interpreter(prog, hooks={"opaque": {PT + "sectionFun", PT + "prettyPrint", PT + "considerPEL", PT + "buildOutput"}})
    st = pelx.new_stream(I)
    cfg = I.new("pel.peltool.config.Config")
    r = I.call(PT + "parsePEL", [st, cfg, Const(False)])
    eid = Op("fmt", Const("0x"), Op("fv", IntF(44, 4), Const("08X"), Const("")))
    cands = set()

    def first_of(t):
        if isinstance(t, Ite):
            first_of(t.a), first_of(t.b)
        elif isinstance(t, Ref):
            items = pelx.list_items(I, t)
            if items:
                first_of(items[0][1])
        elif isinstance(t, Const) and isinstance(t.v, tuple):
            cands.add(Const(t.v[0]))
        else:
            cands.add(t)
    first_of(r)
    good_forms = {Op("getslice", eid, Const(2), NONE), Op("m:removeprefix", eid, Const("0x")), Const(""), Const(None)}
    bad = [c for c in cands if c not in good_forms and not isinstance(c, type(pelx.Undef()))]
    rep.check(not bad and Op("getslice", eid, Const(2), NONE) in cands or (not bad and Op("m:removeprefix", eid, Const("0x")) in cands),
              "C11.R4.json-name", "entry id part = the 8 hex digits of the Entry Id (0x removed by slicing)", "parsePEL", "return eid, ...",
              "the entry id used in the JSON file name is not the Entry Id with just its '0x' prefix removed: %s" % [repr(b)[:120] for b in bad])


def check_exclusive(rep, prog):
    cli = Cli(prog)
    calls = cli.mode_calls()
    rep.count("mode dispatch sites", len(calls))
    exits = cli.exits()
    for i, (fn, args, g, e) in enumerate(calls):
        # followed by sys.exit(0) on the same path
        later = [x for gx, x in exits if x.seq > e.seq and x.data[1] and x.data[1][0] == Const(0)]
        okx = any(implies(g, cli.norm(x.guard))[0] for x in later)
        rep.check(okx, "C11.R5.one-action", "%s is followed by sys.exit(0)" % fn, "main", e.node,
                  "after %s the program does not exit: a following mode (possibly a delete) also runs in the same invocation" % fn, node=e.node)
        for fn2, args2, g2, e2 in calls[i + 1:]:
            both = and_(g, g2)
            ok = both == FALSE or implies(both, FALSE)[0]
            if not ok:
                rep.fail("C11.R5.one-action", "main", e2.node, "%s and %s can both run in one invocation" % (fn, fn2), node=e2.node)
    rep.floor("mode dispatch sites", len(calls), 11)
