"""C11 - only delete options remove files, and only the files they name."""
import ast

from ..core import AnalysisError
from ..interp import Interpreter
from ..terms import Const, Sym, Op, Ite, Ref, TRUE, FALSE, NONE, walk, and_, or_, not_, is_const, subst, ite, compare
from .. import pelx, effects
from ..pelx import implies, env_str, equivalent, IntF, hex_render
from ..cli import Cli, FullMain, PT, MODE_FUNCS, ARGS

REMOVE_LIKE = {"os.remove", "os.unlink"}


def site_label(cs):
    return "%s:%s %s" % (cs.module.rel, cs.node.lineno, cs.name)


def scan_sites(rep, prog):
    """every mutation-capable construct in every shipped module"""
    sites = []
    dyn = []
    for cs in effects.call_sites(prog):
        n = cs.name or ""
        short = n[len("builtins."):] if n.startswith("builtins.") else n
        if short in effects.FS_MUTATORS:
            sites.append((cs, "fs"))
        elif short == "open" or short == "io.open" or short == "codecs.open":
            mode = effects.open_mode(cs.node)
            if mode is None or any(c in mode for c in "wax+"):
                sites.append((cs, "open-write"))
        elif isinstance(cs.node.func, ast.Attribute) and cs.node.func.attr in effects.PATHLIB_MUTATING_METHODS and \
                not n.startswith("os."):
            sites.append((cs, "pathlib"))
        elif isinstance(cs.node.func, ast.Attribute) and cs.node.func.attr == "open" and cs.node.args and \
                isinstance(cs.node.args[0], ast.Constant) and any(c in str(cs.node.args[0].value) for c in "wax+"):
            sites.append((cs, "open-write"))
        if short in ("setattr", "delattr"):
            # rebinding an attribute of an imported module/object (setattr(os.path, 'join', os.remove)) is an escape hatch;
            # storing a field of a local object / self is an ordinary attribute store
            if cs.arg0_imported or not cs.arg0_plain:
                dyn.append(cs)
        elif short in effects.DYNAMIC or short.startswith("subprocess."):
            dyn.append(cs)
        if short == "getattr" and cs.node.args and isinstance(cs.node.args[0], ast.Name) and cs.node.args[0].id in ("os", "shutil", "pathlib"):
            dyn.append(cs)
    rep.count("call sites scanned", len(effects.call_sites(prog)))
    return sites, dyn


def run(rep, prog, thorough):
    rep.explanation = (
        "Who-may-mutate rule: every filesystem-mutating construct of every shipped module is enumerated syntactically "
        "(calls resolved through import aliases; no eval/exec/subprocess/getattr(os) escape hatches); each must be executed by "
        "the interpretation of main() (mode functions inlined) and its path condition must imply the option that licenses it "
        "(-D, -d, --clean with -j/-f, -j for the JSON file). Delete loops are checked for top-level-only walk, the path "
        "removed, the at-most-one break, and the JSON output name template; modes are pairwise exclusive.")
    sites, dyn = scan_sites(rep, prog)
    for cs in dyn:
        rep.fail("C11.R1.who-may-mutate", cs.qual, cs.node, "dynamic code/command execution (%s) makes the enumeration of "
                 "filesystem effects incomplete" % cs.name, node=cs.node, file=cs.module.rel)
    rep.count("fs-mutation sites", len(sites))
    fm = FullMain(prog)
    I = fm.I
    by_node = {}
    for e in fm.events:
        if e.node is not None:
            by_node.setdefault(id(e.node), []).append(e)
    facts = fm.fact_terms()
    A = fm.arg
    lic_delete = {"deleteAll": A("deleteAll"), "IDToDelete": A("IDToDelete")}
    for cs, kind in sites:
        evs = [e for e in by_node.get(id(cs.node), []) if e.kind in ("extcall", "open", "methcall")]
        where = cs.qual
        if not evs:
            rep.fail("C11.R1.who-may-mutate", where, cs.node,
                     "filesystem mutation (%s) outside the option-dispatched CLI paths: a read-only mode or a decoder could "
                     "modify the directory tree" % (cs.name or ast.unparse(cs.node.func)), node=cs.node, file=cs.module.rel)
            continue
        for e in evs:
            g = and_(fm.norm(e.guard), *facts)
            if kind == "open-write":
                ok, env = implies(g, A("json"))
                rep.check(ok, "C11.R2.licensed", "%s: file is created only under --json" % site_label(cs), where, cs.node,
                          "a file can be opened for writing without --json (%s)" % env_str(env), node=cs.node, file=cs.module.rel)
            else:
                lic = or_(A("deleteAll"), A("IDToDelete"), and_(A("clean"), or_(A("json"), A("file"))))
                ok, env = implies(g, lic)
                rep.check(ok, "C11.R2.licensed", "%s: runs only under -D, -d or --clean with -j/-f" % site_label(cs), where, cs.node,
                          "a file can be removed in a mode that must leave the directory unchanged (%s)" % env_str(env),
                          node=cs.node, file=cs.module.rel)
                if (cs.name or "") not in REMOVE_LIKE:
                    rep.fail("C11.R2.licensed", where, cs.node, "%s can affect more than the single named regular file" % cs.name,
                             node=cs.node, file=cs.module.rel)
    check_delete_loops(rep, fm)
    check_json_name(rep, prog, fm)
    check_exclusive(rep, prog)
    rep.floor("fs-mutation sites", len(sites), 5)


def walk_elem_parts(fm, t):
    """os.path.join(root, file) with (root, _, files) = i-th os.walk tuple and file = j-th of files -> (walk elem, j loop) """
    if isinstance(t, Op) and t.op == "call:os.path.join" and len(t.args) == 2:
        a, b = t.args
        if isinstance(a, Op) and a.op == "getitem" and a.args[1] == Const(0) and isinstance(a.args[0], Op) and a.args[0].op == "elem" \
                and isinstance(a.args[0].args[0], Op) and a.args[0].args[0].op == "call:os.walk":
            w = a.args[0]
            if isinstance(b, Op) and b.op == "elem" and b.args[0] == Op("getitem", w, Const(2)):
                return w, b
    return None


def check_delete_loops(rep, fm):
    I = fm.I
    rm = [e for e in fm.events if e.kind == "extcall" and e.data[0] in REMOVE_LIKE]
    for e in rm:
        g = fm.norm(e.guard)
        is_all = implies(g, fm.arg("deleteAll"))[0] and not implies(g, fm.arg("clean"))[0]
        is_one = implies(g, fm.arg("IDToDelete"))[0] and not is_all and not implies(g, fm.arg("clean"))[0]
        if not (is_all or is_one):
            continue
        where = e.func
        tag = "--delete-all" if is_all else "--delete"
        parts = walk_elem_parts(fm, fm.norm(e.data[1][0]))
        rep.check(parts is not None and len(e.loops) == 2, "C11.R3.scope", "%s removes os.path.join(root, file) for file in the walk's files" % tag,
                  where, e.node, "%s removes %r: not a file entry of the walked directory" % (tag, e.data[1][0]), node=e.node)
        if parts is None or len(e.loops) != 2:
            continue
        Lo, Li = e.loops
        wroot = fm.norm(Lo.iter)
        pels = wroot.args[0] if isinstance(wroot, Op) and wroot.args else None
        top_only = any(b == TRUE for b in Lo.stops)
        rep.check(top_only, "C11.R3.scope", "%s: the directory walk stops after the top level (unconditional break)" % tag, where, Lo.node,
                  "%s walks below the top level of the PEL directory (no unconditional break after the first os.walk entry): "
                  "files in subdirectories such as the archive are affected" % tag, node=Lo.node)
        if is_all:
            isf = [x for x in walk(g) if isinstance(x, Op) and x.op == "call:os.path.isfile"]
            rep.check(any(fm.norm(x.args[0]) == fm.norm(e.data[1][0]) for x in isf) and not Li.breaks, "C11.R3.scope",
                      "--delete-all removes every regular file (os.path.isfile guard on the same path, no early exit)", where, e.node,
                      "--delete-all does not remove exactly the regular files of the directory", node=e.node)
        else:
            fname = parts[1]
            cont = [x for x in walk(g) if isinstance(x, Op) and x.op in ("in",) and x.args[1] == fname]
            rep.check(bool(cont), "C11.R3.scope", "--delete removes only a file whose name contains the id", where, e.node,
                      "--delete does not test that the file name contains the entry id", node=e.node)
            # at most one: a break in the inner loop under exactly the removal condition, after the removal
            brk = [ev for ev in fm.events[Li.events[0]:Li.events[1]] if ev.kind == "break" and ev.seq > e.seq and len(ev.loops) == 2]
            one = any(implies(fm.norm(e.guard), fm.norm(b.guard))[0] for b in brk)
            rep.check(one, "C11.R3.scope", "--delete stops after the first removal (break on the removal path)", where, e.node,
                      "--delete can remove more than one file: no break follows the removal on every path", node=e.node)
            # not found message iff nothing removed
            nf = [ev for ev in fm.events if ev.kind == "print" and ev.func == e.func and any(
                is_const(a, str) and "not found" in a.v for a in ev.data[0])]
            rep.check(bool(nf), "C11.R3.scope", "--delete reports 'PEL not found' when nothing matched", where, "print('PEL not found')",
                      "--delete no longer reports 'PEL not found'")


def check_json_name(rep, prog, fm):
    opens = [e for e in fm.events if e.kind == "open" and not (is_const(e.data[1], str) and not any(c in e.data[1].v for c in "wax+"))]
    for e in opens:
        p = fm.norm(e.data[0])
        where = e.func
        ok = isinstance(p, Op) and p.op == "call:os.path.join" and len(p.args) == 2
        detail = ""
        if ok:
            d, name = p.args
            # directory: args.output_dir or the PEL path
            dirs = []

            def leaves(t):
                if isinstance(t, Ite):
                    leaves(t.a), leaves(t.b)
                else:
                    dirs.append(t)
            leaves(d)
            ok_dir = any(x == fm.arg("output_dir") for x in dirs)
            parts = pelx.flat_parts(name)
            ok_name = len(parts) == 4 and isinstance(parts[0], Op) and parts[0].op == "call:os.path.basename" and \
                parts[1] == Const(".") and parts[3] == Const(".json") and isinstance(parts[2], Op) and parts[2].op == "getitem" \
                and parts[2].args[1] == Const(0) and isinstance(parts[2].args[0], Op) and parts[2].args[0].op == "call:" + PT + "parsePEL"
            ok = ok_dir and ok_name
            detail = "dir ok=%s name ok=%s" % (ok_dir, ok_name)
        rep.check(ok, "C11.R4.json-name", "JSON output path = join(output dir, basename(pel file) + '.' + entry id + '.json')", where, e.node,
                  "JSON output file is not named <pel file>.<entry id>.json in the chosen output directory (%s): %r" % (detail, p), node=e.node)
    # the entry id part: parsePEL returns the entry id with its 0x prefix removed
    I = Interpreter(prog, hooks={"opaque": {PT + "sectionFun", PT + "prettyPrint", PT + "considerPEL", PT + "buildOutput"}})
    st = pelx.new_stream(I)
    cfg = I.new("pel.peltool.config.Config")
    r = I.call(PT + "parsePEL", [st, cfg, Const(False)])
    eid = Op("fmt", Const("0x"), Op("fv", IntF(44, 4), Const("08X"), Const("")))
    cands = set()

    def first_of(t):
        if isinstance(t, Ite):
            first_of(t.a), first_of(t.b)
        elif isinstance(t, Ref):
            items = pelx.list_items(I, t)
            if items:
                first_of(items[0][1])
        elif isinstance(t, Const) and isinstance(t.v, tuple):
            cands.add(Const(t.v[0]))
        else:
            cands.add(t)
    first_of(r)
    good_forms = {Op("getslice", eid, Const(2), NONE), Op("m:removeprefix", eid, Const("0x")), Const(""), Const(None)}
    bad = [c for c in cands if c not in good_forms and not isinstance(c, type(pelx.Undef()))]
    rep.check(not bad and Op("getslice", eid, Const(2), NONE) in cands or (not bad and Op("m:removeprefix", eid, Const("0x")) in cands),
              "C11.R4.json-name", "entry id part = the 8 hex digits of the Entry Id (0x removed by slicing)", "parsePEL", "return eid, ...",
              "the entry id used in the JSON file name is not the Entry Id with just its '0x' prefix removed: %s" % [repr(b)[:120] for b in bad])


def check_exclusive(rep, prog):
    cli = Cli(prog)
    calls = cli.mode_calls()
    rep.count("mode dispatch sites", len(calls))
    exits = cli.exits()
    for i, (fn, args, g, e) in enumerate(calls):
        # followed by sys.exit(0) on the same path
        later = [x for gx, x in exits if x.seq > e.seq and x.data[1] and x.data[1][0] == Const(0)]
        okx = any(implies(g, cli.norm(x.guard))[0] for x in later)
        rep.check(okx, "C11.R5.one-action", "%s is followed by sys.exit(0)" % fn, "main", e.node,
                  "after %s the program does not exit: a following mode (possibly a delete) also runs in the same invocation" % fn, node=e.node)
        for fn2, args2, g2, e2 in calls[i + 1:]:
            both = and_(g, g2)
            ok = both == FALSE or implies(both, FALSE)[0]
            if not ok:
                rep.fail("C11.R5.one-action", "main", e2.node, "%s and %s can both run in one invocation" % (fn, fn2), node=e2.node)
    rep.floor("mode dispatch sites", len(calls), 11)
