"""C09 - unreadable files in a PEL directory never disturb the output for the others."""
import ast

from ..core import AnalysisError
from ..interp import Interpreter
from ..terms import Const, Sym, Op, Ite, Ref, TRUE, FALSE, NONE, walk, and_, or_, not_, is_const, subst, compare, add
from .. import pelx, effects
from ..pelx import implies, env_str, unsat
from ..cli import Cli, FullMain, PT, MODE_FUNCS, ARGS, DECODE_FUNCS
from .c12 import tries_covering

DECODERS = {PT + n for n in ("parsePEL", "parsePELSummary", "generatePH", "generateUH")}
CLI_PRINTERS = {PT + n for n in MODE_FUNCS} | {PT + "main", PT + "printPELInHexFormat", PT + "extractAndSummarizePEL",
                                                "io_drawer.dump.main", "io_drawer.dump.parse_args"}
BROAD = {"Exception", "BaseException", None}


def is_stdout_print(e):
    if e.kind != "print":
        return False
    kw = dict(e.data[1])
    tgt = kw.get("file")
    return tgt is None or repr(tgt) == "<sys.stdout>" or tgt == NONE


def conj(g):
    return list(g.args) if isinstance(g, Op) and g.op == "and" else [g]


def decode_results(e):
    """opaque decoder call terms a guard/term mentions"""
    return [x for x in walk(e) if isinstance(x, Op) and x.op.startswith("call:") and x.op[5:] in DECODERS]


# operations on an open file / its bytes whose success does not depend on what the file contains
FILE_METHODS_OK = {"read", "readinto", "readall", "read1", "close", "fileno", "seek", "tell", "__enter__", "__exit__", "readable", "seekable"}
CONTENT_BLIND_CALLS = ("os.", "io.", "stat.", "builtins.", "pathlib.", "contextlib.", "logging.", "warnings.")
LISTING_CALLS = ("call:os.walk", "call:os.listdir", "call:os.scandir", "call:glob.glob", "call:glob.iglob")


def from_listing(I, t, depth=0, seen=None):
    """does the value derive from a directory listing?  Follows references into summarised lists (elements,
    sorted()/reversed() sources) - the provenance of a candidate list, however it was assembled."""
    seen = set() if seen is None else seen
    for x in walk(t):
        if isinstance(x, Op) and x.op in LISTING_CALLS:
            return True
        if isinstance(x, Ref) and x.oid not in seen and depth < 6:
            seen.add(x.oid)
            o = I.heap.get(x.oid)
            for it in getattr(o, "items", None) or ():
                if from_listing(I, it[1] if it[0] == "v" else it[2], depth + 1, seen):
                    return True
    return False


def dir_loops(fm):
    """loops that iterate over directory entries: os.walk tuples, their file lists, or any list assembled from them"""
    out = []
    for L in fm.I.loops.values():
        it = fm.norm(L.iter) if L.iter is not None else None
        if it is not None and from_listing(fm.I, it):
            out.append(L)
    return out


def check_barriers(rep, fm):
    rule = "C09.R1.per-file-barrier"
    I = fm.I
    ev = fm.events
    dls = set(dir_loops(fm))
    handlers = {}      # exc sym -> handler events
    try_enter = {}
    for e in ev:
        if e.kind == "try_enter":
            try_enter[e.data[0]] = e
        if e.kind == "handler":
            handlers.setdefault(e.data[0], []).append(e)
    n = 0
    decs = [e for e in ev if e.kind == "opaquecall" and e.data[0] in DECODERS]
    for D in decs:
        file_loops = [L for L in D.loops if L in dls]
        if not file_loops:
            continue      # single-file modes are C05's business
        n += 1
        where = D.func
        inner = file_loops[-1]
        cover = []
        for exc in tries_covering(ev, D):
            te = try_enter.get(exc)
            if te is not None and inner in te.loops:
                cover.append(exc)
        if not rep.check(bool(cover), rule, "%s: %s is inside a try that is inside the per-file loop" % (where.split(".")[-1], D.data[0].split(".")[-1]),
                         where, D.node, "decoding a directory entry is not protected by a try/except inside the per-file loop: one "
                         "undecodable file aborts the output for all the others", node=D.node):
            continue
        okh = False
        why = ""
        for exc in cover:
            hs = handlers.get(exc, [])
            broad = [h for h in hs if h.data[1] in BROAD or (h.data[1] or "").replace(" ", "") in ("(Exception,)",)]
            if not broad:
                why = "handler only catches %s" % [h.data[1] for h in hs]
                continue
            # what the handler does: events executed under the exception flag, until the loop iteration ends
            body = [x for x in ev if x.seq > broad[0].seq and exc in conj(fm.norm(x.guard)) and inner in x.loops]
            bad = [x for x in body if x.kind in ("raise", "exit", "break") or (x.kind == "return" and x.func == broad[0].func and inner in x.loops and x.func == where and False)]
            outp = [x for x in body if is_stdout_print(x)]
            if bad:
                why = "handler leaves the loop (%s at line %s)" % (bad[0].kind, getattr(bad[0].node, "lineno", "?"))
            elif outp:
                why = "handler prints to stdout (line %s)" % getattr(outp[0].node, "lineno", "?")
            else:
                okh = True
        rep.check(okh, rule, "%s: barrier catches Exception, reports on stderr only and continues with the next file" % where.split(".")[-1],
                  where, D.node, "per-file barrier is not 'except Exception: <stderr diagnostic>; continue' (%s)" % why, node=D.node)
        # whatever is done with the opened file before the barrier must be unable to fail on the file's content
        lo, hi = inner.events
        for x in ev[lo:hi]:
            if x.kind not in ("extcall", "methcall", "raise") or inner not in x.loops or fm.norm(x.guard) == FALSE:
                continue
            if any(inner in try_enter[exc].loops for exc in tries_covering(ev, x) if exc in try_enter):
                continue
            if x.kind == "raise":
                terms_ = [x.guard]
                name_ = "raise"
            elif x.kind == "extcall":
                name_ = x.data[0]
                terms_ = list(x.data[1]) + [v_ for _, v_ in x.data[2]]
            else:
                name_ = x.data[1]
                terms_ = [x.data[0]] + list(x.data[2]) + [v_ for _, v_ in x.data[3]]
            if not any(isinstance(y, Op) and y.op == "file" for t_ in terms_ for y in walk(fm.norm(t_))):
                continue
            harmless = (x.kind == "methcall" and name_ in FILE_METHODS_OK) or \
                       (x.kind == "extcall" and name_.startswith(CONTENT_BLIND_CALLS))
            rep.check(harmless, rule, "%s:%s %s on the opened file cannot fail on its content" % (
                where.split(".")[-1], getattr(x.node, "lineno", "?"), name_), x.func, x.node,
                "%s is applied to the opened directory entry outside the per-file try/except: when it rejects the file's content "
                "(e.g. a zero-length file) the whole run ends with a traceback instead of a stderr diagnostic" % name_, node=x.node)
        # every file of the listing is processed: only a search (--id / --bmc-id) may end its loop early
        searching = any(q_.endswith(("parsePelFromID", "parsePelFromBmcID", "deletePELFromPELId")) for q_ in D.stack)
        if not searching:
            def over_walk(L_):      # a loop over the (root, dirs, files) tuples themselves: "top directory only" ends it by design
                it_ = fm.norm(L_.iter) if L_.iter is not None else None
                while isinstance(it_, Op) and it_.op in ("sorted", "list", "iter", "reversed", "enumerate") and it_.args:
                    it_ = it_.args[0]
                return isinstance(it_, Op) and it_.op == "call:os.walk"
            early = [s_ for L_ in file_loops if not over_walk(L_) for s_ in L_.stops if s_ != FALSE]
            rep.check(not early, rule, "%s: the per-file loop visits every file (no early end)" % where.split(".")[-1], where, inner.node,
                      "the per-file loop can end before all files were processed (it stops under %s, e.g. a lazily evaluated all()/any() "
                      "or a break): files listed after the first failing one are silently skipped" % (repr(early[0])[:120] if early else ""),
                      node=inner.node)
        if D.data[0] == PT + "parsePEL":
            a = D.data[1]
            rep.check(len(a) >= 3 and a[2] == Const(False), rule, "%s: directory modes decode with exit_on_error=False" % where.split(".")[-1],
                      where, D.node, "a directory mode decodes with exit_on_error=%r: one damaged file ends the whole run with status 1" % (a[2] if len(a) > 2 else None,),
                      node=D.node)
    rep.floor("per-file decode sites in directory loops", n, 8)


def check_stdout_in_loops(rep, fm):
    """inside a per-file loop, stdout may only be written on paths on which that file decoded to a non-empty result"""
    rule = "C09.R2.stdout-discipline"
    dls = set(dir_loops(fm))
    n = 0
    for P in fm.events:
        if not is_stdout_print(P) or not any(L in dls for L in P.loops):
            continue
        n += 1
        g = fm.norm(P.guard)
        res = decode_results(g)
        ok = False
        if res:
            m = {}
            for r in res:
                for k in (0, 1):
                    m[Op("getitem", r, Const(k))] = Const("")
                m[r] = Const("")
            g0 = subst(g, m)
            ok = g0 == FALSE or unsat(g0)[0]
        # no exception flag of a try around the decode may be set
        pos_exc = [c for c in conj(g) if isinstance(c, Sym) and c.kind == "exc"]
        ok = ok and not pos_exc
        rep.check(ok, rule, "%s:%s stdout output in a per-file loop happens only for a successfully decoded, selected PEL" % (
            P.func.split(".")[-1], getattr(P.node, "lineno", "?")), P.func, P.node,
            "stdout is written inside the per-file loop on a path on which the file was not decoded to a document (filtered, "
            "failed or junk file): such files must produce diagnostics on stderr only", node=P.node)
    rep.count("stdout writes inside per-file loops", n)


def check_framing(rep, fm, cli):
    rule = "C09.R3.framing"
    dls = dir_loops(fm)
    ev = fm.events
    json_modes = {"listOption": "list", "extractAllPELsData": "all", "printPELCount": "show_pel_count",
                  "parsePelFromPLID": "plID", "parsePelFromSRCID": "src"}
    exits = [e for e in ev if e.kind == "exit" and e.func == PT + "main"]
    for fn, dest in json_modes.items():
        q = PT + fn
        calls = [e for e in ev if e.kind == "call" and e.data[0] == q]
        if not calls:
            raise AnalysisError("directory mode %s is not reached from main()" % fn)
        for c0 in calls:
            end = min([x.seq for x in exits if x.seq > c0.seq] or [len(ev)])
            # (this activation ends where the next call of the same mode function begins, if main() goes on after it)
            end = min([end] + [c.seq for c in calls if c.seq > c0.seq])
            loops = [L for L in dls if q in L.stack and c0.seq < L.events[0] < end]
            if not loops:
                rep.fail(rule, q, fn, "no loop over the directory entries found in %s" % fn)
                continue
            first = min(L.events[0] for L in loops)
            last = max(L.events[1] for L in loops)
            pre = [e for e in ev if c0.seq < e.seq < first and q in e.stack and not e.loops]
            entry = set(conj(fm.norm(pre[-1].guard if pre else c0.guard)))
            finals = [e for e in ev if is_stdout_print(e) and q in e.stack and not e.loops and last <= e.seq < end]
            ok = False
            for P in finals:
                extra = [c for c in conj(fm.norm(P.guard)) if c not in entry]
                if extra and not all(is_hex_test(c) for c in extra):
                    # (the same condition may be written differently where the mode is entered and after its loop)
                    ent_ = and_(*entry)
                    extra = [c for c in extra if is_hex_test(c) or not implies(ent_, c)[0]]
                if all(is_hex_test(c) for c in extra):      # only the --hex switch may suppress it
                    ok = True
            rep.check(ok, rule, "%s: the closing output is printed after the loop on every path (only --hex may suppress it)" % fn, q, fn,
                      "the closing JSON output of %s is not printed unconditionally after the per-file loop (it depends on per-file "
                      "state / an exception / an early exit): %s" % (fn, [repr([c for c in conj(fm.norm(P.guard)) if c not in entry])[:160] for P in finals] or "no final print"))
            for L in loops:
                for x in ev[L.events[0]:L.events[1]]:
                    # (a return inside the loop shows up in the path condition of the closing print, checked above)
                    if x.kind == "exit":
                        if fm.norm(x.guard) != FALSE:
                            rep.fail(rule, q, x.node, "%s inside the per-file loop of %s skips the closing output / changes the exit status" % (x.kind, fn), node=x.node)
    check_all_separator(rep, fm, rule)


def all_mode_stdout_by_evaluation(prog):
    """What --all-pels writes to stdout, decided by running the summary of extractAllPELsData on sample directories:
    every pattern of per-file outcomes (a document / filtered out / decode raises) over 0..4 files must give
    '[' + documents joined by ',\\n' + ']' - however the separator is produced (flag, counter, separator string ...).
    Returns None when it holds, a message when it does not; raises CannotEval when the summary cannot be run."""
    import itertools
    from ..terms import evaluate, CannotEval, Sym as _Sym
    I = Interpreter(prog, hooks={"opaque": {PT + "parsePEL", PT + "getFileList", PT + "printPELInHexFormat"}})
    cfg = I.new("pel.peltool.config.Config")
    I.obj(cfg).attrs["hex"] = Const(False)
    path = Sym("path")
    I.call(PT + "extractAllPELsData", [path, cfg])
    prints = [e for e in I.events if is_stdout_print(e)]
    if not prints:
        raise CannotEval("no stdout output in extractAllPELsData")
    items = []
    for e in prints:
        kw = dict(e.data[1])
        sep, end = kw.get("sep", Const(" ")), kw.get("end", Const("\n"))
        parts = []
        for i, a in enumerate(e.data[0]):
            if i:
                parts.append(sep)
            parts.append(Op("str", a) if not is_const(a, str) else a)
        parts.append(end)
        text = Op("concat", *parts) if len(parts) > 1 else parts[0]
        items.append(("rep", e.loops[-1], text, e.guard) if e.loops else ("v", text, e.guard))
    loops = {it[1] for it in items if it[0] == "rep"}
    if len(loops) != 1:
        raise CannotEval("documents are not printed from one per-file loop")
    L = loops.pop()
    bad = None
    n = 0
    for nfiles in range(0, 5):
        for outcome in itertools.product(("doc", "filtered", "raises"), repeat=nfiles):
            names = ["f%d.pel" % i for i in range(nfiles)]

            def cur(env):
                i = env.get(L.idx)
                if i is None or not (0 <= i < nfiles):
                    raise CannotEval("decode result used outside the per-file loop")
                return i

            def parse_stub(env, *a):
                i = cur(env)
                # (two files may carry the same entry id - copies of one log: both are documents of the array)
                return ("E%d" % (i % 2), "{DOC%d}" % i) if outcome[i] == "doc" else ("", "")
            parse_stub.wants_env = True

            def sym_hook(t, env, _inner=[None]):
                if t.kind == "exc":
                    i = env.get(L.idx)
                    return i is not None and 0 <= i < nfiles and outcome[i] == "raises"
                return _inner[0](t, env)
            env = pelx.with_heap(I, {path: "/pels"})
            inner = env["__sym__"]
            env["__sym__"] = lambda t, e_, inner=inner: (sym_hook(t, e_, [inner]))
            env["__ops__"] = {"call:" + PT + "parsePEL": parse_stub,
                              "call:" + PT + "getFileList": lambda *a: ("/pels", list(names)),
                              "file": lambda *a: "<file %s>" % (a[0],), "m:read": lambda *a: b"<data>",
                              "call:os.path.join": lambda *a: "/".join(str(x) for x in a), "str": lambda x: str(x)}
            got = "".join(pelx.eval_items(items, env))
            docs = ["{DOC%d}" % i for i in range(nfiles) if outcome[i] == "doc"]
            want = "[\n" + ",\n".join(docs) + ("\n" if docs else "") + "]\n"
            n += 1
            if got != want and bad is None:
                bad = "%d files with outcomes %s: stdout is %r, a JSON array of the decoded documents is %r" % (nfiles, list(outcome), got, want)
    return bad, n


def check_all_separator(rep, fm, rule):
    from ..terms import CannotEval
    try:
        bad, n = all_mode_stdout_by_evaluation(fm.prog if hasattr(fm, "prog") else fm.I.prog)
        rep.count("--all-pels outcome patterns evaluated", n)
        rep.check(bad is None, rule, "-a: stdout is '[' + the decoded documents joined by ',' + ']' for every pattern of per-file outcomes "
                  "(document / filtered out / decode raises) over 0..4 files", PT + "extractAllPELsData", "print(',')",
                  "the JSON array of --all-pels is not well-formed for every mix of files: %s" % bad)
        return
    except CannotEval as e:
        rep.count("--all-pels summary not runnable (%s): decided from its shape" % str(e)[:50], 1)
    ev = fm.events
    # -a: separator depends only on "a document has already been printed"
    q = PT + "extractAllPELsData"
    seps = [e for e in ev if is_stdout_print(e) and q in e.stack and e.loops and e.data[0] and e.data[0][0] == Const(",")]
    docs = [e for e in ev if is_stdout_print(e) and q in e.stack and e.loops and e.data[0] and decode_results(e.data[0][0])]
    ok = len(seps) == 1 and len(docs) == 1 and seps[0].seq < docs[0].seq
    if ok:
        L = docs[0].loops[-1]
        flag = [k for k, (i, nx, d, w) in L.carried.items() if "." not in k]
        ok = False
        for k in flag:
            init, nxt, d, w = L.carried[k]
            lv = [x for x in walk(fm.norm(seps[0].guard)) if isinstance(x, Sym) and x.kind == "loopvar" and x.name.endswith(":" + k)]
            if lv and init in (Const(False), Const(0)):
                # the "something was printed" state (a flag, or a counter starting at 0) becomes true exactly where the
                # document is printed and never reverts; the separator is printed on the document path when it is set
                base = set(conj(fm.norm(L.body_guard)))
                gdoc = and_(*[c for c in conj(fm.norm(docs[0].guard)) if c not in base])
                gsep = [c for c in conj(fm.norm(seps[0].guard)) if c not in base]
                nx = fm.norm(nxt)
                v = lv[0]
                is_set = {v, compare("ne", v, Const(0)), compare("gt", v, Const(0)), compare("ge", v, Const(1)), Op("truthy", v)}
                becomes_set = (Const(True), add(v, Const(1))) if init == Const(0) else (Const(True),)
                ok = isinstance(nx, Ite) and implies(gdoc, nx.c)[0] and nx.a in becomes_set and nx.b == v \
                    and implies(nx.c, gdoc)[0] and len(set(gsep) - set(conj(gdoc))) == 1 and (set(gsep) - set(conj(gdoc))) <= is_set \
                    and set(conj(gdoc)) <= set(gsep)
    rep.check(ok, rule, "-a: ',' is printed before a document iff an earlier document was printed (flag set exactly at the document print)",
              q, "print(',')", "the separator of the JSON array does not depend solely on whether a document has already been printed: "
              "a skipped/junk first file yields a stray or missing comma")


def is_hex_test(c):
    a = c.args[0] if isinstance(c, Op) and c.op == "not" else c
    return isinstance(a, Op) and a.op.startswith("attr:hex")


def check_walks(rep, fm):
    rule = "C09.R5.top-level-only"
    n = 0
    for L in fm.I.loops.values():
        it = fm.norm(L.iter) if L.iter is not None else None
        if isinstance(it, Op) and it.op == "call:os.walk":
            n += 1
            rep.check(pelx.stops_always(L), rule, "%s: os.walk loop stops after the top-level directory" % L.func.split(".")[-1],
                      L.func, L.node, "directory walk descends into subdirectories (no unconditional break after the first entry)", node=L.node)
            # only the files component (index 2) of the walk tuple may be iterated
    for L in fm.I.loops.values():
        it = fm.norm(L.iter) if L.iter is not None else None
        if isinstance(it, Op) and it.op == "getitem" and isinstance(it.args[0], Op) and it.args[0].op == "elem" and \
                isinstance(it.args[0].args[0], Op) and it.args[0].args[0].op == "call:os.walk":
            rep.check(it.args[1] == Const(2), rule, "%s iterates the files of the walk entry, not its sub-directories" % L.func.split(".")[-1],
                      L.func, L.node, "loop iterates component %r of the os.walk entry (sub-directories would be opened as PELs)" % (it.args[1],), node=L.node)
    rep.count("os.walk loops", n)
    if True:
        # a different directory API: it must not yield sub-directories unfiltered
        for e in fm.events:
            if e.kind == "extcall" and e.data[0] in ("os.listdir", "os.scandir", "glob.glob") and e.func.startswith(PT):
                guards = [x for x in fm.events if x.kind == "extcall" and x.data[0] in ("os.path.isfile", "os.path.isdir") and x.func == e.func]
                joined = [x for x in guards if any(isinstance(y, Op) and y.op == "call:os.path.join" for a in x.data[1] for y in walk(a))]
                rep.check(bool(joined), rule, "%s filters directory entries with isfile/isdir on the joined path" % e.func.split(".")[-1], e.func, e.node,
                          "directory listing via %s does not exclude sub-directories by testing os.path.isfile/isdir on the full path: a "
                          "sub-directory is opened as a PEL file outside the per-file barrier" % e.data[0], node=e.node)
                # ... and that test really guards every entry that is kept (with `a and b or c` it guards only part of them)
                keeps = [x for x in fm.events if x.kind == "append" and x.func == e.func and x.loops and x.seq > e.seq]
                tests = []
                for x in joined:
                    t_ = Op("call:" + x.data[0], *[fm.norm(a_) for a_ in x.data[1]])
                    tests.append(t_ if x.data[0].endswith("isfile") else not_(t_))
                for k_ in keeps:
                    okk = bool(tests) and implies(fm.norm(k_.guard), or_(*tests))[0]
                    rep.check(okk, rule, "%s:%s an entry is kept only if the isfile/isdir test passed" % (e.func.split(".")[-1], getattr(k_.node, "lineno", "?")),
                              e.func, k_.node, "an entry of the directory listing is kept on a path on which the isfile/isdir test was not made or "
                              "did not pass (operator precedence / short circuit): a sub-directory whose name passes the other tests is opened as a "
                              "PEL file outside the per-file barrier", node=k_.node)


def check_no_stream_redirection(rep, prog, rule):
    # nobody re-points the process-wide streams: a decode that fails between "redirect" and "restore" leaves every later
    # document on the wrong stream (and even a balanced redirection hides what the CLI prints meanwhile)
    import ast as _ast
    nredir = 0
    for m in prog.modules.values():
        for node in _ast.walk(m.tree):
            tgt = []
            if isinstance(node, (_ast.Assign, _ast.AugAssign, _ast.AnnAssign)):
                tgt = node.targets if isinstance(node, _ast.Assign) else [node.target]
            elif isinstance(node, (_ast.With, _ast.AsyncWith)):
                for it in node.items:
                    c = it.context_expr
                    if isinstance(c, _ast.Call) and getattr(c.func, "attr", getattr(c.func, "id", "")) in ("redirect_stdout", "redirect_stderr"):
                        tgt.append(c)
            elif isinstance(node, _ast.Call) and getattr(node.func, "attr", getattr(node.func, "id", "")) == "setattr" and len(node.args) >= 2 and \
                    isinstance(node.args[0], _ast.Name) and node.args[0].id == "sys" and isinstance(node.args[1], _ast.Constant) and \
                    node.args[1].value in ("stdout", "stderr"):
                tgt.append(node)
            for t in tgt:
                special = isinstance(t, _ast.Call) and not isinstance(node, (_ast.Assign, _ast.AugAssign, _ast.AnnAssign))
                for x in ([t] if special else _ast.walk(t)):
                    hit = special or (isinstance(x, _ast.Attribute) and x.attr in ("stdout", "stderr", "__stdout__") and
                                      isinstance(x.value, _ast.Name) and x.value.id == "sys" and isinstance(x.ctx, _ast.Store))
                    if hit:
                        nredir += 1
                        rep.fail(rule, m.name, node, "sys.stdout / sys.stderr is re-pointed (%s:%s): output of the command line goes to the "
                                 "wrong stream whenever the code between redirection and restoration fails or prints" % (m.rel, node.lineno), node=node)
                        break
    rep.count("stream redirections", nredir)


def check_decoder_prints(rep, prog, rule="C09.R2.stdout-discipline"):
    """who-may-print: stdout writes outside the CLI reporting functions"""
    # evidence of reachability / deadness from interpreting every section decoder
    from .c01 import run_sectionfun, DISPATCH, HEXDUMP_ONLY
    executed_nodes = set()
    interpreted_funcs = set()
    for sid in list(DISPATCH) + HEXDUMP_ONLY[:1] + [0x5A5A]:
        I, st, out = run_sectionfun(prog, sid, True)
        for e in I.events:
            interpreted_funcs.add(e.func)
            if e.kind in ("print", "exit", "extcall", "methcall"):
                executed_nodes.add(id(e.node))
    # what a file being decoded can execute: everything the (opaque) per-file decode entry points may call, by the
    # over-approximate name-based call graph, plus every dynamically imported plug-in entry point
    graph = effects.call_graph(prog)
    roots = set(DECODERS) | {q for q in graph if q.split(".")[-1] in ("parseUDToJson", "parseSRCToJson")}
    decode_side = effects.reachable(graph, roots)
    rep.count("functions a per-file decode may reach (call graph)", len(decode_side))
    rep.floor("decode-side functions", len(decode_side), 60)
    check_no_stream_redirection(rep, prog, rule)
    n = 0
    for cs in effects.call_sites(prog):
        name = cs.name or ""
        short = name[len("builtins."):] if name.startswith("builtins.") else name
        is_print = short == "print" and effects.print_target(cs.node) == "stdout"
        is_write = short in ("sys.stdout.write", "sys.stdout.writelines")
        is_exit = short in effects.EXITS
        if not (is_print or is_write or is_exit):
            continue
        q = cs.qual
        top = effects.enclosing_top_function(cs.node)
        tq = effects._qual_of(cs.module, top) if top is not None else cs.module.name + ".<module>"
        if tq not in decode_side:
            # CLI-side code: its output is constrained by the event rules above where it runs inside a per-file loop
            continue
        if (q in (PT + "processId", PT + "parsePEL") or (tq == PT + "parsePEL" and q != tq)) and is_exit:
            # argument validation / the documented -f exit path (exit_on_error), see C05: that rule interprets parsePEL
            # together with the helper functions nested in it and checks every exit executed there
            continue
        if is_exit:
            from .c05 import parsepel_exit_helpers
            hq, hnodes = parsepel_exit_helpers(prog)
            if tq in hq and id(cs.node) in hnodes:
                continue            # the same exit_on_error path, written in a helper only parsePEL calls
        n += 1
        dead = q in interpreted_funcs and id(cs.node) not in executed_nodes
        kind = "process exit" if is_exit else "stdout write"
        rep.check(dead, rule, "%s %s:%s is unreachable (proved dead by the interpreter)" % (kind, cs.module.rel, cs.node.lineno), q, cs.node,
                  "%s in a decoder / library function: a file in a directory mode can add text to stdout or end the run "
                  "(only the CLI reporting functions may write to stdout; diagnostics belong on stderr)" % kind, node=cs.node, file=cs.module.rel)
    rep.count("stdout/exit sites outside CLI functions", n)


def run(rep, prog, thorough):
    rep.explanation = (
        "main() is interpreted with all directory modes inlined (decoders opaque). Rules over the event log: every decode of a "
        "directory entry lies in a try inside the per-file loop whose handler catches Exception, writes to stderr only and "
        "continues; stdout writes inside per-file loops are executed only on paths with a non-empty decode result; closing "
        "output post-dominates the loop; os.walk loops stop at the top level and iterate files only; syntactic who-may-print / "
        "who-may-exit scan over all modules with dead-branch evidence from the interpreter.")
    fm = FullMain(prog)
    cli = None
    rep.count("events in main() interpretation", len(fm.events))
    check_barriers(rep, fm)
    check_stdout_in_loops(rep, fm)
    check_framing(rep, fm, cli)
    check_walks(rep, fm)
    check_decoder_prints(rep, prog)
    # what counts as junk must not depend on the display mode
    from .c08 import check_decode_independent_of_display
    check_decode_independent_of_display(rep, prog, "C09.R1.per-file-barrier")
    # a truncated / damaged file is only kept out of the report if reading past its end fails: the stream's range checks
    # (rule shared with C05)
    from .c05 import check_stream_guards
    check_stream_guards(rep, prog)
    # an undecodable file may not change what is reported for the files after it: nothing a (failing) decode leaves behind
    # is read by a later one (rule shared with C19)
    from .c05 import decoder_runs
    from .c19 import check_decode_state
    check_decode_state(rep, prog, decoder_runs(prog))
    # a file whose headers do not decode is counted / listed / shown by no mode: count, list and all apply the same
    # PH -> UH -> considerPEL pipeline (rule shared with C08)
    from .c08 import check_pipelines
    cfgs = [e.data[1] for e in fm.events if e.kind == "new" and e.data[0] == "pel.peltool.config.Config"]
    if not cfgs:
        raise AnalysisError("main() does not build a Config")
    check_pipelines(rep, prog, fm, cfgs[0])
