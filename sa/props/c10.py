"""C10 - look-ups by platform log id, BMC id, entry id and SRC return exactly the matches."""
from ..core import AnalysisError
from ..interp import Interpreter
from ..terms import (Const, Sym, Op, Ite, Ref, TRUE, FALSE, NONE, walk, and_, or_, not_, is_const, is_int, subst, compare,
                     evaluate, CannotEval)
from .. import pelx
from ..pelx import implies, env_str, unsat, IntF, F, hex_render, dec_render, as_int_field
from ..cli import FullMain, Cli, PT, ARGS
from .c09 import conj, is_stdout_print

OPAQUE = ["parsePEL", "parsePELSummary", "generateUH", "considerPEL", "prettyPrint"]


def check_processId(rep, prog):
    rule = "C10.R1.id-normalisation"
    I = Interpreter(prog)
    pid = Sym("pid")
    r = I.call(PT + "processId", [pid])
    up = Op("m:upper", pid)
    good = {Op("getslice", up, Const(2), NONE), Op("m:removeprefix", up, Const("0X"))}
    ok = isinstance(r, Ite) and ((r.a in good and r.b == up and r.c == Op("m:startswith", up, Const("0X"))))
    ok = ok or r in good and False
    rep.check(ok, rule, "processId: upper-case, strip exactly one leading '0X'", "processId", "return pid",
              "the id is not normalised as upper-case with exactly the '0X' prefix removed (leading zero digits must survive): %r" % (r,))
    exits = [e for e in I.events if e.kind == "exit"]
    okx = len(exits) == 1 and exits[0].guard == compare("ne", Op("len", r), Const(8))
    rep.check(okx, rule, "processId rejects ids whose length is not 8", "processId", "if len(pid) != DEFAULT_ID_LENGTH",
              "ids are not required to have exactly 8 digits: %s" % [repr(e.guard)[:120] for e in exits])
    return r


def norm_id(fm, dest):
    up = Op("m:upper", fm.arg(dest))
    return Ite(Op("m:startswith", up, Const("0X")), Op("getslice", up, Const(2), NONE), up)


def check_plid(rep, prog, fm):
    rule = "C10.R1.plid-match"
    # writer: how the PLID is rendered in the summary
    I = Interpreter(prog, hooks={"opaque": {PT + "sectionFun", PT + "considerPEL"}})
    st = pelx.new_stream(I)
    cfg = I.new("pel.peltool.config.Config")
    I.call(PT + "parsePELSummary", [st, cfg])
    sts = [e for e in I.events if e.kind == "dict_store" and e.func == PT + "parsePELSummary" and e.data[1] == Const("PLID")]
    ok = len(sts) == 1
    h = hex_render(sts[0].data[2]) if ok else None
    okw = h is not None and h["prefix"] == "0x" and h["upper"] and h["min_digits"] == 8 and h["value"] == IntF(40, 4) and not h.get("pad_space")
    rep.check(okw, rule, "summary PLID = '0x' + exactly 8 upper-case hex digits of the 32-bit platform log id @40", "parsePELSummary",
              "summary['PLID'] = ...", "the PLID the matcher sees is not the fixed-width rendering 0x%%08X of bytes[40:44]: ids below "
              "0x10000000 can never equal an 8-digit query: %r" % (sts[0].data[2] if ok else None,))
    # matcher
    q = PT + "parsePelFromPLID"
    stores = [e for e in fm.events if e.kind == "dict_store" and q in e.stack]
    want_in = Op("in", norm_id(fm, "plID"), None)
    okm = False
    for e in stores:
        ge = fm.norm(e.guard)
        # the containment test may sit anywhere in the path condition (nested if, helper predicate, match counter);
        # what counts is that the path to the store implies it
        for c in walk(ge):
            if isinstance(c, Op) and c.op in ("in", "eq") and c.args[0] == norm_id(fm, "plID") and implies(ge, c)[0]:
                tgt = c.args[1]
                if isinstance(tgt, Op) and tgt.op == "getitem" and tgt.args[1] == Const("PLID") and \
                        isinstance(tgt.args[0], Op) and tgt.args[0].op == "getitem" and tgt.args[0].args[1] == Const(1):
                    okm = True
                if c.op == "eq" and isinstance(tgt, Op) and tgt.op == "getslice":
                    okm = True
    rep.check(okm and len(stores) == 1, rule, "--plid keeps a PEL iff the normalised id is contained in its rendered PLID", q,
              "if plid in summary['PLID']", "--plid does not compare the normalised query with the summary's PLID")
    for e in stores:
        key, val = fm.norm(e.data[1]), fm.norm(e.data[2])
        okk = isinstance(key, Op) and key.op == "getitem" and key.args[1] == Const(0) and isinstance(val, Op) and val.op == "getitem" \
            and val.args[1] == Const(1) and key.args[0] == val.args[0]
        rep.check(okk, rule, "matches are stored as result[entry id] = summary of the same PEL", q, e.node,
                  "match is not stored under its own entry id", node=e.node)


def check_bmcid(rep, prog, fm):
    rule = "C10.R2.bmc-id"
    q = PT + "parsePelFromBmcID"
    decs = [e for e in fm.events if e.kind == "opaquecall" and q in e.stack and e.data[0] == PT + "parsePEL"]
    if not decs:
        rep.fail(rule, q, "parsePelFromBmcID", "--bmc-id no longer decodes the matching PEL")
        return
    D = decs[0]
    gD = fm.norm(D.guard)
    match = None
    # the comparison with the option value that the path to the decode implies (however the non-matching files are
    # skipped: nested if, guard-clause continue, helper predicate)
    for x in walk(gD):
        if isinstance(x, Op) and x.op in ("eq", "ne", "in", "notin") and fm.arg("bmcID") in x.args:
            for P in (x, not_(x)):
                if isinstance(P, Op) and P.op in ("eq", "in") and match is None and implies(gD, P)[0]:
                    match = P
    ok = False
    why = "no comparison with the option value found"
    if match is not None:
        from ..interp import _strip_undef
        other = [a for a in match.args if a != fm.arg("bmcID")]
        v = dec_render(other[0]) if other else None
        v = _strip_undef(v) if v is not None else None
        ok = False
        if match.op == "eq" and isinstance(v, Op) and v.op == "int_from_bytes" and isinstance(v.args[0], Op) and v.args[0].op == "getslice":
            sl = v.args[0]
            ok = sl.args[1] == Const(28) and sl.args[2] == Const(32) and v.args[1] == Const("big") and v.args[2] == Const(False) and \
                isinstance(sl.args[0], Op) and sl.args[0].op == "m:read"
        why = "comparison is %r" % (match,)
    rep.check(ok, rule, "--bmc-id N selects the PEL whose decimal BMC event log id (bytes[28:32]) equals N", q, D.node,
              "--bmc-id does not test equality of the decimal rendering of the 32-bit id @28 with the option value (%s)" % why, node=D.node)
    # search continues past non-matching and failing files; stops only after a match
    L = D.loops[-1] if D.loops else None
    brks = [e for e in fm.events if e.kind == "break" and q in e.stack and L is not None and e.loops and e.loops[-1] is L]
    okb = L is not None and all(match is not None and implies(fm.norm(b.guard), match)[0] for b in brks)
    rep.check(okb, rule, "the file search stops only after the id matched", q, L.node if L else None,
              "the search can stop before the matching file is reached (break/handler not tied to the match)", node=L.node if L else None)
    # barrier inside the loop (a junk file earlier in the listing must not end the search)
    from .c12 import tries_covering
    try_enter = {e.data[0]: e for e in fm.events if e.kind == "try_enter"}
    perfile = [e for e in fm.events if L is not None and L in e.loops and q in e.stack and
               (e.kind == "open" or (e.kind == "opaquecall" and e.data[0] in (PT + "generatePH", PT + "parsePEL")))]

    def barrier_in_loop(x):
        return any(exc in try_enter and L in try_enter[exc].loops for exc in tries_covering(fm.events, x))
    rep.check(L is not None and bool(perfile) and all(barrier_in_loop(x) for x in perfile), rule, "per-file try/except lies inside the search loop", q, D.node,
              "the try/except around the per-file work encloses the whole loop: a non-PEL file that sorts earlier ends the search", node=D.node)
    nf = [e for e in fm.events if is_stdout_print(e) and q in e.stack and e.data[0] and e.data[0][0] == Const("PEL not found")]
    rep.check(len(nf) == 1 and not nf[0].loops, rule, "'PEL not found' is reported after the search when nothing matched", q, "print('PEL not found')",
              "'PEL not found' is not reported exactly once after the search")


def check_entryid(rep, prog, fm):
    rule = "C10.R3.entry-id"
    q = PT + "parsePelFromID"
    calls = [e for e in fm.events if e.kind == "call" and q in e.stack and e.data[0] == PT + "parseAndPrintPELFile"]
    if not calls:
        rep.fail(rule, q, "parsePelFromID", "--id no longer displays the matching file")
        return
    C = calls[0]
    g = conj(fm.norm(C.guard))
    want = norm_id(fm, "pelID")
    from .c11 import walk_elem_parts, conj_terms
    parts = walk_elem_parts(fm, fm.norm(C.data[1][0]))
    if parts is not None and parts[0] == "first":
        # the file is found by a first-match scan (helper returning from inside its loop / next()) and displayed after it
        _, w, lid, cond, fname, ex = parts
        cnd = fm.norm(cond) if cond is not None else None
        ok = cnd is not None and any(isinstance(c, Op) and c.op == "in" and c.args[0] == want and c.args[1] == fname for c in conj_terms(cnd)) \
            and (ex is None or implies(fm.norm(C.guard), ex)[0])
        rep.check(ok, rule, "--id displays a file whose name contains the normalised entry id", q, C.node,
                  "--id does not select the file by 'normalised id in file name'", node=C.node)
        once = not any(fm.norm(L.iter) == fname.args[0] for L in C.loops)
        rep.check(once, rule, "--id stops after the first match", q, C.node, "--id keeps displaying further files after the first match", node=C.node)
    else:
        ok = any(isinstance(c, Op) and c.op == "in" and c.args[0] == want and any(isinstance(x, Op) and x.op == "elem" for x in walk(c.args[1])) for c in g)
        rep.check(ok, rule, "--id displays a file whose name contains the normalised entry id", q, C.node,
                  "--id does not select the file by 'normalised id in file name'", node=C.node)
        L = C.loops[-1] if C.loops else None
        brks = [e for e in fm.events if e.kind == "break" and q in e.stack and L is not None and e.loops and e.loops[-1] is L and e.seq > C.seq]
        rep.check(bool(brks), rule, "--id stops after the first match", q, C.node, "--id keeps displaying further files after the first match", node=C.node)
    nf = [e for e in fm.events if is_stdout_print(e) and q in e.stack and e.data[0] and e.data[0][0] == Const("PEL not found")]
    rep.check(len(nf) == 1, rule, "'PEL not found' when no file name contains the id", q, "print('PEL not found')", "'PEL not found' message missing")


def check_src(rep, prog, fm):
    rule = "C10.R4.src"
    q = PT + "parsePelFromSRCID"
    # every reference code text of 1..32 characters (32 = a complete reference code) is searched for: no argument check may
    # end the run for it
    from ..terms import evaluate, CannotEval
    srcarg = fm.arg("src")
    bad = None
    nex = 0
    for e in fm.events:
        if e.kind != "exit" or q not in e.stack:
            continue
        rel = [c for c in conj(fm.norm(e.guard)) if any(x == srcarg for x in walk(c))]
        if not rel:
            continue
        nex += 1
        for n_ in (1, 2, 8, 31, 32):
            text_ = "B" * n_
            env_ = {srcarg: text_, Op("len", srcarg): n_, Op("truthy", srcarg): True}
            try:
                hit = all(bool(evaluate(c, env_)) for c in rel)
            except CannotEval:
                hit = False
            if hit and bad is None:
                bad = (e, n_)
    rep.check(bad is None, rule, "--src accepts every text of 1..32 characters", q, bad[0].node if bad else "if len(config.src) > 32",
              "a reference code text of %d characters ends the run with an argument error instead of being searched for" % (bad[1] if bad else 0),
              node=bad[0].node if bad else None)
    rep.count("--src argument checks that can end the run", nex)
    stores = [e for e in fm.events if e.kind == "dict_store" and q in e.stack]
    inc = exc = None
    guards = []
    for e in stores:
        g_all = fm.norm(e.guard)
        guards.append(g_all)
        for c in walk(g_all):
            if not (isinstance(c, Op) and c.op in ("in", "notin", "not")):
                continue
            if c.op == "not" and isinstance(c.args[0], Op) and c.args[0].op == "in":
                c = Op("notin", *c.args[0].args)
            # a value that is only bound on some paths (the exclude file's text): keep the alternative this path implies
            if any(isinstance(x, Ite) for x in walk(c)):
                c = pelx.specialise(c, g_all)
            if isinstance(c, Op) and c.op == "in" and c.args[0] == fm.arg("src"):
                inc = (e, c)
            if isinstance(c, Op) and c.op == "notin" and isinstance(c.args[1], Op) and c.args[1].op == "m:read":
                exc = (e, c)
    if inc is not None and exc is not None:
        # a PEL is kept only on a path on which one of the two tests succeeded (whatever the control structure)
        either = or_(and_(fm.arg("src"), inc[1]), exc[1])
        loose = [g for g in guards if not implies(pelx.specialise(g, g), either)[0]]
        rep.check(not loose, rule, "every path that keeps a PEL passed the --src or the --src-exclude test", q, "final_summary[eid] = summary",
                  "a PEL can be kept without having passed the --src / --src-exclude test")

    if exc is not None:
        # ... and the exclude file's text decides nothing but that containment test: whether it is empty, how long it is or what
        # it starts with may not keep a PEL out of the listing
        ftext = exc[1].args[1]
        other = []
        def leaves(c):
            if isinstance(c, Op) and c.op in ("and", "or", "not"):
                for a in c.args:
                    yield from leaves(a)
            elif isinstance(c, Ite):
                for a in (c.c, c.a, c.b):
                    yield from leaves(a)
            else:
                yield c
        same_test = (exc[1], Op("in", *exc[1].args))
        for g in guards:
            for c in leaves(pelx.specialise(g, g)):
                if any(x == ftext for x in walk(c)) and c not in same_test and c not in other:
                    other.append(c)
        rep.check(not other, rule, "the exclude file's text is used for the containment test only", q, "if summary['SRC'] not in src_exclude_file_data",
                  "whether a PEL is listed under --src-exclude also depends on %s: a PEL whose reference code does not occur in the "
                  "file can be left out (e.g. with an empty exclude file)" % ", ".join(repr(c)[:900] for c in other))

    def is_summary_src(t):
        return isinstance(t, Op) and t.op == "getitem" and t.args[1] == Const("SRC") and isinstance(t.args[0], Op) and \
            t.args[0].op == "getitem" and t.args[0].args[1] == Const(1)
    rep.check(inc is not None and is_summary_src(inc[1].args[1]), rule, "--src S keeps a PEL iff S is contained in its reference code", q,
              "if config.src and config.src in summary['SRC']", "--src does not test 'option value in summary SRC'")
    okx = exc is not None and is_summary_src(exc[1].args[0])
    if okx:
        f = exc[1].args[1]
        okx = isinstance(f.args[0], Op) and f.args[0].op == "file" and f.args[0].args[0] == fm.arg("src_exclude_file")
    rep.check(okx, rule, "--src-exclude keeps a PEL iff its reference code does not occur in the exclude file", q,
              "if summary['SRC'] not in src_exclude_file_data", "--src-exclude does not test 'summary SRC not in <text of the given file>'")
    # provenance of summary['SRC']: reference code of the primary SRC, wherever it is among the optional sections
    I = Interpreter(prog, hooks={"opaque": {PT + "sectionFun", PT + "considerPEL"}})
    st = pelx.new_stream(I)
    cfg = I.new("pel.peltool.config.Config")
    I.call(PT + "parsePELSummary", [st, cfg])
    sts = [e for e in I.events if e.kind == "dict_store" and e.data[1] == Const("SRC")]
    sf = [e for e in I.events if e.kind == "opaquecall" and e.data[0] == PT + "sectionFun"]
    ok = len(sts) == 1 and len(sf) == 1 and bool(sf[0].loops)
    detail = "no loop over the optional sections that records the primary SRC"
    if ok:
        from .c01 import exact_section_count_loop
        L = sf[0].loops[-1]
        sid = sf[0].data[1][2]
        secj = sf[0].data[1][1]
        is_ps = compare("eq", sid, Const(0x5053))
        from ..interp import _strip_undef
        val = _strip_undef(sts[0].data[2])
        okv = isinstance(val, Op) and val.op == "getitem" and val.args[1] == Const("Reference Code") and \
            any(x == secj for x in walk(val)) and any(is_const(x, str) and x.v == "Primary SRC" for x in walk(val))
        okt = exact_section_count_loop(L)[0]
        base = getattr(L, "body_guard_full", set())
        if L in sts[0].loops:
            # recorded inside the loop, at the primary SRC; the scan may stop only there
            okg = is_ps in conj(sts[0].guard)
            brk = [e for e in I.events[L.events[0]:L.events[1]] if (e.kind == "break" or (e.kind == "return" and e.func == L.func))
                   and e.loops and e.loops[-1] is L]
            okb = all(is_ps in conj(b.guard) for b in brk)
        else:
            # handed out of the loop by a return at the primary SRC (first-match search)
            lr = [x for x in walk(val) if isinstance(x, Op) and x.op == "loopret" and x.args[0] == Const(L.lid)]
            rets = [e for e in I.events[L.events[0]:L.events[1]] if e.kind == "return" and e.func == L.func and e.loops and e.loops[-1] is L]
            okg = bool(lr) and len(rets) == 1 and is_ps in conj(rets[0].guard)
            rel = [c for c in conj(rets[0].guard) if c not in base] if rets else []
            okb = okg and all(c == is_ps or (isinstance(c, Op) and c.op in ("ge", "le", "lt", "gt", "not")) for c in rel)
        ok = okv and okg and okt and okb
        detail = "value ok=%s, taken when id==PS=%s, scans all sections=%s, stops only at PS=%s" % (okv, okg, okt, okb)
    rep.check(ok, rule, "summary SRC = Reference Code of the Primary SRC section, searched among all optional sections", "parsePELSummary",
              "summary['SRC'] = ...", "the reference code used by --src/--src-exclude is not that of the primary SRC wherever it is in the "
              "log (%s)" % detail)
    for e in stores:
        key, val = fm.norm(e.data[1]), fm.norm(e.data[2])
        okk = isinstance(key, Op) and key.op == "getitem" and key.args[1] == Const(0) and isinstance(val, Op) and val.op == "getitem" \
            and val.args[1] == Const(1) and key.args[0] == val.args[0]
        rep.check(okk, rule, "matches are stored as result[entry id] = summary of the same PEL", q, e.node, "match is not stored under its own entry id", node=e.node)
    # empty result still printed
    fin = [e for e in fm.events if is_stdout_print(e) and q in e.stack and not e.loops]
    rep.check(len(fin) >= 2, rule, "the (possibly empty) result object is always printed", q, "print(prettyPrint(json.dumps(final_summary)))", "result not printed")


def strip_undef(t):
    from .c01 import subst_guarded
    return subst_guarded(t)


def run(rep, prog, thorough):
    rep.explanation = (
        "Writer/matcher agreement decided from terms: the query normalisation (upper-case, exactly the 0X prefix sliced off, "
        "length 8) against the fixed-width rendering 0x%08X of the 32-bit id the matcher sees; the --bmc-id equality on the "
        "decimal rendering of bytes[28:32]; --id containment in the file name with first-match break; --src/--src-exclude "
        "containment tests on the primary SRC's reference code found by a scan over all optional sections; search loops "
        "continue past failing files (per-file barrier inside the loop).")
    fm = FullMain(prog, opaque=OPAQUE)
    check_processId(rep, prog)
    check_plid(rep, prog, fm)
    check_bmcid(rep, prog, fm)
    check_entryid(rep, prog, fm)
    check_src(rep, prog, fm)
    # the look-up functions normalise with processId
    for fn, dest in (("parsePelFromPLID", "plID"), ("parsePelFromID", "pelID")):
        calls = [e for e in fm.events if e.kind == "call" and PT + fn in e.stack and e.data[0] == PT + "processId"]
        ok = len(calls) == 1 and fm.norm(calls[0].data[1][0]) in (fm.arg(dest), fm.norm(Ite(fm.arg(dest), fm.arg(dest), NONE)))
        rep.check(ok or (len(calls) == 1 and fm.arg(dest) in list(walk(fm.norm(calls[0].data[1][0])))), "C10.R1.id-normalisation",
                  "%s normalises the option value with processId" % fn, PT + fn, "processId(...)", "%s does not normalise the given id" % fn)
    # a look-up finds a PEL whatever its type only because considerPEL sees the id in the Config (rule shared with C07)
    from .c07 import check_lookups_recorded
    from ..cli import Cli
    cli = Cli(prog)
    by_attr = {}
    for attr, val, g, e in cli.config_stores():
        by_attr.setdefault(attr, []).append((val, g, e))
    check_lookups_recorded(rep, cli, by_attr, "C10.R5.lookup-bypasses-filter")
    # a look-up finds hidden / non-serviceable / informational PELs too: the selection rule with a look-up id set and no
    # other selection is "every PEL" (the decision table of C07, which contains these rows)
    from .c07 import check_decision_table
    check_decision_table(rep, prog, False)
    # "lists all matching PELs": a file the decode fails on (for whatever reason) does not end the search - the per-file
    # barrier catches every Exception (rule shared with C09)
    from .c09 import check_barriers
    check_barriers(rep, FullMain(prog))
    rep.floor("obligations", len(rep.obligations), 15)
