"""C06 - the printed JSON parses back to exactly the decoded document."""
import ast

from ..core import AnalysisError
from ..interp import Interpreter
from ..terms import (Const, Sym, Op, Ite, Ref, TRUE, FALSE, NONE, Undef, walk, and_, or_, not_, is_const, is_int, subst, compare,
                     add, sub, mul)
from .. import pelx, effects, automata
from ..pelx import implies, env_str, unsat, flat_parts
from ..cli import FullMain, PT
from .c09 import is_stdout_print, conj

PP = PT + "prettyPrint"


def lin_const(t, base):
    """t == base + c  ->  c"""
    d = sub(t, base)
    return d.v if is_int(d) else None


def extract_matcher(I, line, guard, k):
    """Recognise how the split position k is obtained from the line.
    Returns (kind, matcher, offset, guard_has_lbrace_exclusion, description)."""
    no_lbrace = Op("notin", Const("{"), line) in conj(guard)
    # regex idioms:  RE.match(line) / re.match(pat, line)  with  .end()
    for x in walk(k):
        if isinstance(x, Op) and x.op == "m:end" and len(x.args) == 1:
            m = x.args[0]
            pat = flags = None
            if isinstance(m, Op) and m.op == "m:match" and len(m.args) == 2 and m.args[1] == line and isinstance(m.args[0], Op) and m.args[0].op == "re.compile":
                pat = m.args[0].args[0]
                flags = m.args[0].args[1:]
            elif isinstance(m, Op) and m.op == "call:re.match" and len(m.args) >= 2 and m.args[1] == line:
                pat = m.args[0]
                flags = m.args[2:]
            if pat is None or not is_const(pat, str):
                continue
            if flags:
                raise AnalysisError("prettyPrint: regex flags are not modelled")
            if not (m in conj(guard) or Op("truthy", m) in conj(guard) or compare("isnot", m, NONE) in conj(guard)):
                raise AnalysisError("prettyPrint: the split is not guarded by the match having succeeded")
            off = lin_const(k, x)
            if off is None:
                raise AnalysisError("prettyPrint: split position is not match.end() + constant")
            return "regex", automata.regex_nfa(pat.v), off, no_lbrace, "regex %r, split at match end%+d" % (pat.v, off)
        if isinstance(x, Op) and x.op in ("m:search",):
            raise AnalysisError("prettyPrint: re.search idiom not modelled")
    # literal idioms:  lit in line  and  line.index(lit) / line.find(lit)
    for x in walk(k):
        if isinstance(x, Op) and x.op in ("m:index", "m:find") and len(x.args) == 2 and x.args[0] == line and is_const(x.args[1], str):
            lit = x.args[1].v
            if Op("in", Const(lit), line) not in conj(guard) and x.op == "m:index":
                raise AnalysisError("prettyPrint: index() is not guarded by the literal being present")
            off = lin_const(k, x)
            if off is None:
                raise AnalysisError("prettyPrint: split position is not index(lit) + constant")
            # split = start of first occurrence + off = end of first occurrence + (off - len(lit))
            return "first", automata.literal_first_nfa(lit), off - len(lit), no_lbrace, "first occurrence of %r, split at its start%+d" % (lit, off)
    raise AnalysisError("prettyPrint: the way the split position is computed is not recognised: %r" % (k,))


def check_prettyprint(rep, prog, ascii_only):
    I = Interpreter(prog)
    md = Sym("Mdata")
    r = I.call(PP, [md, Sym("desiredSpace", "int")])
    where = "prettyPrint"
    # line splitting / joining
    splits = [x for x in walk(r) if isinstance(x, Op) and x.op in ("m:split", "m:splitlines")]
    # (that the joined sequence is one output line per split line, in order, is established below)
    ok = isinstance(r, Op) and r.op == "m:join" and r.args[0] == Const("\n") and len(splits) == 1 and splits[0].args[0] == md
    how = splits[0].op if splits else None
    if ok and how == "m:split":
        ok = splits[0].args[1:] == (Const("\n"),)
    elif ok and how == "m:splitlines":
        # str.splitlines also breaks at \\r, \\v, \\f, \\x1c-\\x1e, \\x85, U+2028, U+2029: harmless only while every such
        # character is escaped by json.dumps (ensure_ascii) - control characters always are
        ok = ascii_only
    rep.check(ok, "C06.R2.whitespace-only", "the text is split at '\\n' only and re-joined with '\\n'", where, "Mdata.split('\\n') ... '\\n'.join(lines)",
              "the text is not split and re-joined at exactly the newline characters json.dumps wrote (%s%s): a line separator inside a string value "
              "would be turned into a raw newline" % (how, "" if ascii_only else ", with ensure_ascii=False"))
    lines = splits[0] if splits else None
    if lines is None:
        raise AnalysisError("prettyPrint: the text is not split into lines")

    def flat_conds(c):
        """conjuncts of a condition, with not(a or b) opened up"""
        if isinstance(c, Op) and c.op == "and":
            return [y for x in c.args for y in flat_conds(x)]
        if isinstance(c, Op) and c.op == "not" and isinstance(c.args[0], Op) and c.args[0].op == "or":
            return [y for x in c.args[0].args for y in flat_conds(not_(x))]
        return [c]

    def elem_index(t):
        """t is the i-th element of `lines` -> i (a term)"""
        if isinstance(t, Op) and t.op in ("getitem", "elem") and t.args[0] == lines:
            return t.args[1]
        if isinstance(t, Op) and t.op == "getitem" and t.args[1] == Const(1) and isinstance(t.args[0], Op) and t.args[0].op == "elem" and \
                t.args[0].args[0] == Op("enumerate", lines):
            return Op("getitem", t.args[0], Const(0))
        return None

    # the per-line transformation, in either style: (a) rewritten lines stored back into the list that is joined,
    # (b) a new sequence of lines built by mapping a function over the split lines
    stores = [e for e in I.events if e.kind in ("ext_setitem", "list_setitem")]
    rewrites = []           # (conditions, new text) ; every other path keeps the line
    node = None
    joined = r.args[1] if isinstance(r, Op) and r.op == "m:join" and len(r.args) == 2 else None
    if len(stores) == 1 and joined == lines:
        st = stores[0]
        node = st.node
        base, idx, val = st.data
        parts0 = flat_parts(val)
        line = parts0[0].args[0] if parts0 and isinstance(parts0[0], Op) and parts0[0].op == "getslice" else None
        li = elem_index(line) if line is not None else None
        same_slot = base == lines and li is not None and idx == li
        rewrites.append((flat_conds(st.guard), val))
    elif not stores and (isinstance(joined, Ref) or (isinstance(joined, Op) and joined.op == "listsummary")):
        if isinstance(joined, Ref):
            its = pelx.list_items(I, joined) or []
        else:
            its = [("rep", I.loops.get(a.args[0].v), a.args[1], a.args[2]) if isinstance(a, Op) and a.op == "rep" else ("v", a, TRUE)
                   for a in joined.args]
        if len(its) != 1 or its[0][0] != "rep" or its[0][3] != TRUE or its[0][1] is None or its[0][1].iter != lines or its[0][1].stops:
            raise AnalysisError("prettyPrint: the joined lines are not one output line per input line, in order")
        L = its[0][1]
        line = Op("elem", lines, L.idx)
        node = L.node
        same_slot = True

        def leaves(t, cs):
            if isinstance(t, Ite):
                leaves(t.a, cs + flat_conds(t.c))
                leaves(t.b, cs + flat_conds(not_(t.c)))
            elif t != line:
                rewrites.append((cs, t))
        from ..interp import _strip_undef
        leaves(_strip_undef(its[0][2]), [])
    else:
        raise AnalysisError("prettyPrint: per-line rewriting idiom not recognised (%d stores)" % len(stores))
    if len(rewrites) != 1:
        raise AnalysisError("prettyPrint: expected exactly one way a line is rewritten, found %d" % len(rewrites))
    guard_conds, val = rewrites[0]
    parts = flat_parts(val)
    if line is None and parts and isinstance(parts[0], Op) and parts[0].op == "getslice":
        line = parts[0].args[0]
    okw = line is not None and len(parts) == 3 and isinstance(parts[0], Op) and parts[0].op == "getslice" and parts[0].args[0] == line \
        and parts[0].args[1] == NONE \
        and isinstance(parts[2], Op) and parts[2].op == "getslice" and parts[2].args[0] == line and parts[2].args[2] == NONE \
        and parts[0].args[2] == parts[2].args[1]
    fill = parts[1] if len(parts) == 3 else None
    okfill = fill is not None and ((isinstance(fill, Op) and fill.op == "strmul" and Const(" ") in fill.args) or (is_const(fill, str) and set(fill.v) <= {" "}))
    if not okw and len(parts) == 2 and isinstance(parts[0], Op) and parts[0].op == "m:ljust" and len(parts[0].args) in (2, 3) and \
            (len(parts[0].args) == 2 or parts[0].args[2] == Const(" ")):
        # line[:k].ljust(width) + line[k:]   ( = the prefix, blanks up to the width, the rest )
        pre, rest = parts[0].args[0], parts[1]
        if line is None and isinstance(pre, Op) and pre.op == "getslice":
            line = pre.args[0]
        okw = line is not None and isinstance(pre, Op) and pre.op == "getslice" and pre.args[0] == line and pre.args[1] == NONE and \
            isinstance(rest, Op) and rest.op == "getslice" and rest.args[0] == line and rest.args[2] == NONE and pre.args[2] == rest.args[1]
        okfill = okw
        if okw:
            parts = [pre, Const(" "), rest]
    rep.check(okw and okfill and same_slot, "C06.R2.whitespace-only",
              "a rewritten line is line[:k] + blanks + line[k:] in its own position (nothing but spaces inserted, nothing removed)", where, node,
              "the alignment pass does more than insert blanks at one position of the same line: %r" % (val,), node=node)
    if not okw:
        return
    k = parts[0].args[2]
    try:
        kind, matcher, off, no_lbrace, desc = extract_matcher(I, line, and_(*guard_conds), k)
    except AnalysisError as ex_:
        # the split position is not found by a regular expression / find() (e.g. a hand-written scanner): no language
        # inclusion can be computed - the summary is run on a corpus of json.dumps(indent=4) texts with every kind of
        # awkward key and value instead and compared with the documented alignment
        bad = prettyprint_on_corpus(I, r, md)
        rep.note("split-point idiom not a regular expression (%s): decided on a corpus of %d documents" % (str(ex_)[:80], len(_corpus())))
        rep.check(bad is None, "C06.R3.split-point", "on a corpus of json.dumps(indent) texts (keys / values with '\":', escaped quotes, "
                  "backslashes, braces, control characters) blanks are inserted only right after the '\":' that closes a key", where, node,
                  bad or "", node=node)
        return
    rep.note("split-point idiom: " + desc + (", lines containing '{' are left alone" if no_lbrace else ""))
    w = automata.search_bad_split(matcher, kind, off, require_no_lbrace=no_lbrace, ascii_only=ascii_only)
    rep.check(w is None, "C06.R3.split-point", "for every line json.dumps(indent) can emit, blanks are inserted only right after the '\":' that closes a key "
              "(language inclusion over the line grammar; %s)" % desc, where, node,
              "witness line %r: blanks are inserted at column %s, which is not the position right after the key's closing '\":' - a key or a "
              "string value containing '\":' is altered and the printed JSON no longer parses back to the document" % (w[0] if w else None, w[1] if w else None),
              node=node)


def _corpus():
    import json as _json
    docs = [
        {"Private Header": {"Section Version": 1, "Created by": "bmc-logging", "Empty": "", "Nested": {"a": 1}}, "List": ["x", "y: z", '"q":']},
        {'a":b': 'v":w', 'back\\': 'slash\\', 'quote\"': 'va\"lue', "tab\tkey": "nl\nvalue", "brace{": "}close{", "colon:": ": :",
         'esc\\"': 1, "": "empty key", " ": " ", '":': '":', 'k\\\\"': None, "u\u00e9": "\u00e9\u2028"},
        {"long key %s" % ("x" * 40): 5, "n": -1.5e10, "t": True, "z": None, "arr": [1, [2, {"deep\":": "v"}]], "obj": {}},
        {"SRC": {"Hex Word 2": "00080055", 'Error "Details"': {"Message": 'say "hi": ok'}}, "User Data 1": {"Data": ["00000000     41424344  \\\"ABCD"]}},
        [], ["only", "strings\":"], "plain", {}, {"x": {}}, {"x": {"y": {"z": "w"}}},
    ]
    return [_json.dumps(d_, indent=4) for d_ in docs]


def prettyprint_on_corpus(I, r, md):
    from ..terms import evaluate, CannotEval
    import re as _re
    key = _re.compile(r' *"(?:[^"\\]|\\.)*":')

    def ref(text, desired):
        out = []
        for line in text.split("\n"):
            m = key.match(line)
            if m and "{" not in line:
                ind = m.end() - 2
                line = line[:m.end()] + (desired - ind) * " " + line[m.end():]
            out.append(line)
        return "\n".join(out)
    ds = Sym("desiredSpace", "int")
    for text in _corpus():
        for desired in (34, 29, 3):
            env = pelx.with_heap(I, {md: text, ds: desired, Op("len", md): len(text)})
            try:
                got = evaluate(r, env)
            except CannotEval as e_:
                raise AnalysisError("prettyPrint summary not evaluable: %s" % e_)
            except Exception as e_:
                got = "<raises %s: %s>" % (type(e_).__name__, e_)
            want = ref(text, desired)
            if got != want:
                gl, wl = str(got).split("\n"), want.split("\n")
                i_ = next((i for i in range(max(len(gl), len(wl))) if i >= len(gl) or i >= len(wl) or gl[i] != wl[i]), 0)
                return "the line %r is printed as %r, documented %r (desired column %d)" % (
                    text.split("\n")[i_] if i_ < len(text.split("\n")) else None, gl[i_] if i_ < len(gl) else None, wl[i_] if i_ < len(wl) else None, desired)
    return None


def dumps_sites(prog):
    out = []
    for cs in effects.call_sites(prog):
        if cs.name == "json.dumps" and cs.module.name == "pel.peltool.peltool":
            out.append(cs)
    return out


def check_call_sites(rep, prog):
    """everything the CLI prints/writes as JSON is json.dumps(..., indent=4) passed through prettyPrint only"""
    rule = "C06.R1.call-sites"
    sites = dumps_sites(prog)
    ascii_only = True
    for cs in sites:
        kws = {k.arg: k.value for k in cs.node.keywords}
        ea = kws.get("ensure_ascii")
        if ea is not None and not (isinstance(ea, ast.Constant) and ea.value is True):
            ascii_only = False
        ind = kws.get("indent")
        rep.check(ind is not None and isinstance(ind, ast.Constant) and isinstance(ind.value, int) and ind.value > 0 and
                  set(kws) <= {"indent", "ensure_ascii", "default"}, rule, "json.dumps at line %d uses a positive indent and no option that changes the line grammar" % cs.node.lineno,
                  cs.qual, cs.node, "json.dumps options %s change the text layout the alignment pass relies on" % sorted(kws), node=cs.node, file=cs.module.rel)
    rep.floor("json.dumps sites in peltool", len(sites), 1)
    fm = FullMain(prog, opaque=["parsePEL", "parsePELSummary", "generatePH", "generateUH", "considerPEL", "prettyPrint"])
    n = 0
    for e in fm.events:
        args = []
        if is_stdout_print(e):
            args = list(e.data[0])
        elif e.kind == "methcall" and e.data[1] in ("write", "writelines") and isinstance(e.data[0], Op) and e.data[0].op == "file":
            args = list(e.data[2])
        for a in args:
            a = fm.norm(a)
            js = [x for x in walk(a) if isinstance(x, Op) and x.op in ("json.dumps", "call:" + PP, "call:" + PT + "parsePEL", "call:" + PT + "parsePELSummary")]
            if not js:
                continue
            n += 1
            ok = False
            if isinstance(a, Op) and a.op == "call:" + PP and isinstance(a.args[0], Op) and a.args[0].op == "json.dumps":
                ok = True
            elif isinstance(a, Op) and a.op == "getitem" and a.args[1] == Const(1) and isinstance(a.args[0], Op) and a.args[0].op == "call:" + PT + "parsePEL":
                ok = True
            elif isinstance(a, Op) and a.op in ("concat", "fmt", "add"):
                # the text may be printed together with framing (a separator in front of it): exactly one part is the JSON
                # text in one of the forms above, no other part is derived from it (the framing itself is checked below)
                parts = []

                def flat_(t_):
                    if isinstance(t_, Op) and t_.op == "add":
                        for x_ in t_.args:
                            flat_(x_)
                    else:
                        parts.extend(flat_parts(t_))
                flat_(a)

                def is_json(p_):
                    p_ = p_.args[0] if isinstance(p_, Op) and p_.op == "fv" and p_.args[1:] == (Const(""), Const("")) else p_
                    return (isinstance(p_, Op) and p_.op == "call:" + PP and isinstance(p_.args[0], Op) and p_.args[0].op == "json.dumps") or \
                        (isinstance(p_, Op) and p_.op == "getitem" and p_.args[1] == Const(1) and isinstance(p_.args[0], Op) and
                         p_.args[0].op == "call:" + PT + "parsePEL")
                jparts = [p_ for p_ in parts if is_json(p_)]
                rest = [p_ for p_ in parts if not is_json(p_)]
                ok = len(jparts) == 1 and not any(isinstance(x, Op) and x.op in ("json.dumps", "call:" + PP, "call:" + PT + "parsePEL",
                                                                                  "call:" + PT + "parsePELSummary") for p_ in rest for x in walk(p_))
            rep.check(ok, rule, "%s:%s emits prettyPrint(json.dumps(...)) unmodified" % (e.func.split(".")[-1], getattr(e.node, "lineno", "?")), e.func, e.node,
                      "JSON text is post-processed / emitted without going through json.dumps+prettyPrint only: %r" % (a,), node=e.node)
    rep.floor("JSON emission sites", n, 7)
    # parsePEL's second result is prettyPrint(json.dumps(out, indent=4))
    I = Interpreter(prog, hooks={"opaque": {PT + "sectionFun", PT + "considerPEL", PT + "buildOutput", PP}})
    st = pelx.new_stream(I)
    cfg = I.new("pel.peltool.config.Config")
    r = I.call(PT + "parsePEL", [st, cfg, Const(False)])
    texts = set()

    def second(t):
        if isinstance(t, Ite):
            second(t.a), second(t.b)
        elif isinstance(t, Ref):
            it = pelx.list_items(I, t)
            if it and len(it) == 2:
                texts.add(it[1][1])
        elif isinstance(t, Const) and isinstance(t.v, tuple) and len(t.v) == 2:
            texts.add(Const(t.v[1]))
    second(r)
    good = [t for t in texts if isinstance(t, Op) and t.op == "call:" + PP and isinstance(t.args[0], Op) and t.args[0].op == "json.dumps"]
    others = [t for t in texts if t not in good and t != Const("")]
    rep.check(len(good) == 1 and not others, rule, "parsePEL returns prettyPrint(json.dumps(document, indent=4)) (or '' when nothing is selected)", "parsePEL",
              "return eid, prettyPrint(json.dumps(out, indent=4))", "the document text returned by parsePEL is %s" % [repr(t)[:100] for t in texts])
    # the count mode's fixed framing is valid JSON by construction
    cnt = [e for e in fm.events if is_stdout_print(e) and PT + "printPELCount" in e.stack]
    okc = len(cnt) == 1 and len(cnt[0].data[0]) == 1
    if okc:
        import json as _json
        p = flat_parts(fm.norm(cnt[0].data[0][0]))
        okc = len(p) == 3 and is_const(p[0], str) and is_const(p[2], str) and isinstance(p[1], Op) and \
            (p[1].op == "str" or (p[1].op == "fv" and p[1].args[1] in (Const(""), Const("d")) and p[1].args[2] == Const("")))
        if okc:
            # the literal frame around the decimal count must make a JSON object with exactly the documented member
            try:
                docs = [_json.loads(p[0].v + str(k) + p[2].v) for k in (0, 7, 123456)]
                okc = docs == [{"Number of PELs found": k} for k in (0, 7, 123456)]
            except ValueError:
                okc = False
    rep.check(okc, rule, "count mode prints a fixed JSON object around str(count)", PT + "printPELCount", "print(...)", "count output framing changed")
    return ascii_only


def check_file_output(rep, fm):
    """--json: the file holds exactly the document text - it is written to a file opened with truncation"""
    rule = "C06.R5.file-is-the-document"
    n = 0
    for e in fm.events:
        if e.kind != "methcall" or e.data[1] not in ("write", "writelines"):
            continue
        if not any(isinstance(x, Op) and x.op == "call:" + PT + "parsePEL" for a in e.data[2] for x in walk(a)):
            continue
        n += 1
        recv = fm.norm(e.data[0])
        ok, why = False, "written to %r" % (recv,)
        if isinstance(recv, Op) and recv.op == "file":
            mode = recv.args[1] if len(recv.args) > 1 else Const("r")
            ok = is_const(mode, str) and "w" in mode.v and "+" not in mode.v and "a" not in mode.v
            why = "opened with mode %r" % (mode,)
        elif any(isinstance(x, Op) and x.op == "call:os.open" for x in walk(recv)):
            o = [x for x in walk(recv) if isinstance(x, Op) and x.op == "call:os.open"][0]
            flags = o.args[1] if len(o.args) > 1 else None
            ok = flags is not None and any(repr(x) == "<os.O_TRUNC>" for x in walk(flags))
            why = "os.open flags %r lack O_TRUNC" % (flags,)
        rep.check(ok, rule, "%s: the document is written to a freshly truncated file" % e.func.split(".")[-1], e.func, e.node,
                  "the JSON text is written into a file that is not truncated first (%s): an existing longer file keeps its old "
                  "tail and no longer parses" % why, node=e.node)
        # whether a decoded document is written is decided by the run's options and the decode alone: a look at what the output
        # directory already holds, at time stamps or at the clock would keep a stale file in place of the document
        STATE = ("call:os.path.getmtime", "call:os.path.getctime", "call:os.path.getatime", "call:os.path.getsize", "call:os.stat",
                 "call:os.lstat", "call:os.path.exists", "call:os.path.lexists", "call:glob.", "call:time.", "call:os.access",
                 "call:filecmp.", "call:datetime.")
        old = sorted({x.op[5:] for x in walk(e.guard) if isinstance(x, Op) and x.op.startswith(STATE)})
        rep.check(not old, rule, "%s: whether the document is written does not depend on earlier output / time stamps" % e.func.split(".")[-1],
                  e.func, e.node, "the JSON file is written only when a file-system / clock query allows it (%s): on a repeated run "
                  "the file kept in place is not the document decoded from this PEL" % ", ".join(old), node=e.node)
    rep.floor("JSON file writes", n, 1)


def run(rep, prog, thorough):
    rep.explanation = (
        "prettyPrint is summarised: the rewrite must be line[:k] + blanks + line[k:] on lines obtained by split('\\n'); the "
        "guard and the split position k are extracted (regex via re._parser -> NFA, or first occurrence of a literal) and a "
        "product search over the regular language of json.dumps(indent) lines looks for a shortest line on which k is not the "
        "position right after a key's closing '\":' (empty search = language inclusion holds for all keys/values). Call sites: "
        "every JSON emission is prettyPrint(json.dumps(.., indent=N)) unmodified; json.dumps options that change the line grammar "
        "are rejected.")
    ascii_only = check_call_sites(rep, prog)
    check_prettyprint(rep, prog, ascii_only)
    from .c09 import check_all_separator, check_decoder_prints
    fm = FullMain(prog)
    check_all_separator(rep, fm, "C06.R1.call-sites")
    check_file_output(rep, fm)
    # the array / object printed by a directory mode is closed on every path only if no per-file failure can escape the
    # loop (rule shared with C09)
    from .c09 import check_barriers
    check_barriers(rep, fm)
    # nothing but the JSON documents reaches stdout: no decoder / library function prints there (rule shared with C09)
    check_decoder_prints(rep, prog, rule="C06.R4.stdout-only-json")
    # stdout is ONE document: the modes exclude each other and each ends the run (rule shared with C11)
    from .c11 import check_exclusive
    check_exclusive(rep, prog)
