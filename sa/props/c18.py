"""C18 - parser modules are chosen by creator/component, fed the right data, contained."""
import ast

from ..core import AnalysisError
from ..interp import Interpreter, Instance
from ..terms import (Const, Sym, Op, Ite, Ref, TRUE, FALSE, NONE, Undef, walk, and_, or_, not_, is_const, is_int, subst, compare,
                     evaluate, CannotEval)
from .. import pelx
from ..pelx import implies, env_str, unsat, DATA, list_items, dict_entries, final_entries
from .c01 import run_sectionfun, SECLEN, VER, SUB, COMP, CRE, DISPATCH
from .c02 import run_section
from .c04 import PU, HEXDUMP, P

SRCQ = "pel.peltool.src."


def ev_name(t, env):
    try:
        return evaluate(t, env)
    except CannotEval as e:
        raise AnalysisError("module name expression not evaluable: %s" % e)


def conj(g):
    return list(g.args) if isinstance(g, Op) and g.op == "and" else [g]


def neg_excs(g):
    return [c.args[0] for c in conj(g) if isinstance(c, Op) and c.op == "not" and isinstance(c.args[0], Sym) and c.args[0].kind == "exc"]


def check_ud_names_and_args(rep, prog):
    rule = "C18.R1.module-names"
    I = Interpreter(prog, hooks={"opaque": {HEXDUMP}})
    creator, comp, subt, ver = Sym("creator"), Sym("comp", "int"), Sym("sub", "int"), Sym("ver")
    pu = I.new(PU, [creator, comp, subt, ver, P])
    cfg = I.new("pel.peltool.config.Config")
    plugins = Sym("plugins", "exc")
    I.obj(cfg).attrs["allow_plugins"] = plugins
    I.method(pu, "parse", [cfg])
    imps = [e for e in I.events if e.kind == "import_module"]
    if not imps:
        raise AnalysisError("user-data renderer no longer imports parser modules via importlib.import_module")
    bad = None
    for e in imps:
        for c, k in (("B", 0x0100), ("O", 0xE500), ("O", 0x2C00), ("h", 0xABCD), ("M", 0x000F), ("O", 0x2000)):
            got = ev_name(e.data[0], {creator: c, comp: k})
            want = "udparsers.%s%04x.%s%04x" % (c.lower(), k, c.lower(), k)
            if got != want and bad is None:
                bad = "creator %r component 0x%04X -> %r, documented name is %r" % (c, k, got, want)
    rep.check(bad is None, rule, "user-data parser module = udparsers.<creator lower><component %04x>.<same>", "ParseUserData.parseCustom",
              "importlib.import_module(userDataParserMod)", bad)
    calls = [e for e in I.events if e.kind == "methcall" and e.data[1] == "parseUDToJson"]
    ok = bool(calls) and all(tuple(e.data[2]) == (subt, ver, P) and not e.data[3] for e in calls)
    rep.check(ok, "C18.R2.arguments", "parser is called as parseUDToJson(subtype, version, payload)", "ParseUserData.parseCustom",
              "cls.parseUDToJson(self.subType, self.version, mv)", "parser module receives %s instead of (subtype, version, exact payload)" % (
                  [repr(e.data[2]) for e in calls][:2],))
    # the module called is the one named (fresh import or cache entry under the same key)
    okm = True
    for e in calls:
        recv = e.data[0]
        if isinstance(recv, Undef) or recv == NONE:
            continue
        name = imps[0].data[0]
        okm = okm and (recv == Op("import_module", name) or (isinstance(recv, Op) and recv.op == "getitem" and recv.args[1] == name))
    rep.check(okm, rule, "the module that is called is the one imported / cached under that name", "ParseUserData.parseCustom", "cls = userDataParsers[...]",
              "parser module cache is not keyed by the module name")
    # disabled switch
    for e in imps + calls:
        oki, env = implies(e.guard, plugins)
        rep.check(oki, "C18.R5.disabled-switch", "%s at line %s only when plugins are allowed" % (e.kind, getattr(e.node, "lineno", "?")),
                  e.func, e.node, "with --skip-parser-plugins a user-data parser module is still %s" % ("imported" if e.kind == "import_module" else "run"),
                  node=e.node)
    return I


def check_src(rep, prog):
    rule = "C18.R1.module-names"
    I = Interpreter(prog)
    st = pelx.new_stream(I)
    creator = Sym("creator")
    src = I.new(SRCQ + "SRC", [st, Const(0x5053), SECLEN, VER, SUB, COMP, creator])
    I.obj(src).attrs["asciiString"] = Sym("ascii")
    # the kind of reference code the section carries is left open: the parser is chosen by the creator alone
    stype = Sym("srcType")
    if "srcType" in I.obj(src).attrs:
        I.obj(src).attrs["srcType"] = stype
    hw = I.mk_list([Sym("hw%d" % i) for i in range(2, 10)])
    r = I.method(src, "parse", [hw])
    imps = [e for e in I.events if e.kind == "import_module"]
    bad = None
    for e in imps:
        for c in ("O", "B", "h", "H", "T"):
            for ty, code in (("BC", "BC8A1234"), ("BD", "BD8D1234"), ("11", "11002000"), ("00", "00000000")):
                try:
                    live = bool(evaluate(e.guard, {creator: c, stype: ty, Sym("ascii"): code, Op("len", hw): 8}))
                except Exception:
                    live = True
                if not live:
                    continue
                got = ev_name(e.data[0], {creator: c, stype: ty, Sym("ascii"): code})
                want = "srcparsers.%ssrc.%ssrc" % (c.lower(), c.lower())
                if got != want and bad is None:
                    bad = "creator %r (reference code %s) -> %r, documented name is %r" % (c, code, got, want)
    rep.check(bool(imps) and bad is None, rule, "SRC parser module = srcparsers.<creator lower>src.<same>", "SRC.parse", "importlib.import_module(srcParserMod)", bad or "no import")
    calls = [e for e in I.events if e.kind == "methcall" and e.data[1] == "parseSRCToJson"]
    want_args = (Sym("ascii"),) + tuple(Sym("hw%d" % i) for i in range(2, 10))
    ok = bool(calls) and all(tuple(e.data[2]) == want_args for e in calls)
    rep.check(ok, "C18.R2.arguments", "SRC parser gets (reference code, hex words 2..9 in order)", "SRC.parse", "cls.parseSRCToJson(...)",
              "SRC parser module receives %s" % ([repr(e.data[2])[:200] for e in calls][:1],))
    # containment: import and call each covered by a handler; every failure returns ''
    handlers = {e.data[0]: e for e in I.events if e.kind == "handler"}
    broad_flags = {e.data[0] for e in I.events if e.kind == "handler" and e.data[1] in ("Exception", "BaseException", None)}
    # (the try statements whose BODY holds the call: code after a try whose handler returns carries the same "no exception so
    # far" condition but is not protected by it)
    from .c12 import tries_covering
    okc = all(any(x in handlers and handlers[x].data[1] in ("Exception", "BaseException", None) for x in tries_covering(I.events, e)) for e in calls) and bool(calls)
    # (a parser module can fail at import with anything - SyntaxError, OSError from a missing data file, ...: a handler for
    # ImportError alone does not contain it)
    oki = all(any(x in broad_flags for x in tries_covering(I.events, e)) for e in imps) and bool(imps)
    rep.check(okc and oki, "C18.R4.containment", "SRC parser import and call are each inside a try with a handler for Exception", "SRC.parse", "try: ... except",
              "a failing SRC parser module is not contained: import covered by a broad handler=%s, call covered by 'except Exception'=%s" % (oki, okc))
    hf = pelx.handler_failures(I.events)
    rep.check(not hf, "C18.R4.containment", "the handlers that contain an SRC parser failure cannot fail themselves", "SRC.parse",
              hf[0][0].node if hf else "except Exception", "the handler that contains a failing SRC parser can raise itself (%s): the whole PEL is "
              "lost instead of only its SRC details" % (repr(hf[0][0].data[0])[:100] if hf else ""), node=hf[0][0].node if hf else None)
    # a parser is remembered as missing only when its import failed - never because it raised while running
    from .c19 import missing_store_ok
    for st_ in [e for e in I.events if e.kind == "dict_store" and e.data[2] == NONE and
                getattr(I.heap.get(e.data[0].oid) if isinstance(e.data[0], Ref) else None, "shared", None)]:
        okm, why = missing_store_ok(I, st_)
        rep.check(okm, "C18.R4.containment", "SRC parser cache: 'missing' is recorded only by the handler of the import itself", "SRC.parse",
                  st_.node, why or "", node=st_.node)
    leaves = []

    def lv(t):
        if isinstance(t, Ite):
            lv(t.a), lv(t.b)
        else:
            leaves.append(t)
    lv(r)
    okr = all(isinstance(x, Undef) or x == NONE or x == Const("") or (isinstance(x, Op) and x.op == "m:parseSRCToJson") for x in leaves)
    rep.check(okr, "C18.R4.containment", "SRC.parse returns the parser's text or '' (no details)", "SRC.parse", "return ''",
              "SRC.parse can return something else on failure: %s" % [repr(x)[:80] for x in leaves])
    # hexwords argument construction and the '' / 'null' filter in toJSON
    I2, st2, out2, sec = run_section(prog, "PS", {"sid": 0x5053, "name": "Primary SRC"})
    # the parser gets THIS section's words: nothing it is handed may come from state shared between SRC objects
    from .c19 import shared_write_problems
    for e_, why in shared_write_problems(I2):
        rep.fail("C18.R2.arguments", e_.func, e_.node, why, node=e_.node)
    pc = [e for e in I2.events if e.kind == "call" and e.data[0] == SRCQ + "SRC.parse"]
    okh = len(pc) == 1
    if okh:
        lst = pc[0].data[1][1]
        items = list_items(I2, lst) or []
        reps = [i for i in items if i[0] == "rep"]
        okh = len(reps) == 2 or (len(reps) >= 1)
        one = reps[0] if len(reps) == 1 and len(items) == 1 else None
        if one is not None and isinstance(one[2], Ite) and one[2].b == Const("00000000") and isinstance(one[1].trip, Op) and \
                one[1].trip.op == "max" and len(one[1].trip.args) == 2 and Const(8) in one[1].trip.args and \
                one[2].c in [compare(o_, x_, y_) for n_ in one[1].trip.args if n_ != Const(8)
                             for o_, x_, y_ in (("lt", one[1].idx, n_), ("gt", n_, one[1].idx))]:
            # one pass that yields word i while i < count and '00000000' from there up to max(count, 8) (zip_longest padding)
            h = pelx.hex_render(one[2].a)
            okh = h is not None and h["min_digits"] == 8 and h["upper"] and h["prefix"] == ""
        elif reps:
            first = reps[0]
            h = pelx.hex_render(first[2])
            okh = okh and h is not None and h["min_digits"] == 8 and h["upper"] and h["prefix"] == ""
            pad = [i for i in reps[1:]]
            okh = okh and all(i[2] == Const("00000000") for i in pad)
    rep.check(okh, "C18.R2.arguments", "hex words are collected in ascending order as %08X strings and padded with '00000000' to 8", "SRC.toJSON",
              "hexwords.append(tmpWord)", "the word list handed to the SRC parser is not words 2..wordCount in order, padded with zero words")
    ents, _ = final_entries(I2, sec[1])
    det = ents.get("SRC Details")
    okf = False
    if det:
        g = conj(det[-1][2])
        val = [x for x in walk(det[-1][2]) if isinstance(x, Op) and x.op.startswith("call:" + SRCQ + "SRC.parse") or False]
        okf = any(isinstance(c, Op) and c.op == "ne" and Const("") in c.args for c in g) or any(Const("") == x for c in g for x in walk(c))
        okn = any(Const("null") == x for c in g for x in walk(c))
        okf = okf and okn
    rep.check(okf, "C18.R4.containment", "'' and 'null' from the SRC parser add no SRC Details", "SRC.toJSON", "if value != '' and value != 'null'",
              "an SRC parser that returns nothing still produces an 'SRC Details' entry / aborts json.loads")
    # disabled switch for SRC + callout parsers (all section kinds)
    plug = Sym("plugins", "exc")
    n = 0
    for sid in list(DISPATCH):
        I3 = Interpreter(prog)
        st3 = pelx.new_stream(I3)
        cfg3 = I3.new("pel.peltool.config.Config")
        I3.obj(cfg3).attrs["allow_plugins"] = plug
        o3 = I3.x_collections_OrderedDict([], {}, None)
        I3.call("pel.peltool.peltool.sectionFun", [st3, o3, Const(sid), SECLEN, VER, SUB, COMP, CRE, cfg3])
        for e in I3.events:
            if e.kind == "import_module" or (e.kind == "methcall" and e.data[1] in ("parseUDToJson", "parseSRCToJson", "getMaintProcDesc")):
                n += 1
                oki, env = implies(e.guard, plug)
                rep.check(oki, "C18.R5.disabled-switch", "section 0x%04X: %s at %s:%s only when plugins are allowed" % (
                    sid, e.kind if e.kind == "import_module" else e.data[1], e.func.split(".")[-1], getattr(e.node, "lineno", "?")), e.func, e.node,
                    "with --skip-parser-plugins a parser module is still %s" % ("imported" if e.kind == "import_module" else "run"), node=e.node)
    rep.floor("plugin import/call sites under the switch", n, 8)


def check_osrc(rep, prog):
    q = "srcparsers.osrc.osrc.parseSRCToJson"
    if not prog.has_func(q):
        raise AnalysisError("anchor %s not found" % q)
    I = Interpreter(prog)
    refcode = Sym("refcode")
    args = [refcode] + [Sym("word%d" % i) for i in range(2, 10)]
    I.call(q, args)
    imps = [e for e in I.events if e.kind == "import_module"]
    bad = None
    for e in imps:
        for rc, want in (("BD8D1234", "srcparsers.o1200.o1200"), ("BD20E504", "srcparsers.oe500.oe500"), ("110015F2", "srcparsers.o1500.o1500"),
                         ("BC8A3601", "srcparsers.bsrc.bsrc"), ("BC20E501", "srcparsers.bsrc.bsrc"), ("BD00AB00", "srcparsers.oab00.oab00")):
            got = ev_name(e.data[0], {refcode: rc})
            if got != want and bad is None:
                bad = "reference code %s -> module %r, documented: %r" % (rc, got, want)
    rep.check(bool(imps) and bad is None, "C18.R1.module-names", "BMC SRC sub-dispatch: srcparsers.o<refcode[4:6] lower>00, BC codes -> srcparsers.bsrc.bsrc",
              "osrc.parseSRCToJson", "importlib.import_module(module_name)", bad or "no import found")
    calls = [e for e in I.events if e.kind == "methcall" and e.data[1] == "parseSRCToJson"]
    ok = bool(calls) and all(tuple(e.data[2]) == tuple(args) for e in calls)
    rep.check(ok, "C18.R2.arguments", "osrc forwards its nine arguments unchanged and in order", "osrc.parseSRCToJson", "module.parseSRCToJson(...)",
              "the BMC wrapper does not forward (refcode, word2..word9) unchanged")
    # cache discipline: every cache store / probe is keyed by the module name that is imported
    name = imps[0].data[0] if imps else None
    stores = [e for e in I.events if e.kind == "dict_store" and getattr(I.heap.get(e.data[0].oid), "shared", None)]
    okk = bool(stores) and all(e.data[1] == name for e in stores)
    probes = [x for e in I.events for x in walk(e.guard) if isinstance(x, Op) and x.op in ("in", "notin") and isinstance(x.args[1], Ref)
              and getattr(I.heap.get(x.args[1].oid), "shared", None)]
    okk = okk and all(x.args[0] == name for x in probes)
    recv = [e.data[0] for e in calls if isinstance(e.data[0], Op) and e.data[0].op == "getitem"]
    okk = okk and all(r.args[1] == name for r in recv)
    rep.check(okk, "C18.R1.module-names", "the import cache is keyed by the resolved module name", "osrc.parseSRCToJson", "osrcParsers[module_name]",
              "the parser cache is keyed by something other than the resolved module name: a BC code and a BD code of the same component share "
              "one cache slot and get each other's parser")


def check_m2c00(rep, prog):
    q = "udparsers.m2c00.m2c00.parseUDToJson"
    if not prog.has_func(q):
        raise AnalysisError("anchor %s not found" % q)
    I = Interpreter(prog, hooks={"opaque": {HEXDUMP}})
    stp, ver = Sym("st", "int"), Sym("ver", "int")
    r = I.call(q, [stp, ver, DATA])
    rule = "C18.R3.io-drawer-routing"
    want = {72: ("io_drawer.hlog.parse_hlog_data", "header"), 73: ("io_drawer.ilog.parse_ilog_data", "header"),
            84: ("io_drawer.trace.parse_trace_data", "string")}
    files = {("header", 1): "mex_pte.h", ("header", 2): "nimitz_pte.h", ("string", 1): "mexStringFile", ("string", 2): "nimitzStringFile"}
    calls = [e for e in I.events if e.kind == "call" and e.data[0] in [w[0] for w in want.values()]]
    for code, (fn, kind) in want.items():
        cs = [e for e in calls if e.data[0] == fn]
        ok = len(cs) == 1
        detail = "called %d times" % len(cs)
        if ok:
            e = cs[0]
            g = e.guard
            ok1, env = implies(g, compare("eq", stp, Const(code)))
            okd = e.data[1][0] == DATA
            path = e.data[1][1]
            okp = True
            for v in (1, 2):
                # under version v the path must name the right file
                alts = []

                def leaves(t, cs_=()):
                    if isinstance(t, Ite):
                        leaves(t.a, cs_ + (t.c,)), leaves(t.b, cs_ + (not_(t.c),))
                    else:
                        alts.append((t, and_(*cs_)))
                only_v = and_(compare("eq", ver, Const(v)), *[compare("ne", ver, Const(o)) for o in (1, 2) if o != v])
                leaves(pelx.specialise(path, only_v))
                hit = [t for t, c in alts if not unsat(and_(c, compare("eq", ver, Const(v)), *[compare("ne", ver, Const(o)) for o in (1, 2) if o != v]))[0]
                       and not isinstance(t, Undef)]
                names = {x.v for t in hit for x in walk(t) if is_const(x, str) and not x.v.startswith("/")}
                if files[(kind, v)] not in names or any(files[k] in names for k in files if k != (kind, v)):
                    okp = False
            ok = ok1 and okd and okp
            detail = "selected iff subtype==%d: %s; gets the payload: %s; file for the drawer type of the version: %s" % (code, ok1, okd, okp)
        rep.check(ok, rule, "subtype %d -> %s(payload, %s file of the drawer type for the version)" % (code, fn.split(".")[-1], kind), q, fn,
                  "I/O drawer plugin routing is wrong for subtype %d (%s)" % (code, detail))
    # always a JSON object
    okj = isinstance(r, Op) and r.op == "json.dumps"
    if okj:
        alts = []

        def lv(t):
            if isinstance(t, Ite):
                lv(t.a), lv(t.b)
            else:
                alts.append(t)
        lv(r.args[0])
        okj = all(dict_entries(I, a) is not None for a in alts)
    rep.check(okj, rule, "every path returns json.dumps of a dict", q, "return json.dumps(output)", "the I/O drawer plugin can return something that is not a JSON object")
    hs = [e for e in I.events if e.kind == "handler" and e.func == q]
    rep.check(any(h.data[1] in ("Exception", "BaseException", None) for h in hs), "C18.R4.containment", "sub-parser call wrapped in except Exception",
              q, "except Exception", "a failing I/O drawer sub-parser is not contained inside the plugin")
    un = [e for e in I.events if e.kind == "opaquecall" and e.data[0] == HEXDUMP and e.func.endswith("_parse_unsupported")]
    rep.check(bool(un) and all(implies(e.guard, and_(*[compare("ne", stp, Const(c)) for c in want]))[0] for e in un), rule,
              "other subtypes are hex-dumped", q, "_parse_unsupported", "unknown subtypes are not hex-dumped")


def check_no_static_plugin_imports(rep, prog):
    """core modules must not import parser packages at module level (they would be loaded even with -P)"""
    n = 0
    for m in prog.modules.values():
        if not m.name.startswith("pel."):
            continue
        for node in ast.walk(m.tree):
            mods = []
            if isinstance(node, ast.Import):
                mods = [a.name for a in node.names]
            elif isinstance(node, ast.ImportFrom) and node.module:
                mods = [node.module]
            for x in mods:
                n += 1
                if x.split(".")[0] in ("udparsers", "srcparsers", "calloutparsers"):
                    rep.fail("C18.R5.disabled-switch", m.name, node, "core module imports parser package %s statically: it is loaded even with "
                             "--skip-parser-plugins" % x, node=node, file=m.rel)
    rep.count("import statements in core modules", n)


def check_P_option(rep, prog):
    from ..cli import Cli
    cli = Cli(prog)
    dest = cli.options.get("-P")
    sts = [(a, v, g, e) for a, v, g, e in cli.config_stores() if a == "allow_plugins"]
    ok = dest is not None and cli.options.get("--skip-parser-plugins") == dest and len(sts) == 1 and sts[0][1] == Const(False) and sts[0][2] == cli.arg(dest)
    if not ok and dest is not None and cli.options.get("--skip-parser-plugins") == dest and sts:
        # any other way of writing it: the value the option object ends up with is 'not <the switch>'
        I0 = Interpreter(prog)
        val = I0.obj(I0.new("pel.peltool.config.Config")).attrs.get("allow_plugins", Const(True))
        for a, v, g, e in sts:
            val = pelx.ite(g, v, val)
        sw = cli.arg(dest)
        tv = I0.truth(val)
        ok = implies(and_(tv, sw), FALSE)[0] and implies(not_(sw), tv)[0]
    rep.check(ok, "C18.R5.disabled-switch", "-P/--skip-parser-plugins sets Config.allow_plugins = False", "main", "config.allow_plugins = False",
              "-P does not switch Config.allow_plugins off")
    I = cli.I
    cfgcls = I.new("pel.peltool.config.Config")
    rep.check(I.obj(cfgcls).attrs.get("allow_plugins") == Const(True), "C18.R5.disabled-switch", "plugins are allowed by default", "Config.__init__",
              "self.allow_plugins = True", "default of allow_plugins changed")


def run(rep, prog, thorough):
    rep.explanation = (
        "Module-name expressions are extracted from the importlib.import_module sites and evaluated for representative "
        "creator/component/reference-code values against the documented templates; plugin call argument tuples are compared "
        "positionally; every dynamic import / plugin call (all section kinds) must have a path condition implying "
        "Config.allow_plugins; containment = enclosing try with a broad handler; I/O-drawer routing table, file selection per "
        "drawer version and dict-only return shape; cache keys equal the imported module name.")
    check_ud_names_and_args(rep, prog)
    check_src(rep, prog)
    check_osrc(rep, prog)
    check_m2c00(rep, prog)
    check_no_static_plugin_imports(rep, prog)
    check_P_option(rep, prog)
    from ..effects import check_payload_is_memoryview
    check_payload_is_memoryview(rep, prog, "C18.R2.arguments")
    # containment of a failing user-data plug-in (rules shared with C04)
    from .c04 import check_parse, check_sections
    check_parse(rep, prog)
    # which module a section goes to is decided by the section's OWN creator / component / sub-type / version (an Extended
    # User Data section carries its creator in its first byte) and it receives exactly the section's payload
    check_sections(rep, prog)
