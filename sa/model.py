"""E1 program model: every python module that setup.py ships from /repo/modules
(find_packages("modules")) plus peltool-wrapper, parsed with ast."""
import ast
import os

from .core import REPO, AnalysisError


class FuncInfo:
    def __init__(self, module, node, cls=None, parent=None):
        self.module = module
        self.node = node
        self.cls = cls
        self.parent = parent
        self.name = node.name
        self.deco = set()
        for d in node.decorator_list:
            dn = d.func if isinstance(d, ast.Call) else d
            while isinstance(dn, ast.Attribute):
                self.deco.add(dn.attr)
                dn = dn.value
            if isinstance(dn, ast.Name):
                self.deco.add(dn.id)
        if cls is not None:
            self.qual = "%s.%s.%s" % (module.name, cls.name, node.name)
            self.short = "%s.%s" % (cls.name, node.name)
        elif parent is not None:
            self.qual = "%s.<locals>.%s" % (parent.qual, node.name)
            self.short = node.name
        else:
            self.qual = "%s.%s" % (module.name, node.name)
            self.short = node.name

    @property
    def params(self):
        a = self.node.args
        return [x.arg for x in a.posonlyargs + a.args]

    def __repr__(self):
        return "<func %s>" % self.qual


class ClassInfo:
    def __init__(self, module, node):
        self.module = module
        self.node = node
        self.name = node.name
        self.qual = "%s.%s" % (module.name, node.name)
        self.methods = {}
        self.bases = [ast.unparse(b) for b in node.bases]
        for st in node.body:
            if isinstance(st, (ast.FunctionDef, ast.AsyncFunctionDef)):
                self.methods[st.name] = FuncInfo(module, st, cls=self)

    @property
    def is_enum(self):
        return any(b.split(".")[-1] in ("Enum", "IntEnum", "Flag", "IntFlag") for b in self.bases) or getattr(self, "_enum_derived", False)

    def __repr__(self):
        return "<class %s>" % self.qual


class Module:
    def __init__(self, name, path, rel):
        self.name = name
        self.path = path
        self.rel = rel
        with open(path, encoding="utf-8") as f:
            self.source = f.read()
        try:
            import warnings
            with warnings.catch_warnings():
                warnings.simplefilter("ignore")
                self.tree = ast.parse(self.source, filename=path)
        except SyntaxError as e:
            raise AnalysisError("cannot parse %s: %s" % (rel, e))
        self.functions = {}
        self.classes = {}
        for st in self.tree.body:
            if isinstance(st, (ast.FunctionDef, ast.AsyncFunctionDef)):
                self.functions[st.name] = FuncInfo(self, st)
            elif isinstance(st, ast.ClassDef):
                self.classes[st.name] = ClassInfo(self, st)
        for node in ast.walk(self.tree):
            for ch in ast.iter_child_nodes(node):
                ch._parent = node

    def all_functions(self):
        for f in self.functions.values():
            yield f
        for c in self.classes.values():
            for m in c.methods.values():
                yield m

    def __repr__(self):
        return "<module %s>" % self.name


class Program:
    def __init__(self, repo=None):
        self.repo = repo or REPO
        self.modules = {}
        root = os.path.join(self.repo, "modules")
        if not os.path.isdir(root):
            raise AnalysisError("no modules/ directory under %s" % self.repo)
        for dp, dns, fns in os.walk(root):
            dns[:] = sorted(d for d in dns if not d.startswith(".") and d != "__pycache__"
                            and not d.endswith(".egg-info"))
            for fn in sorted(fns):
                if not fn.endswith(".py"):
                    continue
                path = os.path.join(dp, fn)
                rel = os.path.relpath(path, self.repo)
                parts = os.path.relpath(path, root)[:-3].split(os.sep)
                if parts[-1] == "__init__":
                    parts = parts[:-1]
                name = ".".join(parts)
                self.modules[name] = Module(name, path, rel)
        # an enumeration may derive from a repository base class that itself derives from Enum (class BitFlag(Enum): methods)
        allc = [c for m in self.modules.values() for c in m.classes.values()]
        for _ in range(3):
            enum_names = {c.name for c in allc if c.is_enum}
            for c in allc:
                if not c.is_enum and any(b.split(".")[-1] in enum_names for b in c.bases):
                    c._enum_derived = True

    # ------------------------------------------------------------------
    def module(self, name):
        m = self.modules.get(name)
        if m is None:
            raise AnalysisError("anchor module %s not found" % name)
        return m

    def func(self, qual):
        """'pel.peltool.peltool.parsePEL' or 'pel.peltool.src.SRC.toJSON'"""
        parts = qual.split(".")
        for i in range(len(parts) - 1, 0, -1):
            mn = ".".join(parts[:i])
            if mn in self.modules:
                m = self.modules[mn]
                rest = parts[i:]
                if len(rest) == 1 and rest[0] in m.functions:
                    return m.functions[rest[0]]
                if len(rest) == 2 and rest[0] in m.classes and rest[1] in m.classes[rest[0]].methods:
                    return m.classes[rest[0]].methods[rest[1]]
        raise AnalysisError("anchor function %s not found" % qual)

    def has_func(self, qual):
        try:
            self.func(qual)
            return True
        except AnalysisError:
            return False

    def cls(self, qual):
        mn, _, cn = qual.rpartition(".")
        m = self.modules.get(mn)
        if m is None or cn not in m.classes:
            raise AnalysisError("anchor class %s not found" % qual)
        return m.classes[cn]

    def all_functions(self):
        for m in self.modules.values():
            for f in m.all_functions():
                yield f

    def is_repo_module(self, name):
        return name in self.modules or any(k.startswith(name + ".") for k in self.modules)


def enclosing_function(node):
    n = getattr(node, "_parent", None)
    while n is not None and not isinstance(n, (ast.FunctionDef, ast.AsyncFunctionDef)):
        n = getattr(n, "_parent", None)
    return n


def parents(node):
    n = getattr(node, "_parent", None)
    while n is not None:
        yield n
        n = getattr(n, "_parent", None)
