"""Helpers shared by the interpreter-based checks: run decoders symbolically,
recognise stream fields in terms, compare summaries with spec expressions."""
import random

from .core import AnalysisError
from .interp import Interpreter, DictObj, ListObj, Instance
from .terms import (V, Const, Sym, Op, Ite, Lin, Ref, Undef, TRUE, FALSE, NONE, is_int, is_const,
                    add, sub, mul, binop, compare, ite, and_, or_, not_, walk, evaluate, CannotEval,
                    subst, fmt, fv)

DATA = Sym("DATA")


def F(lo, w):
    """raw bytes [lo, lo+w) of the analysed stream"""
    lo = lo if isinstance(lo, V) else Const(lo)
    w = w if isinstance(w, V) else Const(w)
    return Op("getslice", DATA, lo, add(lo, w))


def IntF(lo, w, order="big", signed=False):
    return Op("int_from_bytes", F(lo, w), Const(order), Const(signed))


def new_stream(I, data=DATA):
    return I.new("pel.datastream.DataStream", [data],
                 {"byte_order": Const("big"), "is_signed": Const(False)})


def stream_index(I, st):
    return I.simp(I.obj(st).attrs["index"])


def as_slice(t):
    """getslice(DATA, lo, hi) -> (lo, hi) else None"""
    if isinstance(t, Op) and t.op == "getslice" and len(t.args) == 3 and t.args[0] == DATA:
        return t.args[1], t.args[2]
    return None


def as_int_field(t):
    """int_from_bytes(getslice(DATA, lo, hi), order, signed) -> (lo, hi, order, signed)"""
    if isinstance(t, Op) and t.op == "int_from_bytes":
        s = as_slice(t.args[0])
        if s is not None and is_const(t.args[1]) and is_const(t.args[2]):
            return s[0], s[1], t.args[1].v, t.args[2].v
    return None


def fields_of(t):
    """all data slices (lo, hi) a term depends on"""
    out = []
    for x in walk(t):
        s = as_slice(x)
        if s is not None and s not in out:
            out.append(s)
    return out


def field_str(s):
    lo, hi = s
    if is_int(lo) and is_int(hi):
        return "bytes[%d:%d]" % (lo.v, hi.v)
    return "bytes[%r:%r]" % (lo, hi)


def heap_deps(I, t, seen=None, depth=0):
    """fields reachable through heap references too (lists/dicts stored in values)"""
    out = []
    seen = seen if seen is not None else set()
    for x in walk(t):
        s = as_slice(x)
        if s is not None and s not in out:
            out.append(s)
        if isinstance(x, Ref) and x.oid not in seen and depth < 6:
            seen.add(x.oid)
            o = I.heap.get(x.oid)
            sub_terms = []
            if isinstance(o, ListObj):
                for it in o.items:
                    sub_terms.append(it[1] if it[0] == "v" else it[2])
                    sub_terms.append(it[2] if it[0] == "v" else it[3])
            elif isinstance(o, DictObj):
                for k, v, g, lc in o.entries:
                    sub_terms += [k, v, g]
            elif isinstance(o, Instance):
                sub_terms += list(o.attrs.values())
            for st in sub_terms:
                if isinstance(st, V):
                    for s2 in heap_deps(I, st, seen, depth + 1):
                        if s2 not in out:
                            out.append(s2)
    return out


# ---------------------------------------------------------------------------
# equivalence of two integer/boolean summaries over the domain of their leaves

def opaque_leaves(t):
    """maximal sub-terms that evaluate() cannot interpret: they become variables"""
    out = []
    seen = set()

    def rec(x):
        if id(x) in seen:
            return
        seen.add(id(x))
        if isinstance(x, (Const,)):
            return
        if isinstance(x, Lin):
            for c in x.children():
                rec(c)
            return
        if isinstance(x, Ite):
            rec(x.c), rec(x.a), rec(x.b)
            return
        if isinstance(x, Op) and (x.op in EVAL_OPS or built_sequence(x)):
            for a in x.args:
                rec(a)
            return
        if x not in out:
            out.append(x)
    rec(t)
    return out


def built_sequence(x):
    """int.to_bytes(...) and list()/tuple()/indexing of it: evaluate() computes these from their integer argument"""
    if not isinstance(x, Op):
        return False
    if x.op == "m:to_bytes":
        return True
    if x.op in ("list", "tuple_of") and len(x.args) == 1:
        return built_sequence(x.args[0])
    if x.op == "getitem" and len(x.args) == 2:
        return built_sequence(x.args[0])
    return False


EVAL_OPS = {"and", "or", "not", "floordiv", "mod", "lshift", "rshift", "bitand", "bitor", "bitxor",
            "pow", "eq", "ne", "lt", "le", "gt", "ge", "add", "truthy"}


def leaf_width_bits(leaf):
    f = as_int_field(leaf)
    if f is not None:
        lo, hi = f[0], f[1]
        w = sub(hi, lo)
        if is_int(w):
            return 8 * w.v
    return 16


def equivalent(a, b, max_exhaustive=1 << 16, samples=400, seed=20240229, domain=None):
    """Decide a == b for all valuations of their opaque leaves: exhaustively when
    the joint domain is small, otherwise on structured + pseudo-random samples
    (all single bits, boundaries).  Returns (bool, counterexample or None, n)."""
    leaves = []
    for t in (a, b):
        for l in opaque_leaves(t):
            if l not in leaves:
                leaves.append(l)
    bits = [min(leaf_width_bits(l), 64) if domain is None or l not in domain else None for l in leaves]
    doms = []
    total = 1
    for l, bw in zip(leaves, bits):
        if domain is not None and l in domain:
            d = list(domain[l])
        elif bw <= 8:
            d = list(range(1 << bw))
        else:
            d = None
        doms.append(d)
        total = total * (len(d) if d is not None else (1 << 62))
    rnd = random.Random(seed)
    n = 0

    def vals(i):
        d = doms[i]
        if d is not None:
            return d
        bw = bits[i]
        s = {0, 1, 2, 3, (1 << bw) - 1, (1 << bw) - 2, 1 << (bw - 1)}
        for k in range(bw):
            s.add(1 << k)
            s.add(((1 << bw) - 1) ^ (1 << k))
        for k in range(0, bw, 8):
            s.add(0xFF << k)
            s.add(0x12 << k)
        while len(s) < 160:
            s.add(rnd.getrandbits(bw))
        return sorted(s)

    def check(env):
        nonlocal n
        n += 1
        try:
            va = evaluate(a, env)
            vb = evaluate(b, env)
        except CannotEval as e:
            raise AnalysisError("summary not evaluable: %s" % e)
        except (ZeroDivisionError, ValueError, TypeError, OverflowError):
            return True
        if isinstance(va, bool) or isinstance(vb, bool):
            return bool(va) == bool(vb)
        return va == vb

    if total <= max_exhaustive:
        import itertools
        for combo in itertools.product(*doms):
            env = dict(zip(leaves, combo))
            if not check(env):
                return False, env, n
        return True, None, n
    pools = [vals(i) for i in range(len(leaves))]
    # one-at-a-time sweeps around a few base points + random joint samples
    bases = [[p[0] for p in pools], [p[-1] for p in pools], [rnd.choice(p) for p in pools]]
    for base in bases:
        for i, p in enumerate(pools):
            for v in p:
                envl = list(base)
                envl[i] = v
                env = dict(zip(leaves, envl))
                if not check(env):
                    return False, env, n
    for _ in range(samples):
        env = dict(zip(leaves, [rnd.choice(p) for p in pools]))
        if not check(env):
            return False, env, n
    return True, None, n


def env_str(env):
    if not env:
        return ""
    items = list(env.items())[:8]
    return ", ".join("%s=%s" % (repr(k)[:60], hex(v) if isinstance(v, int) and not isinstance(v, bool) else v) for k, v in items)


# ---------------------------------------------------------------------------
# rendering recognisers (E5)

def strip_str(t):
    """str(x) of an already-string term is x"""
    while isinstance(t, Op) and t.op == "str" and len(t.args) == 1 and isinstance(t.args[0], Op) \
            and t.args[0].op in ("fmt", "concat", "m:hex", "m:strip", "m:decode"):
        t = t.args[0]
    return t


def flat_parts(t):
    """flatten fmt/concat into a list of parts"""
    t = strip_str(t)
    if isinstance(t, Op) and t.op in ("fmt", "concat") or (isinstance(t, Op) and t.op == "add" and any(
            isinstance(a, Op) and a.op in ("concat", "strmul", "getslice", "add", "fmt") for a in t.args)):
        out = []
        for a in t.args:
            out.extend(flat_parts(a))
        # merge literals
        merged = []
        for p in out:
            if merged and is_const(p, str) and is_const(merged[-1], str):
                merged[-1] = Const(merged[-1].v + p.v)
            else:
                merged.append(p)
        return merged
    return [t]


def parse_spec(spec):
    """python format spec -> dict(fill, align, width, type, alt) (subset)"""
    import re
    m = re.fullmatch(r"(?:(?P<fill>.)?(?P<align>[<>=^]))?(?P<sign>[-+ ])?(?P<alt>#)?(?P<zero>0)?"
                     r"(?P<width>\d+)?(?P<grp>[_,])?(?:\.(?P<prec>\d+))?(?P<type>[a-zA-Z%])?", spec)
    if not m:
        return None
    d = m.groupdict()
    return {"zero": bool(d["zero"]) or (d["fill"] == "0" and d["align"] in ("=", ">")),
            "width": int(d["width"]) if d["width"] else 0, "type": d["type"] or "",
            "alt": bool(d["alt"]), "align": d["align"], "fill": d["fill"], "sign": d["sign"]}


def hex_render(t):
    """recognise  prefix + hex(value)  ->  dict(prefix, value, digits_min, zero, upper) or None"""
    parts = flat_parts(t)
    prefix = ""
    if parts and is_const(parts[0], str):
        prefix = parts[0].v
        parts = parts[1:]
    if len(parts) != 1:
        return None
    p = parts[0]
    if isinstance(p, Op) and p.op == "fv" and is_const(p.args[1], str):
        sp = parse_spec(p.args[1].v)
        if sp is None or sp["type"] not in ("X", "x"):
            return None
        if sp["alt"]:
            prefix += "0x" if sp["type"] == "x" else "0X"
        return {"prefix": prefix, "value": p.args[0], "min_digits": sp["width"] if sp["zero"] else (1 if not sp["width"] else None),
                "upper": sp["type"] == "X", "kind": "fmt", "pad_space": bool(sp["width"]) and not sp["zero"]}
    if isinstance(p, Op) and p.op == "m:hex" and len(p.args) == 1:
        s = as_slice(p.args[0])
        if s is not None:
            w = sub(s[1], s[0])
            return {"prefix": prefix, "value": p.args[0], "min_digits": 2 * w.v if is_int(w) else None,
                    "upper": False, "kind": "byteshex"}
    if isinstance(p, Op) and p.op == "hex" and len(p.args) == 1:
        return {"prefix": prefix + "0x", "value": p.args[0], "min_digits": 1, "upper": False, "kind": "hex()"}
    return None


def dec_render(t):
    """str(int) / '%d' / '{}' of an int term -> value term or None"""
    t2 = t
    if isinstance(t2, Op) and t2.op == "str" and len(t2.args) == 1:
        return t2.args[0]
    parts = flat_parts(t2)
    if len(parts) == 1 and isinstance(parts[0], Op) and parts[0].op == "fv":
        sp = parse_spec(parts[0].args[1].v) if is_const(parts[0].args[1], str) else None
        if sp is not None and sp["type"] in ("d", "") and not sp["width"]:
            return parts[0].args[0]
    return None


def text_render(t):
    """(strip|rstrip)(decode(slice), chars)... -> dict(slice, strips=[(kind, chars)], decoded=True)"""
    strips = []
    cur = t
    while isinstance(cur, Op) and cur.op in ("m:strip", "m:rstrip", "m:lstrip"):
        chars = cur.args[1].v if len(cur.args) > 1 and is_const(cur.args[1], str) else None
        if len(cur.args) > 1 and chars is None:
            return None
        strips.append((cur.op[2:], chars))
        cur = cur.args[0]
    if isinstance(cur, Op) and cur.op in ("m:decode", "strdecode") and cur.args:
        s = as_slice(cur.args[0])
        if s is not None:
            return {"slice": s, "strips": strips, "extra": cur.args[1:]}
        # rstrip on bytes before decoding
        inner = cur.args[0]
        bstrips = []
        while isinstance(inner, Op) and inner.op in ("m:strip", "m:rstrip", "m:lstrip"):
            ch = inner.args[1].v if len(inner.args) > 1 and is_const(inner.args[1], bytes) else None
            if len(inner.args) > 1 and ch is None:
                return None
            bstrips.append((inner.op[2:], ch.decode("latin1") if ch is not None else None))
            inner = inner.args[0]
        if isinstance(inner, Op) and inner.op == "m:tobytes":
            inner = inner.args[0]
        s = as_slice(inner)
        if s is not None:
            return {"slice": s, "strips": strips + bstrips, "extra": cur.args[1:]}
    return None


def strips_nul(strips, trailing_only_ok=True):
    """does the strip chain remove NUL padding at the end of the field?"""
    for kind, chars in strips:
        if kind in ("strip", "rstrip") and chars is not None and "\0" in chars:
            return True
    return False


def table_of(I, ref):
    """constant python dict of a heap DictObj (keys/values must be constants)"""
    if not isinstance(ref, Ref):
        return None
    o = I.heap.get(ref.oid)
    if not isinstance(o, DictObj):
        return None
    out = {}
    for k, v, g, lc in o.entries:
        if not isinstance(k, Const) or g != TRUE or lc:
            return None
        if isinstance(v, Const):
            out[k.v] = v.v
        else:
            out[k.v] = v
    return out


def table_lookup(I, t):
    """dictget(T, key, default) | ite(in(key,T), getitem(T,key), default) ->
    dict(table=python dict, key=term, default=term)"""
    if isinstance(t, Op) and t.op == "dictget":
        tb = table_of(I, t.args[0])
        if tb is not None:
            return {"table": tb, "key": t.args[1], "default": t.args[2], "ref": t.args[0]}
    if isinstance(t, Ite):
        c = t.c
        a, b = t.a, t.b
        if isinstance(c, Op) and c.op == "notin":
            c = Op("in", *c.args)
            a, b = b, a
        if isinstance(c, Op) and c.op == "in" and isinstance(a, Op) and a.op == "getitem" \
                and a.args[0] == c.args[1] and a.args[1] == c.args[0]:
            tb = table_of(I, c.args[1])
            if tb is not None:
                return {"table": tb, "key": c.args[0], "default": b, "ref": c.args[1]}
    return None


def list_items(I, ref):
    o = I.heap.get(ref.oid) if isinstance(ref, Ref) else None
    if isinstance(o, ListObj):
        return o.items
    return None


def merged_items(I, v, cond=TRUE):
    """items of a list-valued term that may be a conditional over several list objects: every item's guard is
    conjoined with the condition of its alternative.  None when some alternative is not a summarised list."""
    if isinstance(v, Ite):
        a = merged_items(I, v.a, and_(cond, v.c))
        b = merged_items(I, v.b, and_(cond, not_(v.c)))
        if a is None or b is None:
            return None
        return a + b
    if isinstance(v, Const) and isinstance(v.v, (tuple, list)):
        return [("v", Const(x), cond) for x in v.v]
    its = list_items(I, v)
    if its is None:
        return None
    out = []
    for it in its:
        if it[0] == "v":
            out.append(("v", it[1], and_(cond, it[2])))
        else:
            out.append(("rep", it[1], it[2], and_(cond, it[3])))
    return out


def len_truth_norm(t):
    """len(x) > 0 / != 0 / >= 1 is the truth value of x (and == 0 / < 1 / <= 0 its negation), for any sized x"""
    m = {}
    for x in walk(t):
        if isinstance(x, Op) and x.op in ("gt", "ne", "ge", "eq", "le", "lt") and len(x.args) == 2 and isinstance(x.args[0], Op) \
                and x.args[0].op == "len" and is_int(x.args[1]):
            inner, c = x.args[0].args[0], x.args[1].v
            if (x.op, c) in (("gt", 0), ("ne", 0), ("ge", 1)):
                m[x] = inner if not isinstance(inner, (Ref, Const)) else Op("truthy", inner)
            elif (x.op, c) in (("eq", 0), ("le", 0), ("lt", 1)):
                m[x] = not_(inner if not isinstance(inner, (Ref, Const)) else Op("truthy", inner))
        # x != '' / x == '' (x is a text there): the truth value of x as well
        if isinstance(x, Op) and x.op in ("ne", "eq") and len(x.args) == 2:
            for p_, q_ in ((x.args[0], x.args[1]), (x.args[1], x.args[0])):
                if isinstance(q_, Const) and q_.v in ("", b"") and isinstance(q_.v, (str, bytes)) and not isinstance(p_, (Ref, Const)):
                    m[x] = p_ if x.op == "ne" else not_(p_)
    t = subst(t, m) if m else t

    def cond(c):
        """a bare len(x) in condition position"""
        if isinstance(c, Op) and c.op in ("and", "or"):
            return (and_ if c.op == "and" else or_)(*[cond(a) for a in c.args])
        if isinstance(c, Op) and c.op == "not":
            return not_(cond(c.args[0]))
        if isinstance(c, Op) and c.op == "len" and not isinstance(c.args[0], (Ref, Const)):
            return c.args[0]
        return c
    return cond(t)


def stops_always(L):
    """the loop is left in its first iteration on every path (break / return conditions are jointly exhaustive)"""
    if any(b == TRUE for b in L.stops):
        return True
    if not L.stops:
        return False
    return unsat(and_(*[not_(b) for b in L.stops]))[0]


def is_temp(I, ref):
    """the anonymous list/dict a comprehension or generator expression builds"""
    o = I.heap.get(ref.oid) if isinstance(ref, Ref) else None
    return getattr(o, "comp", None) is not None


def specialise(t, cond, _memo=None):
    """t with every conditional (at any depth) whose condition is decided by `cond` replaced by the live alternative"""
    from .terms import rebuild
    memo = {} if _memo is None else _memo
    k = id(t)
    if k in memo:
        return memo[k]
    r = t
    if isinstance(t, Ite):
        if unsat(and_(cond, t.c))[0]:
            r = specialise(t.b, cond, memo)
        elif unsat(and_(cond, not_(t.c)))[0]:
            r = specialise(t.a, cond, memo)
        else:
            r = ite(t.c, specialise(t.a, cond, memo), specialise(t.b, cond, memo))
    elif isinstance(t, Op) and t.args:
        args = tuple(specialise(a, cond, memo) for a in t.args)
        if any(x is not y for x, y in zip(args, t.args)):
            r = rebuild(t.op, args)
    memo[k] = r
    return r


def handler_failures(events, excs=None):
    """raise / exit events that happen inside the handler of a try (optionally: of the given exception flags only):
    a handler that is meant to contain a failure and fails itself (or re-raises) contains nothing"""
    starts = {}
    for e in events:
        if e.kind == "handler" and e.data[0] not in starts:
            starts[e.data[0]] = e
    out = []
    for e in events:
        if e.kind not in ("raise", "exit"):
            continue
        cj = set(e.guard.args) if isinstance(e.guard, Op) and e.guard.op == "and" else {e.guard}
        for exc, h in starts.items():
            if (excs is None or exc in excs) and exc in cj and e.seq > h.seq and (e.func == h.func or h.func in getattr(e, "stack", ())):
                out.append((e, exc))
                break
    return out


class InstanceToken:
    def __init__(self, qual, oid):
        self.qual, self.oid = qual, oid

    def __repr__(self):
        return "<%s#%d>" % (self.qual, self.oid)


def with_heap(I, env):
    """Environment in which summaries evaluate concretely: references to summarised lists / dictionaries give their
    contents, loop summaries are *run* (index, loop-carried values stepped iteration by iteration, stop conditions),
    values that survive a loop ('loopout') are those of its last iteration."""
    out = dict(env)

    def ref_hook(ref, e):
        o = I.heap.get(ref.oid)
        if isinstance(o, ListObj):
            if e.get("__progress_oid__") == ref.oid and e.get("__progress_live__"):
                # the list refers to itself (if xs[-1] == '': del xs[-1]): its contents up to this point of the run
                cur = [x for part in e.get("__progress__", ()) for x in part]
                return tuple(cur) if o.typ == "tuple" else cur
            e = dict(e)
            e["__progress_oid__"], e["__progress__"], e["__progress_live__"] = ref.oid, (), True
            vals = eval_items(o.items, e)
            return tuple(vals) if o.typ == "tuple" else vals
        if isinstance(o, DictObj):
            d = {}
            for k, v, g, lc in o.entries:
                if lc:
                    raise CannotEval("dictionary filled in a loop")
                if bool(evaluate(g, e)):
                    d[evaluate(k, e)] = evaluate(v, e)
            return d
        if isinstance(o, Instance):
            return InstanceToken(o.cls.qual, ref.oid)       # an object: only its identity can matter to a stub
        raise CannotEval(repr(ref))

    def sym_hook(t, e):
        if t.kind == "loopvar" and isinstance(t.info, tuple) and len(t.info) == 2 and isinstance(t.info[1], tuple) and t.info[1][:1] == ("len",):
            # the length, at this point of the run, of the very list whose summary is being executed
            if e.get("__progress_oid__") == t.info[1][1]:
                return sum(len(x) for x in e.get("__progress__", ()))
            raise CannotEval(repr(t))
        if t.kind == "trip" and t.name[:1] == "n" and t.name[1:].isdigit() and int(t.name[1:]) in I.loops:
            # how many iterations a loop that may end early actually starts (the one that breaks included)
            L = I.loops[int(t.name[1:])]
            run_loop._count_into = []
            try:
                run_loop(L, e, [])
                cnt = run_loop._count_into[-1] if run_loop._count_into else None
            finally:
                run_loop._count_into = None
            if cnt is None:
                raise CannotEval(repr(t))
            return cnt
        if t.kind == "loopout" and t.info and t.info[0] in I.loops:
            L = I.loops[t.info[0]]
            final = run_loop(L, e, [])[1]
            name = t.name.split(":", 1)[1] if ":" in t.name else None      # symbols are interned by name across runs
            if name in L.carried and L.carried[name][3] in final:
                return final[L.carried[name][3]]
        raise CannotEval(repr(t))

    def op_hook(t, e):
        if t.op == "listsummary":
            items = []
            for a in t.args:
                if isinstance(a, Op) and a.op == "rep":
                    L = I.loops.get(a.args[0].v)
                    if L is None:
                        raise CannotEval(repr(a)[:80])
                    items.append(("rep", L, a.args[1], a.args[2]))
                elif isinstance(a, Op) and a.op == "guarded":
                    items.append(("v", a.args[1], a.args[0]))
                else:
                    items.append(("v", a, TRUE))
            return eval_items(items, e)
        if t.op == "count" and len(t.args) == 2 and is_const(t.args[0]) and t.args[0].v in I.loops:
            # how many iterations of the loop satisfy a condition (the length of a filtered pass)
            L = I.loops[t.args[0].v]
            return len(run_loop(L, e, [("rep", L, Const(1), t.args[1])])[0])
        if t.op in ("exists", "loopret") and len(t.args) == 2 and is_const(t.args[0]) and t.args[0].v in I.loops:
            # "some iteration returns" / the value returned by the first iteration that does
            L = I.loops[t.args[0].v]
            if t.op == "exists":
                return run_loop(L, e, [], probe=t.args[1]) is not None
            rc = getattr(L, "ret_cond", None)
            if rc is None:
                raise CannotEval(repr(t)[:120])
            e2 = run_loop(L, e, [], probe=rc)
            if e2 is None:
                raise CannotEval("loopret of a loop that does not return: " + repr(t)[:80])
            return evaluate(t.args[1], e2)
        raise CannotEval(repr(t)[:120])
    out["__ref__"] = ref_hook
    out["__sym__"] = sym_hook
    out["__op__"] = op_hook
    return out


def loop_root(L, env):
    """the outermost loop around L (L included) that is not being iterated already in this evaluation context"""
    inl = env.get("__inloops__", frozenset())
    root = L
    p = getattr(L, "parent", None)
    while p is not None and p.lid not in inl:
        root = p
        p = getattr(p, "parent", None)
    return root


def run_loop(L, env, group, cap=4096, probe=None):
    """Run one loop summary concretely.  Returns (values produced by the `group` rep items, in order; final values of
    the loop-carried locations keyed by location).  With `probe` (a condition over one iteration) the run ends at the first
    iteration in which it holds and that iteration's environment is returned instead (None if there is none)."""
    out = []
    lvs = getattr(L, "lv", {})
    state = {}
    for name, (init, nxt, d, w) in L.carried.items():
        state[w] = evaluate(init, env)
    trip = None
    if L.kind != "while":
        trip = evaluate(L.trip, env)
    i = 0
    while True:
        if i > cap:
            raise CannotEval("loop %d does not end within %d iterations" % (L.lid, cap))
        e2 = dict(env)
        e2[L.idx] = i
        e2["__inloops__"] = env.get("__inloops__", frozenset()) | {L.lid}
        e2["__progress__"] = env.get("__progress__", ()) + (out,)
        for w, v in state.items():
            if w in lvs:
                e2[lvs[w]] = v
        if trip is not None:
            if i >= trip:
                break
        elif not bool(evaluate(L.cond, e2)):
            break
        if probe is not None and bool(evaluate(probe, e2)):
            return e2
        j = 0
        while j < len(group):
            g = group[j]
            if g[1] is L:
                if bool(evaluate(g[3], e2)):
                    if isinstance(g[2], Op) and g[2].op == "splat":
                        out.extend(evaluate(g[2].args[0], e2))       # xs.extend(...) inside the loop
                    else:
                        out.append(evaluate(g[2], e2))
                j += 1
                continue
            # elements added by a loop nested in this one: run it within this iteration
            child = loop_root(g[1], e2)
            sub = []
            while j < len(group) and group[j][1] is not L and loop_root(group[j][1], e2) is child:
                sub.append(group[j])
                j += 1
            out.extend(run_loop(child, e2, sub, cap)[0])
        stop = any(bool(evaluate(sc, e2)) for sc in L.stops)
        new_state = {}
        for name, (init, nxt, d, w) in L.carried.items():
            new_state[w] = evaluate(nxt, e2)
        state = new_state
        if stop:
            break
        i += 1
    if probe is not None:
        return None
    if isinstance(group, list) and getattr(run_loop, "_count_into", None) is not None:
        run_loop._count_into.append(i if not (trip is not None and i >= trip) else trip)
    return out, state


def eval_items(items, env, cap=4096):
    """Concrete value of a summarised list: 'rep' items are expanded by running their loop's summary."""
    out = []
    k = 0
    env = dict(env)
    env["__progress__"] = env.get("__progress__", ()) + (out,)
    while k < len(items):
        it = items[k]
        if it[0] == "v":
            if bool(evaluate(it[2], env)):
                v = it[1]
                if isinstance(v, Op) and v.op == "splat":
                    out.extend(evaluate(v.args[0], env))
                elif isinstance(v, Op) and v.op.startswith("listmut:"):
                    # an in-place operation recorded at this point of the list's history
                    how = v.op[len("listmut:"):]
                    pos = [evaluate(a, env) for a in v.args if not (isinstance(a, Op) and a.op == "kv")]
                    kw = {evaluate(a.args[0], env): evaluate(a.args[1], env) for a in v.args if isinstance(a, Op) and a.op == "kv"}
                    try:
                        getattr(out, how)(*pos, **kw)
                    except (IndexError, ValueError) as e:
                        raise CannotEval("list.%s raises %s" % (how, type(e).__name__))
                else:
                    out.append(evaluate(v, env))
            k += 1
            continue
        L = loop_root(it[1], env)
        group = []
        while k < len(items) and items[k][0] == "rep" and loop_root(items[k][1], env) is L:
            group.append(items[k])
            k += 1
        out.extend(run_loop(L, env, group, cap)[0])
    return out


def dict_entries(I, ref):
    o = I.heap.get(ref.oid) if isinstance(ref, Ref) else None
    if isinstance(o, DictObj):
        return o.entries
    return None


def final_entries(I, ref):
    """{const key: [(value, guard, loops), ...]} in store order; non-constant keys under None"""
    out = {}
    order = []
    for k, v, g, lc in dict_entries(I, ref) or []:
        kk = k.v if isinstance(k, Const) else None
        if kk not in out:
            order.append(kk)
        out.setdefault(kk, []).append((k, v, g, lc))
    return out, order


def cond_atoms(t):
    """opaque leaves of all conditions inside an ite tree"""
    out = []

    def rec(x):
        if isinstance(x, Ite):
            for l in opaque_leaves(x.c):
                if l not in out:
                    out.append(l)
            rec(x.a)
            rec(x.b)
    rec(t)
    return out


def select_leaf(t, env):
    """follow the ite tree under a valuation of its condition atoms"""
    while isinstance(t, Ite):
        t = t.a if evaluate(t.c, env) else t.b
    return t


def _atom(t):
    """(atom, polarity) for literals, else None"""
    if isinstance(t, Op) and t.op == "not":
        r = _atom(t.args[0])
        return (r[0], not r[1]) if r else None
    if isinstance(t, Op) and t.op in ("and", "or"):
        return None
    if isinstance(t, Ite):
        return None
    if isinstance(t, Const):
        return None
    if isinstance(t, Op) and t.op in ("ne", "notin", "isnot"):
        pos = {"ne": "eq", "notin": "in", "isnot": "is"}[t.op]
        return (Op(pos, *t.args), False)
    return (t, True)


def _peval(t, asg):
    """partial evaluation of a propositional skeleton under a partial assignment of its atoms"""
    if isinstance(t, Const):
        return TRUE if t.v else FALSE
    at = _atom(t)
    if at is not None:
        v = asg.get(at[0])
        if v is None:
            return t
        return TRUE if v == at[1] else FALSE
    if isinstance(t, Op) and t.op == "not":
        return not_(_peval(t.args[0], asg))
    if isinstance(t, Op) and t.op == "and":
        return and_(*[_peval(a, asg) for a in t.args])
    if isinstance(t, Op) and t.op == "or":
        return or_(*[_peval(a, asg) for a in t.args])
    if isinstance(t, Ite):
        c = _peval(t.c, asg)
        if c == TRUE:
            return _peval(t.a, asg)
        if c == FALSE:
            return _peval(t.b, asg)
        return ite(c, _peval(t.a, asg), _peval(t.b, asg))
    return t


def unsat(t, domain=None, budget=1 << 14):
    """is the boolean term t unsatisfiable?  unit propagation first, then enumeration
    of the remaining atoms (bounded).  Returns (bool, witness assignment or None)."""
    asg = {}
    cur = t
    for _ in range(200):
        cur = _peval(cur, asg)
        if cur == FALSE:
            return True, None
        if cur == TRUE:
            return False, dict(asg)
        conj = cur.args if isinstance(cur, Op) and cur.op == "and" else [cur]
        new = False
        for c in conj:
            at = _atom(c)
            if at is not None and at[0] not in asg:
                asg[at[0]] = at[1]
                new = True
        if not new:
            break
    # residual: DPLL-style splitting with unit propagation (budgeted)
    n = [0]

    def first_atom(x):
        at = _atom(x)
        if at is not None:
            return at[0]
        if isinstance(x, Op) and x.op in ("and", "or", "not"):
            for a in x.args:
                r = first_atom(a)
                if r is not None:
                    return r
        elif isinstance(x, Ite):
            for a in (x.c, x.a, x.b):
                r = first_atom(a)
                if r is not None:
                    return r
        return None

    def propagate(term, a):
        for _ in range(400):
            term = _peval(term, a)
            if term == FALSE or term == TRUE:
                return term
            new = False
            for c in (term.args if isinstance(term, Op) and term.op == "and" else [term]):
                at = _atom(c)
                if at is not None and at[0] not in a:
                    a[at[0]] = at[1]
                    new = True
            if not new:
                return term
        return term

    def search(term, a):
        n[0] += 1
        if n[0] > budget * 8:
            raise AnalysisError("path condition too hard to decide (search budget exceeded)")
        term = propagate(term, a)
        if term == FALSE:
            return None
        if term == TRUE:
            return a
        x = first_atom(term)
        if x is None:
            return a
        for v in (True, False):
            a2 = dict(a)
            a2[x] = v
            r = search(term, a2)
            if r is not None:
                return r
        return None
    w = search(cur, dict(asg))
    return (w is None), w


def implies(a, b, domain=None):
    """a => b, atoms treated as independent booleans (comparisons of the same operands against
    different constants are related only syntactically; callers pass numeric facts separately)"""
    viol = and_(a, not_(b))
    if viol == FALSE:
        return True, None
    u, w = unsat(viol)
    if u:
        return True, None
    env = {k: v for k, v in (w or {}).items()}
    return False, env


def bool_domain(t, extra=None):
    """atoms used as conditions get a boolean domain (keeps enumeration exhaustive)"""
    dom = dict(extra or {})
    for l in opaque_leaves(t):
        if l in dom:
            continue
        if isinstance(l, Sym) and l.kind in ("exc",):
            dom[l] = [False, True]
        elif isinstance(l, Op) and (l.op in ("truthy", "in", "notin", "is", "isnot", "isinstance", "exists") or
                                    l.op.startswith("attr:") or l.op.startswith("call:") or l.op.startswith("m:")):
            dom[l] = [False, True]
        elif isinstance(l, Sym):
            dom[l] = [False, True] if l.kind != "int" else [0, 1, 2, 255]
        elif isinstance(l, Op) and l.op in ("len", "getitem", "unpack", "elem"):
            dom[l] = [0, 1, 2]
    return dom
