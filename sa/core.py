"""Shared plumbing: report/evidence writer, known-findings matcher, exits.

Exit protocol (DESIGN.md section 1):
  0  every obligation discharged on the analysed tree
  1  + line "VIOLATION property=<id> replay=<path>": a construct breaks a rule
  2  + line "ANALYSIS-ERROR ...": the code no longer has a shape the
     extractor understands / an anchor vanished / instance count below floor
"""
import ast
import hashlib
import json
import os
import re
import sys
import time
import traceback

VERIF = os.path.dirname(os.path.dirname(os.path.abspath(__file__)))
REPO = os.environ.get("VERIF_REPO", "/repo")
OUT = os.environ.get("VERIF_OUT", VERIF)     # evidence/replays root (self-test redirects it)


class AnalysisError(Exception):
    """The analysed code has a shape the extractor cannot decide (exit 2)."""


def norm_stmt(node_or_text) -> str:
    """Normalised statement text used as a finding key (never a line number)."""
    if isinstance(node_or_text, ast.AST):
        try:
            txt = ast.unparse(node_or_text)
        except Exception:
            txt = ast.dump(node_or_text)
    else:
        txt = str(node_or_text)
    txt = txt.split("\n")[0] if len(txt) > 200 else txt
    return re.sub(r"\s+", " ", txt.replace('"', "'")).strip()


class Violation:
    def __init__(self, rule, where, construct, message, file=None, line=None, extra=None):
        self.rule = rule              # rule id, e.g. "C05.R1.guard-survives-O"
        self.where = where            # qualified function / module
        self.construct = norm_stmt(construct) if construct is not None else ""
        self.message = message
        self.file = file
        self.line = line
        self.extra = extra or {}

    def key(self):
        return "%s|%s|%s" % (self.rule, self.where, self.construct)

    def to_json(self):
        d = dict(rule=self.rule, where=self.where, construct=self.construct,
                 message=self.message, key=self.key())
        if self.file:
            d["file"] = self.file
        if self.line:
            d["line"] = self.line
        if self.extra:
            d["extra"] = self.extra
        return d

    def __str__(self):
        loc = "%s:%s" % (self.file, self.line) if self.file else self.where
        return "[%s] %s in %s: %s  -- %s" % (self.rule, loc, self.where, self.construct, self.message)


class Report:
    """Collects obligations, discharges and violations for one property run."""

    def __init__(self, pid, tier="quick"):
        self.pid = pid
        self.tier = tier
        self.t0 = time.time()
        self.obligations = []       # (rule, description, ok)
        self.violations = []
        self.notes = []
        self.analysed = {}          # counters: functions, call sites, ...
        self.samples = []
        self.assumptions = []
        self.trusted = ["python ast (parser of the repository's own interpreter)",
                        "stdlib semantics of json.dumps/str.format/bytes.decode/int.from_bytes",
                        "spec tables under /verif/spec and the rule tables inside the checkers"]
        self.floors = []            # (name, measured, floor)
        self.explanation = ""
        self.exhaustive = None
        self.extra_cov = {}

    # -- recording -------------------------------------------------------
    def ok(self, rule, desc):
        self.obligations.append((rule, desc, True))
        if len(self.samples) < 40:
            self.samples.append({"rule": rule, "obligation": desc, "result": "discharged"})

    def fail(self, rule, where, construct, message, node=None, file=None, extra=None):
        line = getattr(node, "lineno", None)
        v = Violation(rule, where, construct if construct is not None else node, message,
                      file=file, line=line, extra=extra)
        self.obligations.append((rule, message, False))
        self.violations.append(v)
        return v

    def check(self, cond, rule, desc, where="", construct=None, message=None, node=None,
              file=None, extra=None):
        if cond:
            self.ok(rule, desc)
        else:
            self.fail(rule, where, construct, message or ("not satisfied: " + desc),
                      node=node, file=file, extra=extra)
        return bool(cond)

    def count(self, name, n=1):
        self.analysed[name] = self.analysed.get(name, 0) + n

    def floor(self, name, measured, floor):
        """Vacuity guard: instance count must not fall below the confirmed floor."""
        self.floors.append((name, measured, floor))
        self.analysed[name] = measured
        if measured < floor:
            raise AnalysisError("vacuity guard: %s matched %d instance(s), floor confirmed by "
                                "reading is %d" % (name, measured, floor))

    def note(self, txt):
        self.notes.append(txt)

    # -- finishing -------------------------------------------------------
    def finish(self):
        known = load_known(self.pid)
        new, listed = [], []
        for v in self.violations:
            ent = known.get(v.key())
            if ent is not None:
                listed.append((v, ent))
            else:
                new.append(v)
        for v, ent in listed:
            print("KNOWN-FINDING: property=%s %s" % (self.pid, ent.get("what", str(v))))
        wall = time.time() - self.t0
        n_obl = len(self.obligations)
        n_ok = sum(1 for o in self.obligations if o[2])
        cov = {
            "explanation": self.explanation,
            "obligations": n_obl,
            "discharged": n_ok,
            "evaluations": n_obl,
            "distinct_nontrivial": len({(o[0], o[1]) for o in self.obligations}),
            "rule": "one obligation per (rule, construct) instance found in the analysed tree; "
                    "distinct = distinct (rule, description) pairs",
            "samples": self.samples[:40] or [{"note": "no obligations"}],
            "checker_cmd": "/venv/bin/python /verif/sa/check.py %s%s" % (
                self.pid, " --thorough" if self.tier == "thorough" else ""),
            "trusted_base": self.trusted,
            "analysed": self.analysed,
            "floors": [{"name": n, "measured": m, "floor": f} for n, m, f in self.floors],
            "rules": sorted({o[0] for o in self.obligations}),
            "known_findings_matched": [v.key() for v, _ in listed],
            "violations": [v.to_json() for v in new][:50],
            "notes": self.notes,
            "repo": REPO,
        }
        if self.exhaustive is not None:
            cov["exhaustive"] = self.exhaustive
        cov.update(self.extra_cov)
        ev = {
            "property_id": self.pid,
            "tier": self.tier,
            "seed": int(os.environ.get("VERIF_SEED", "0") or 0),
            "level": "other",
            "coverage": cov,
            "assumptions": self.assumptions,
            "wall_s": round(wall, 3),
            "violations": len(new),
        }
        os.makedirs(os.path.join(OUT, "evidence"), exist_ok=True)
        with open(os.path.join(OUT, "evidence", self.pid + ".json"), "w") as f:
            json.dump(ev, f, indent=1, default=str)
        print("%s: %d obligation(s), %d discharged, %d violation(s) (%d listed as known), %.2fs"
              % (self.pid, n_obl, n_ok, len(new), len(listed), wall))
        for k, v in sorted(self.analysed.items()):
            print("  analysed %-38s %s" % (k, v))
        if new:
            os.makedirs(os.path.join(OUT, "replays"), exist_ok=True)
            for v in new:
                print("  " + str(v))
            h = hashlib.sha1("\n".join(v.key() for v in new).encode()).hexdigest()[:10]
            path = os.path.join(OUT, "replays", "%s-%s.json" % (self.pid, h))
            with open(path, "w") as f:
                json.dump({"property": self.pid, "repo": REPO,
                           "violations": [v.to_json() for v in new]}, f, indent=1, default=str)
            print("VIOLATION property=%s replay=%s" % (self.pid, path))
            return 1
        return 0


def load_known(pid):
    """known_findings.json: {"findings": [{property, key, what}], "fixed": [...]}.
    Only "findings" suppress; "fixed" entries suppress nothing."""
    p = os.path.join(VERIF, "known_findings.json")
    out = {}
    if os.path.exists(p):
        data = json.load(open(p))
        for ent in data.get("findings", []):
            if ent.get("property") == pid:
                out[ent["key"]] = ent
    return out


def run_check(pid, fn, tier):
    rep = Report(pid, tier)
    try:
        fn(rep)
        rc = rep.finish()
    except AnalysisError as e:
        if rep.violations:
            # rules decided before the extractor gave up already found named constructs that break them: those are
            # definite; the remaining rules have no verdict
            rep.note("analysis incomplete after the violations below were found: %s" % e)
            print("ANALYSIS-INCOMPLETE property=%s %s" % (pid, e))
            rc = rep.finish()
        else:
            print("ANALYSIS-ERROR property=%s %s" % (pid, e))
            _write_error_evidence(rep, str(e))
            rc = 2
    except Exception as e:  # checker bug: never report as a violation
        traceback.print_exc()
        print("ANALYSIS-ERROR property=%s internal checker error: %r" % (pid, e))
        _write_error_evidence(rep, "internal: %r" % (e,))
        rc = 2
    return rc


def _write_error_evidence(rep, msg):
    ev = {"property_id": rep.pid, "tier": rep.tier, "seed": 0, "level": "other",
          "coverage": {"explanation": "ANALYSIS-ERROR (no verdict): " + msg,
                       "obligations": len(rep.obligations),
                       "discharged": sum(1 for o in rep.obligations if o[2]),
                       "analysed": rep.analysed},
          "wall_s": round(time.time() - rep.t0, 3), "violations": 0}
    os.makedirs(os.path.join(OUT, "evidence"), exist_ok=True)
    with open(os.path.join(OUT, "evidence", rep.pid + ".json"), "w") as f:
        json.dump(ev, f, indent=1)
