"""Interpretation of peltool.main(): option table, option->Config mapping and
mode dispatch (which function runs under which argparse destinations)."""
from .core import AnalysisError
from .interp import Interpreter
from .pelx import stops_always
from .terms import Const, Sym, Op, Ite, Ref, TRUE, walk, subst, and_, not_, is_const

PT = "pel.peltool.peltool."
MODE_FUNCS = ["parseAndPrintPELFile", "parseAndWriteOutput", "parsePelFromID", "parsePelFromBmcID",
              "parsePelFromPLID", "parsePelFromSRCID", "listOption", "printPELCount", "extractAllPELsData",
              "deletePELFromPELId", "deleteAllPELs"]
ARGS = Sym("args")


class Cli:
    def __init__(self, prog, opaque_modes=True):
        opaque = {PT + n for n in MODE_FUNCS if prog.has_func(PT + n)} if opaque_modes else set()
        self.I = I = Interpreter(prog, hooks={"opaque": opaque})
        if not prog.has_func(PT + "main"):
            raise AnalysisError("peltool.main not found")
        I.call(PT + "main", [])
        pa = None
        for e in I.events:
            if e.kind == "methcall" and e.data[1] == "parse_args":
                pa = Op("m:parse_args", e.data[0], *e.data[2])
        if pa is None:
            raise AnalysisError("main() does not call parse_args(): option handling not recognised")
        self.parse_args = pa
        self.map = {pa: ARGS}
        self.events = I.events
        # option table
        self.options = {}      # option string -> dest
        self.option_kw = {}
        for e in I.events:
            if e.kind == "methcall" and e.data[1] == "add_argument":
                names = [a.v for a in e.data[2] if is_const(a, str)]
                kw = dict(e.data[3])
                dest = kw.get("dest")
                if dest is not None and is_const(dest, str):
                    dest = dest.v
                else:
                    longs = [n for n in names if n.startswith("--")]
                    dest = (longs[0][2:] if longs else names[0].lstrip("-")).replace("-", "_")
                for n in names:
                    self.options[n] = dest
                    self.option_kw[n] = kw
        self.config = None
        for e in I.events:
            if e.kind == "new" and e.data[0] == "pel.peltool.config.Config" and self.config is None:
                self.config = e.data[1]      # the options object (built by main or a helper of it)

    def norm(self, t):
        return subst(t, self.map)

    def arg(self, dest):
        return Op("attr:" + dest, ARGS)

    def config_stores(self):
        """[(attr, value term, guard term, event)] for stores into the Config object made by main"""
        out = []
        for e in self.events:
            if e.kind == "attr_store" and e.data[0] == self.config and not e.func.endswith("Config.__init__"):
                out.append((e.data[1], self.norm(e.data[2]), self.norm(e.guard), e))
        return out

    def mode_calls(self):
        """[(function short name, args, guard, event)] for every mode function call in main"""
        out = []
        for e in self.events:
            if e.kind in ("opaquecall", "call") and e.data[0].startswith(PT) and e.data[0][len(PT):] in MODE_FUNCS \
                    and not any(q.startswith(PT) and q[len(PT):] in MODE_FUNCS for q in e.stack):
                out.append((e.data[0][len(PT):], [self.norm(a) for a in e.data[1]], self.norm(e.guard), e))
        return out

    def exits(self):
        return [(self.norm(e.guard), e) for e in self.events if e.kind == "exit"
                and not any(q.startswith(PT) and q[len(PT):] in MODE_FUNCS for q in e.stack)]

    def atoms(self, t):
        """argparse destinations a guard depends on"""
        out = []
        for x in walk(t):
            if isinstance(x, Op) and x.op.startswith("attr:") and x.args and x.args[0] == ARGS:
                if x.op[5:] not in out:
                    out.append(x.op[5:])
        return out


DECODE_FUNCS = ["parsePEL", "parsePELSummary", "generatePH", "generateUH", "considerPEL", "prettyPrint"]


class FullMain:
    """main() interpreted with every CLI mode function inlined; the decoders stay opaque"""

    def __init__(self, prog, opaque=None):
        op = {PT + n for n in (DECODE_FUNCS if opaque is None else opaque) if prog.has_func(PT + n)}
        self.I = I = Interpreter(prog, hooks={"opaque": op})
        I.call(PT + "main", [])
        pa = None
        for e in I.events:
            if e.kind == "methcall" and e.data[1] == "parse_args":
                pa = Op("m:parse_args", e.data[0], *e.data[2])
        if pa is None:
            raise AnalysisError("main() does not call parse_args()")
        self.map = {pa: ARGS}
        self.events = I.events
        # "first entry only" directory walks: a loop over os.walk() that unconditionally ends in its first iteration
        # (break / return at the end of the body).  Its index is 0, and a value returned from inside it is that of the
        # first entry (an unreadable directory yields no entry at all; then nothing is listed either way).
        self.first_only = {}
        for lid, L in I.loops.items():
            it = subst(L.iter, self.map) if L.iter is not None else None
            if isinstance(it, Op) and it.op == "call:os.walk" and stops_always(L):
                self.first_only[lid] = L
                self.map[L.idx] = Const(0)
        self.facts = [(self.norm(p), self.norm(q)) for p, q in I.facts]

    def norm(self, t):
        t = subst(t, self.map)
        if t is None:
            return t
        t = self._norm_first_only(t)
        # next(os.walk(p), <default>) is the first walk entry (the default stands for an unreadable directory: nothing listed)
        m0 = {x: Op("elem", x.args[0], Const(0)) for x in walk(t)
              if isinstance(x, Op) and x.op == "call:next" and len(x.args) == 2 and isinstance(x.args[0], Op) and x.args[0].op == "call:os.walk"}
        if m0:
            t = subst(t, m0)
        # an element of a fully known tuple/list (e.g. the (root, files) pair a helper returned)
        for _ in range(8):
            m = {}
            for x in walk(t):
                if isinstance(x, Op) and x.op == "getitem" and isinstance(x.args[0], Ref) and isinstance(x.args[1], Const) \
                        and isinstance(x.args[1].v, int):
                    o = self.I.heap.get(x.args[0].oid)
                    items = getattr(o, "items", None)
                    if items is not None and hasattr(o, "concrete") and o.concrete() and -len(items) <= x.args[1].v < len(items):
                        m[x] = self._norm_first_only(subst(items[x.args[1].v][1], self.map))
            if not m:
                break
            t = subst(t, m)
        return t

    def _norm_first_only(self, t):
        for _ in range(8):
            m = {}
            for x in walk(t):
                if isinstance(x, Op) and x.op in ("exists", "loopret") and isinstance(x.args[0], Const) and x.args[0].v in self.first_only:
                    inner = x.args[1]
                    if not any(isinstance(y, Op) and y is not x and y.op in ("exists", "loopret") and isinstance(y.args[0], Const)
                               and y.args[0].v in self.first_only for y in walk(inner)):
                        m[x] = inner
            if not m:
                break
            t = subst(t, m)
        return t

    def arg(self, dest):
        return Op("attr:" + dest, ARGS)

    def fact_terms(self):
        from .terms import or_
        return [or_(not_(p), q) for p, q in self.facts]
